// Table translation unit: the three generated sources of zonedb.
#include <Arduino.h>
#include "ace_time/common/compat.h"
#include "ace_time/zonedb/zone_policies.cpp"
#include "ace_time/zonedb/zone_infos.cpp"
#include "ace_time/zonedb/zone_registry.cpp"
