// Translation unit for static analysis: the whole AceTime library except the
// hardware / NTP / coroutine parts (their third-party headers are absent and
// no property anchors them). Never compiled to code, only parsed.
#include <Arduino.h>
#include "ace_time/common/compat.h"
#include "ace_time/common/common.h"
#include "ace_time/common/DateStrings.h"
#include "ace_time/internal/ZoneContext.h"
#include "ace_time/internal/ZoneInfo.h"
#include "ace_time/internal/ZonePolicy.h"
#include "ace_time/internal/Brokers.h"
#include "ace_time/zonedb/zone_policies.h"
#include "ace_time/zonedb/zone_infos.h"
#include "ace_time/zonedb/zone_registry.h"
#include "ace_time/zonedbx/zone_policies.h"
#include "ace_time/zonedbx/zone_infos.h"
#include "ace_time/zonedbx/zone_registry.h"
#include "ace_time/ZoneRegistrar.h"
#include "ace_time/LocalDate.h"
#include "ace_time/local_date_mutation.h"
#include "ace_time/LocalTime.h"
#include "ace_time/LocalDateTime.h"
#include "ace_time/TimeOffset.h"
#include "ace_time/time_offset_mutation.h"
#include "ace_time/OffsetDateTime.h"
#include "ace_time/ZoneProcessor.h"
#include "ace_time/BasicZoneProcessor.h"
#include "ace_time/ExtendedZoneProcessor.h"
#include "ace_time/ZoneProcessorCache.h"
#include "ace_time/ZoneManager.h"
#include "ace_time/TimeZoneData.h"
#include "ace_time/TimeZone.h"
#include "ace_time/BasicZone.h"
#include "ace_time/ExtendedZone.h"
#include "ace_time/ZonedDateTime.h"
#include "ace_time/zoned_date_time_mutation.h"
#include "ace_time/TimePeriod.h"
#include "ace_time/time_period_mutation.h"
#include "ace_time/clock/Clock.h"
#include "ace_time/clock/SystemClock.h"
#include "ace_time/clock/SystemClockLoop.h"
#include "ace_time/testing/FakeMillis.h"
#include "ace_time/testing/FakeClock.h"
#include "ace_time/testing/TestableSystemClockLoop.h"
#include "ace_time/testing/ValidationDataType.h"

#include "ace_time/common/DateStrings.cpp"
#include "ace_time/LocalDate.cpp"
#include "ace_time/LocalTime.cpp"
#include "ace_time/LocalDateTime.cpp"
#include "ace_time/TimeOffset.cpp"
#include "ace_time/OffsetDateTime.cpp"
#include "ace_time/ZonedDateTime.cpp"
#include "ace_time/TimePeriod.cpp"
#include "ace_time/TimeZone.cpp"
#include "ace_time/BasicZoneProcessor.cpp"
#include "ace_time/ExtendedZoneProcessor.cpp"

// Uses that force clang to instantiate every template member the rules anchor
// (never executed). Virtual members are instantiated with the vtable; the
// non-virtual public members are called explicitly, private ones follow.
namespace verif_force {
using namespace ace_time;
void force() {
  BasicZoneManager<2> bm(zonedb::kZoneRegistrySize, zonedb::kZoneRegistry);
  ExtendedZoneManager<2> xm(zonedbx::kZoneRegistrySize, zonedbx::kZoneRegistry);
  (void) bm.createForZoneInfo(&zonedb::kZoneAmerica_Los_Angeles);
  (void) xm.createForZoneInfo(&zonedbx::kZoneAmerica_Los_Angeles);
  BasicZoneRegistrar br(zonedb::kZoneRegistrySize, zonedb::kZoneRegistry);
  ExtendedZoneRegistrar xr(zonedbx::kZoneRegistrySize, zonedbx::kZoneRegistry);
  (void) br.registrySize(); (void) br.isSorted();
  (void) br.getZoneInfoForIndex(0); (void) br.getZoneInfoForName("");
  (void) br.getZoneInfoForId(0); (void) br.findIndexForName("");
  (void) br.findIndexForId(0);
  (void) xr.registrySize(); (void) xr.isSorted();
  (void) xr.getZoneInfoForIndex(0); (void) xr.getZoneInfoForName("");
  (void) xr.getZoneInfoForId(0); (void) xr.findIndexForName("");
  (void) xr.findIndexForId(0);
  ExtendedZoneProcessor xp; BasicZoneProcessor bp;
  (void) xp.getUtcOffset(0); (void) bp.getUtcOffset(0);
}
}
