// Table translation unit: the three generated sources of zonedbx.
#include <Arduino.h>
#include "ace_time/common/compat.h"
#include "ace_time/zonedbx/zone_policies.cpp"
#include "ace_time/zonedbx/zone_infos.cpp"
#include "ace_time/zonedbx/zone_registry.cpp"
