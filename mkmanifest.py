#!/usr/bin/env python3
"""Regenerates MANIFEST.json from the rule modules that exist (keeps it valid at all times)."""
import importlib
import json
import os
import sys

sys.path.insert(0, os.path.dirname(os.path.abspath(__file__)))
PROPS = ['C%02d' % i for i in range(1, 21)]

NA_REASONS = {
    'C01': 'Behaviour at every instant against zic: the oracle (zic applied to the Zone/Rule source) is not in the '
           'repository and no abstract domain in reach bounds what the 14-month transition search returns; every '
           'structural clause of it is the subject of another property with the right oracle (C12 tables, C09/C11 '
           'well-formedness, C08 caches, C04 helper agreement, C05 affine clause). The nearest decided statements are C04-R11 / R12: '
           'the extended processor, interpreted in full, agrees with the repository\'s own Python reference on model zones and on a '
           'sample of shipped zones - but that reference is not zic, and nothing in the repository is. See DESIGN.md section C01 and 10.8.',
}

BASELINE = ('cd /repo && /venv/bin/python -m pytest -ra -q -p no:cacheprovider --timeout=900 '
            '--continue-on-collection-errors')


def main():
    checks = []
    na = []
    for p in PROPS:
        try:
            m = importlib.import_module('acv.rules_%s' % p)
        except ModuleNotFoundError:
            m = None
        if m is None or getattr(m, 'WITHDRAWN', None):
            na.append({'property_id': p, 'reason': NA_REASONS.get(p) or getattr(m, 'WITHDRAWN', None) or
                       'static check not built (DESIGN.md section 8: a property whose rules are not finished is withdrawn)'})
            continue
        meta = m.META
        checks.append({
            'property_id': p,
            'quick_cmd': 'python3 check.py %s --tier quick' % p,
            'thorough_cmd': 'python3 check.py %s --tier thorough' % p,
            'evidence_file': 'evidence/%s.json' % p,
            'replay_cmd_template': 'python3 check.py %s --replay {path}' % p,
            'engine': 'acv',
            'level_claimed': {
                'category': 'other',
                'text': 'Static analysis of the current source. Decided: %s. Not decided: %s.' %
                        (meta['decided'], meta['not_decided']),
                'design_ref': 'DESIGN.md section 3, %s' % p,
            },
            'level_note': 'Trusted base: ' + '; '.join(meta.get('assumptions', [])) +
                          '. The check decides the named clauses on every path / table entry of the tree it is run on; '
                          'clauses marked E-SEQ are decided by interpreting the parsed function bodies with the checker\'s own '
                          'evaluator on the stated finite / tagged input family (a necessary condition of the property, stated as '
                          'such in the evidence); nothing of the repository is imported, built or executed.',
            'technique': meta.get('technique', 'static analysis: ' + meta['explanation'][:160]),
        })
    man = {
        'version': 1,
        'setup_cmd': 'python3 check.py --selfcheck',
        'hooks': {
            'guard': 'SEANDST_ACETIME_VERIF',
            'enable': 'none needed: the checks read source and never build or run the library; no hook commits exist',
            'baseline_off_cmd': BASELINE,
            'source_commits': [],
            'add_only': True,
        },
        'engines': [{
            'name': 'acv',
            'path': 'acv/',
            'serves_properties': [c['property_id'] for c in checks],
            'kind_free_text': 'repository-specific static analysis: clang JSON AST (type-resolved C++), CPython ast, '
                              'shared IR; path/typestate rules, abstract interpretation (intervals, difference bounds), '
                              'guarded normal forms for sibling agreement, table model with constant propagation, '
                              'abstract evaluation of parsed bodies (typed C++ IR, Python ast) on small stated input families '
                              '(tagged miniature database, model time-zone library)',
        }],
        'checks': checks,
        'not_applicable': na,
        'notes': 'Technique family: static analysis only. exit 0 = held; 1 = VIOLATION line; 2 = ANALYSIS-ERROR '
                 '(anchor vanished / vacuity floor / unrecognised idiom: fail closed). Known findings live in '
                 'known_findings.txt. See DESIGN.md.',
    }
    with open(os.path.join(os.path.dirname(os.path.abspath(__file__)), 'MANIFEST.json'), 'w') as fh:
        json.dump(man, fh, indent=1)
        fh.write('\n')
    print('MANIFEST.json: %d checks, %d not applicable' % (len(checks), len(na)))


if __name__ == '__main__':
    main()
