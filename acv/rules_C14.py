"""C14 - SystemClockLoop synchronisation state machine (structural clauses)."""
from .common import AnalysisError, Report
from . import cxx
from .cxx import int_type
from .gnf import Canon, Poly
from .ir import E, S, walk_stmts, walk_expr, all_exprs, stmt_exprs, show
from .paths import Engine, Rule, path_of
from .rules_C08 import null_test

META = {
    'explanation': 'The finite-state machine of SystemClockLoop::loop() is extracted from the switch over mRequestStatus (arms selected '
                   'by constant value); E-PATH rules over each arm: exhaustiveness, transition relation without sinks, failure paths '
                   'that touch no clock state, the success path that applies exactly the response; the arm summaries (E-GNF) of the '
                   'two waiting periods and of the back-off are given their integer meaning on finite domains (elapsed times around '
                   'period*1000 and the timeout, every 16-bit period) - whichever way the comparison, the local and the cast are '
                   'spelled; null tests of the reference/backup clocks, the backup write interpreted with the clock scenarios of C13; '
                   'and a typestate exploration of the FSM for the two timestamps that have no initialiser.',
    'decided': 'every status value has an arm and only status constants are assigned; from every state the machine reaches the '
               'request state; a failed or timed-out request changes neither the clock nor the last-sync data; a valid response is '
               'applied with the value read and resets the period; both waits compare milliseconds with period*1000; the back-off '
               'never exceeds the sync period nor overflows 16 bits; no use of a null reference/backup clock; timestamps are '
               'written on every path into a state that reads them; a request is only given up on a path that asked '
               'isResponseReady() first',
    'not_decided': 'quantitative timing along interleavings of time steps and reference-clock behaviours (bounded-depth schedules)',
    'assumptions': ['clang 14 parser', 'loop() is the only writer of the request status'],
}

SCL = 'ace_time::clock::SystemClockLoop'
SC = 'ace_time::clock::SystemClock'
CLOCK_WRITERS = ('syncNow', 'setNow', 'backupNow')
CLOCK_FIELDS = ('this.mEpochSeconds', 'this.mLastSyncTime', 'this.mLastSyncMillis', 'this.mPrevMillis', 'this.mIsInit')


def status_value(lib, e):
    while e.k == 'cast':
        e = e.a[2]
    if e.k == 'const':
        return e.a[0]
    if e.k == 'var':
        return lib.global_value(e.a[0])
    return None


def status_arms(lib, f, byval):
    """The dispatch of loop() on mRequestStatus, as {status name: block}: a switch over the field, or a chain
    if (status == A) {..} else if (status == B) {..} [else {..}] (either operand order).  -> (dispatch statement, arms)"""
    def subject(e):
        while e.k == 'cast':
            e = e.a[2]
        return path_of(e) == 'this.mRequestStatus'
    sws = [s for s in walk_stmts(f.body) if s.k == 'switch' and subject(s.a[0])]
    if len(sws) == 1:
        arms = {}
        for labels, blk in sws[0].a[1]:
            for l in labels:
                if l is None:
                    arms['default'] = blk
                else:
                    v = status_value(lib, l)
                    arms[byval.get(v, v)] = blk
        return sws[0], arms

    def test_of(cond):
        c = cond
        while c.k == 'cast':
            c = c.a[2]
        if c.k == 'bin' and c.a[0] == '==':
            for x, y in ((c.a[1], c.a[2]), (c.a[2], c.a[1])):
                if subject(x):
                    return status_value(lib, y)
        return None
    for s in walk_stmts(f.body):
        if s.k == 'if' and test_of(s.a[0]) is not None:
            arms = {}
            cur = s
            while True:
                v = test_of(cur.a[0])
                if v is None:
                    break
                arms[byval.get(v, v)] = cur.a[1]
                rest = [x for x in cur.a[2] if not (x.k == 'block' and not x.a[0])]
                if len(rest) == 1 and rest[0].k == 'if' and test_of(rest[0].a[0]) is not None:
                    cur = rest[0]
                    continue
                if rest:
                    arms['default'] = rest
                break
            if len(arms) >= 2:
                return s, arms
    raise AnalysisError('%s: no dispatch over mRequestStatus found in loop() (neither a switch nor an if/else-if chain of equality tests)' % f.loc)


def run(cfg):
    R = Report('C14', cfg)
    lib = cxx.load_lib(cfg)
    R.analysed['translation_units'] = ['tu/lib.cpp']
    R.rule('R1', 'every kStatus* value has an arm; only kStatus* constants are assigned to mRequestStatus', floor=8)
    R.rule('R2', 'transition relation: no sink; the request state is reachable from every state and issues sendRequest()', floor=5)
    R.rule('R3', 'paths that end in kStatusWaitForRetry touch no clock state', floor=2)
    R.rule('R4', 'success path: syncNow(readResponse()) under != kInvalidSeconds, then period, timestamp and status', floor=1)
    R.rule('R5', 'waiting periods: millisecond differences against period*1000 / the timeout; back-off saturates at the sync period', floor=4)
    R.rule('R6', 'keepAlive first; reference/backup clocks are null-tested; backup only when distinct from the reference', floor=4)
    R.rule('R7', 'timestamps without initialiser are written on every path into a state that reads them', floor=2)

    def ob(rid, c, loc, ok, msg, detail=None):
        R.instance(rid, c, loc)
        if not ok:
            R.violation(rid, c, loc, msg, detail)
    f = lib.fn(SCL + '::loop')
    consts = {}
    for q, g in lib.globals.items():
        if q.startswith(SCL + '::kStatus'):
            consts[q.split('::')[-1]] = lib.const(q)
    if len(consts) < 4:
        raise AnalysisError('anchor moved: %d kStatus constants' % len(consts))
    R.analysed['status_constants'] = consts
    byval = {v: k for k, v in consts.items()}
    ob('R1', SCL + '::kStatus*', f.loc, len(byval) == len(consts), 'status constants collide: %r' % consts)
    sw, arms = status_arms(lib, f, byval)
    for name in consts:
        ob('R1', '%s::loop:arm(%s)' % (SCL, name), sw.loc, name in arms or 'default' in arms, 'status %s has no arm in loop(): the machine stops there' % name)
    trans = {}
    for name, blk in arms.items():
        nxt = set()
        for s in walk_stmts(blk):
            if s.k == 'assign' and path_of(s.a[0]) == 'this.mRequestStatus':
                v = status_value(lib, s.a[1])
                c = '%s::loop:%s->' % (SCL, name)
                R.instance('R1', c + str(byval.get(v, v)), s.loc)
                if v not in byval:
                    R.violation('R1', c + str(v), s.loc, 'mRequestStatus is assigned %s, which is not one of the status constants' % show(s.a[1]))
                else:
                    nxt.add(byval[v])
        trans[name] = nxt
    R.analysed['transitions'] = {k: sorted(v) for k, v in trans.items()}
    # writers of the status outside loop()
    for q, fs in lib.funcs.items():
        if q.startswith(SCL + '::') and not q.endswith('::loop'):
            for g in fs:
                if g.node.get('kind') == 'CXXConstructorDecl':
                    continue
                for s in walk_stmts(g.body):
                    if s.k == 'assign' and path_of(s.a[0]) == 'this.mRequestStatus':
                        ob('R1', g.name, s.loc, False, 'mRequestStatus is written outside loop()')
    # R2
    ready = [n for n in consts if any(e.k == 'call' and e.a[0].endswith('::sendRequest') for e in all_exprs(arms.get(n, [])))]
    ob('R2', SCL + '::loop:request-state', sw.loc, len(ready) == 1, 'states issuing sendRequest(): %r (expected exactly one)' % ready)
    init_v = None
    for n, t, node in lib.fields(SCL):
        if n == 'mRequestStatus':
            inner = [x for x in node.get('inner', []) if 'Comment' not in x.get('kind', '')]
            if inner:
                init_v = lib.fold_node(inner[-1])
    ob('R2', SCL + '::mRequestStatus:initial', f.loc, ready and init_v == consts.get(ready[0]),
       'the initial status is %r, not the request state' % byval.get(init_v, init_v))
    for name in consts:
        c = '%s::loop:%s' % (SCL, name)
        out = trans.get(name, set()) - {name}
        if not out:
            ob('R2', c, sw.loc, False, 'state %s has no transition to another state: the machine never issues another request' % name)
            continue
        seen, todo = {name}, [name]
        while todo:
            x = todo.pop()
            for y in trans.get(x, ()):
                if y not in seen:
                    seen.add(y)
                    todo.append(y)
        ob('R2', c, sw.loc, bool(ready) and ready[0] in seen, 'the request state is not reachable from %s' % name)
    # R3 / R4 path rules over the whole function
    wait = 'kStatusWaitForRetry'
    okname = 'kStatusOk'

    class PR(Rule):
        """state: (touched clock state?, response var, response valid?, synced with response?, status set)"""

        def initial(self_):
            return [(False, None, 'unknown', False, None)]

        def event(self_, e, st, tr):
            if e.k == 'call' and e.a[0].split('::')[-1] in CLOCK_WRITERS and (e.a[1] is None or path_of(e.a[1]) == 'this'):
                synced = st[3]
                if e.a[0].endswith('::syncNow') and e.a[2]:
                    a = e.a[2][0]
                    synced = st[1] is not None and path_of(a) == st[1] and st[2] == 'valid'
                    c = SCL + '::loop:syncNow'
                    R.instance('R4', c, e.loc)
                    if not synced:
                        R.violation('R4', c, e.loc, 'syncNow() is not given the value just read with readResponse() under a "!= kInvalidSeconds" test', detail=list(tr))
                return (True, st[1], st[2], synced, st[4])
            return st

        def assign(self_, s, st, tr):
            name_, v = None, None
            if s.k == 'decl' and s.a[2] is not None:
                name_, v = s.a[0], s.a[2]
            elif s.k == 'assign' and s.a[0].k == 'var' and s.a[2] == '=':
                name_, v = s.a[0].a[0], s.a[1]
            if name_ is not None:
                while v.k == 'cast':
                    v = v.a[2]
                if v.k == 'call' and v.a[0].endswith('::readResponse'):
                    return (st[0], name_, 'unknown', st[3], st[4])
                if v.k == 'var' and lib.global_value(v.a[0]) == lib.const('ace_time::clock::Clock::kInvalidSeconds') and st[1] in (None, name_):
                    # the variable that will hold the response starts out as "no response"
                    return (st[0], name_, 'invalid', st[3], st[4])
            if s.k == 'assign':
                p = path_of(s.a[0])
                if p in CLOCK_FIELDS:
                    st = (True,) + st[1:]
                if p == 'this.mRequestStatus':
                    v = byval.get(status_value(lib, s.a[1]))
                    if v == wait:
                        c = SCL + '::loop:->' + wait
                        R.instance('R3', c, s.loc)
                        if st[0]:
                            R.violation('R3', c, s.loc, 'a failed or timed-out request reaches kStatusWaitForRetry after clock state was modified on this path', detail=list(tr))
                    return st[:4] + (v,)
            return st

        def refine(self_, cond, st, truth):
            c_ = cond
            while c_.k == 'cast':
                c_ = c_.a[2]
            if c_.k == 'bin' and c_.a[0] in ('==', '!=') and st[1] is not None:
                l, r = c_.a[1], c_.a[2]
                while l.k == 'cast':
                    l = l.a[2]
                while r.k == 'cast':
                    r = r.a[2]
                for x, y in ((l, r), (r, l)):
                    if path_of(x) == st[1] and y.k == 'var' and lib.global_value(y.a[0]) == lib.const('ace_time::clock::Clock::kInvalidSeconds'):
                        invalid = (c_.a[0] == '==') == truth
                        if st[2] == 'invalid' and not invalid:
                            return None        # the variable still holds the sentinel on this path: it does not test as valid
                        return (st[0], st[1], 'invalid' if invalid else 'valid', st[3], st[4])
            return st

        def at_exit(self_, kind, stmt, st, tr):
            if st[4] == wait and st[0]:
                c = SCL + '::loop:->' + wait
                R.instance('R3', c, stmt.loc if stmt is not None else f.loc)
                R.violation('R3', c, stmt.loc if stmt is not None else f.loc, 'clock state is modified on a path that ends in kStatusWaitForRetry', detail=list(tr))
    Engine(PR()).run(arms.get('kStatusSent', []) if False else f.body)
    # success block: statements following syncNow in the same block
    succ = None
    for s in walk_stmts(f.body):
        if s.k == 'if':
            for blk in (s.a[1], s.a[2]):
                if any(x.k == 'expr' and x.a[0].k == 'call' and x.a[0].a[0].endswith('::syncNow') for x in blk):
                    succ = blk
    now_var = None
    for s in f.body:
        if s.k == 'decl' and s.a[2] is not None and any(e.k == 'call' and e.a[0].endswith('::clockMillis') for e in walk_expr(s.a[2])):
            now_var = s.a[0]
    okp, why = False, 'no success block found'
    if succ is not None:
        got = {}
        for s in succ:
            if s.k == 'assign':
                got[path_of(s.a[0])] = s.a[1]
        per = got.get('this.mCurrentSyncPeriodSeconds')
        ts = got.get('this.mLastSyncMillis')
        stt = got.get('this.mRequestStatus')
        okp = per is not None and path_of(per) == 'this.mSyncPeriodSeconds' and ts is not None and now_var is not None and path_of(ts) == now_var \
            and stt is not None and byval.get(status_value(lib, stt)) == okname
        why = 'after a valid response: period := %s, mLastSyncMillis := %s, status := %s (expected mSyncPeriodSeconds, %s, kStatusOk)' % (
            show(per) if per is not None else None, show(ts) if ts is not None else None, show(stt) if stt is not None else None, now_var)
    ob('R4', SCL + '::loop:success', f.loc, okp, why)
    # R5 periods
    period_rules(R, lib, f, arms, now_var, ob)
    # R6
    first = f.body[0] if f.body else None
    ob('R6', SCL + '::loop:keepAlive', f.loc, first is not None and first.k == 'expr' and first.a[0].k == 'call' and first.a[0].a[0].endswith('::keepAlive'),
       'loop() does not call keepAlive() first')

    class NR(Rule):
        def __init__(self_, fn, field):
            self_.fn, self_.field = fn, field

        def initial(self_):
            return ['maybe']

        def refine(self_, cond, st, truth):
            p, positive = null_test(cond)
            if p == self_.field:
                return 'nonnull' if truth == positive else 'null'
            return st

        def event(self_, e, st, tr):
            if e.k == 'call' and e.a[1] is not None and path_of(e.a[1]) == self_.field:
                c = '%s:%s->%s' % (self_.fn.name, self_.field.replace('this.', ''), e.a[0].split('::')[-1])
                R.instance('R6', c, e.loc)
                if st != 'nonnull':
                    R.violation('R6', c, e.loc, '%s may be null here (it is documented as nullable) and is used without a test on this path' % self_.field, detail=list(tr))
            return st
    Engine(NR(f, 'this.mReferenceClock')).run(f.body)
    for q in (SC + '::setNow', SC + '::backupNow', SC + '::setup'):
        g = lib.fn(q)
        for fld in ('this.mReferenceClock', 'this.mBackupClock'):
            Engine(NR(g, fld)).run(g.body)
    sy = lib.fn(SC + '::syncNow')
    # decided by the interpretation of syncNow() on clocks with a distinct / identical / absent backup (rules_C13)
    from . import rules_C13
    res = {}
    sink = type('Sink', (), {'cfg': R.cfg, 'instance': lambda *a, **k: None, 'violation': lambda *a, **k: None})()
    rules_C13.clock_scenarios(sink, lib, lambda rid, c, loc, ok_, msg, detail=None: res.__setitem__(c, (ok_, msg)), rules_C13.initial_values(lib),
                              lib.const('ace_time::clock::Clock::kInvalidSeconds'), lib.fn(SC + '::getNow'), sy, lib.fn(SC + '::setNow'))
    okb, whyb = res.get(sy.name + ':backup', (False, 'syncNow() could not be interpreted'))
    ob('R6', sy.name + ':backup', sy.loc, okb, whyb)
    fsm_typestate(R, lib, f, arms, consts, byval, trans, ob)
    return R


def _strip_breaks(blk):
    """an arm as a block the engines can walk on its own: its `break`s (the trailing one, or an early one inside an if) leave
    a one-armed switch wrapped around it."""
    zero = E('const', 0)
    return [S('switch', zero, [([zero], list(blk))], loc=blk[0].loc if blk else None)]


def period_rules(R, lib, f, arms, now_var, ob):
    """The waiting periods, the request timeout and the back-off are decided by *evaluating* the path summary of each arm
    (E-GNF: ?: split into paths, small helpers of the class summarised in place) on a finite domain of field values and
    clock readings, so the spelling of the tests (operand order, a local for the elapsed time, a helper predicate, ?: or
    if) does not matter.  What evaluation cannot see - conversions are value-preserving in the summary - is guarded
    separately: no value derived from the millisecond clock may pass through a type narrower than 32 bits."""
    from .gnf import SymExec, eval_formula, eval_poly, arith_assign
    byname = {q.split('::')[-1]: lib.const(q) for q in lib.globals if q.startswith(SCL + '::kStatus')}
    CUR, SYNC, START, LAST, TMO, STATUS = ('this.mCurrentSyncPeriodSeconds', 'this.mSyncPeriodSeconds', 'this.mRequestStartMillis',
                                          'this.mLastSyncMillis', 'this.mRequestTimeoutMillis', 'this.mRequestStatus')

    def helpers(name, nargs):
        if not name.startswith(SCL + '::'):
            return None
        return next((g for g in lib.fns(name) if len(g.params) == nargs and not any(x.k == 'loop' for x in walk_stmts(g.body))), None)

    def summarise(state):
        sx = SymExec(fold_global=lib.global_value)
        sx.split_cond = True
        sx.inliner = helpers
        return sx.run(f.name, _strip_breaks(arms.get(state, [])), {now_var: Poly.atom(('sym', 'now'))} if now_var else {})

    def run_arm(summ, env, fnvals=None):
        """-> (new status or None, effects {target: value}) of the single path taken under env, or an error text"""
        base = arith_assign(dict({'null': 0, 'this.mTimingStats': 0}, **env))

        def asg(a):
            if a[0] == 'fn' and fnvals is not None:
                for suffix, v in fnvals.items():
                    if a[1].endswith(suffix):
                        return v
            return base(a)
        try:
            hits = [p for p in summ.paths if eval_formula(p[0], asg)]
        except (KeyError, TypeError) as ex:
            return 'the arm reads %s, which is not part of the state the rule models' % (ex,), None
        if len(hits) != 1:
            return '%d paths apply' % len(hits), None
        out = {}
        for t, v in hits[0][3]:
            if t != 'call':
                try:
                    out[t] = eval_poly(Poly(dict(v)), asg)
                except (KeyError, TypeError):
                    out[t] = None
        return None, out

    def narrowed(state):
        """a test of the arm decides on a value computed from the millisecond clock after it has passed through a
        conversion or a local narrower than 32 bits (the statistics' 16-bit duration is not a decision and is not meant)"""
        tainted = {now_var}
        narrow = {}
        for s in walk_stmts(arms.get(state, [])):
            if s.k == 'decl' and s.a[2] is not None and any(x.k == 'var' and x.a[0] in tainted for x in walk_expr(s.a[2])):
                it = int_type(s.a[1])
                if it is not None and it[0] < 32:
                    narrow[s.a[0]] = it[0]
                tainted.add(s.a[0])
            if s.k == 'if':
                for e in walk_expr(s.a[0]):
                    if e.k == 'cast' and isinstance(e.a[0], int) and e.a[0] < 32 and any(x.k == 'var' and x.a[0] in tainted for x in walk_expr(e.a[2])):
                        return '%s: the elapsed time is converted to %d bits before it is tested' % (e.loc, e.a[0])
                    if e.k == 'var' and e.a[0] in narrow:
                        return '%s: the elapsed time is tested through the %d-bit local %s' % (e.loc, narrow[e.a[0]], e.a[0])
        return None

    # ---- the two waits: leave for the request state exactly when period * 1000 ms have elapsed since the reference stamp
    for state, field in (('kStatusOk', LAST), ('kStatusWaitForRetry', START)):
        c = '%s::loop:%s:wait' % (SCL, state)
        bad = narrowed(state)
        if bad is None:
            try:
                summ = summarise(state)
            except AnalysisError as ex:
                summ, bad = None, 'the arm cannot be summarised: %s' % ex
        if bad is None:
            n = 0
            for cur in (1, 2, 5, 60, 66, 3600, 65535):
                for stamp in (0, 123456):
                    for d in (-1, 0, 1):
                        el = cur * 1000 + d
                        env = {CUR: cur, SYNC: 3600, START: 7, LAST: 7, TMO: 1000, 'now': stamp + el}
                        env[field] = stamp
                        err, eff = run_arm(summ, env)
                        if err:
                            bad = err
                            break
                        n += 1
                        leaves = eff.get(STATUS) == byname.get('kStatusReady')
                        if leaves != (d >= 0):
                            bad = ('period %d s, %d ms after %s: the arm %s (expected to wait for exactly period * 1000 ms measured from that stamp)'
                                   % (cur, el, field.replace('this.', ''), 'issues a new request' if leaves else 'keeps waiting'))
                            break
                    if bad:
                        break
                if bad:
                    break
        ob('R5', c, f.loc, bad is None, bad or '')
    # ---- request timeout in the sent state: without a response the request is given up exactly when the timeout has elapsed
    c = '%s::loop:kStatusSent:timeout' % SCL
    bad = narrowed('kStatusSent')
    if bad is None:
        try:
            summ = summarise('kStatusSent')
        except AnalysisError as ex:
            summ, bad = None, 'the arm cannot be summarised: %s' % ex
    if bad is None:
        for tmo in (0, 1, 1000, 65535):
            for stamp in (0, 123456):
                for d in (-1, 0, 1):
                    if tmo + d < 0:
                        continue
                    env = {CUR: 5, SYNC: 3600, START: stamp, LAST: 7, TMO: tmo, 'now': stamp + tmo + d, 'this.mTimingStats': 0}
                    err, eff = run_arm(summ, env, {'::isResponseReady': 0, '::readResponse': 1})
                    if err:
                        bad = err
                        break
                    gives_up = eff.get(STATUS) == byname.get('kStatusWaitForRetry')
                    if gives_up != (d >= 0) or (not gives_up and STATUS in eff):
                        bad = ('timeout %d ms, no response %d ms after the request: the arm %s (expected to give up exactly when the timeout has '
                               'elapsed since mRequestStartMillis)' % (tmo, tmo + d, 'gives up' if gives_up else 'goes to status %r' % eff.get(STATUS) if STATUS in eff else 'keeps waiting'))
                        break
                if bad:
                    break
            if bad:
                break
    ob('R5', c, f.loc, bad is None, bad or '')
    # the response is looked at before the timeout decides: a request is only given up on a path where
    # isResponseReady() has answered
    c = '%s::loop:kStatusSent:response-before-timeout' % SCL
    blk = arms.get('kStatusSent', [])

    class RF(Rule):
        def initial(self_):
            return ['unasked']

        def event(self_, e, st, tr):
            if e.k == 'call' and e.a[0].endswith('::isResponseReady'):
                return 'asked'
            return st

        def assign(self_, s, st, tr):
            if s.k == 'assign' and path_of(s.a[0]) == 'this.mRequestStatus' and status_value(lib, s.a[1]) == byname.get('kStatusWaitForRetry'):
                R.instance('R5', c, s.loc)
                if st == 'unasked':
                    R.violation('R5', c, s.loc, 'the request is given up (kStatusWaitForRetry) on a path that never asked isResponseReady(): a response that is '
                                'ready when loop() next runs at or after the timeout is thrown away instead of being applied', detail=list(tr))
            return st
    if blk:
        Engine(RF()).run(_strip_breaks(blk))
    # ---- back-off: on leaving the retry state the period becomes the sync period once half of it is reached, else doubles
    c = '%s::loop:kStatusWaitForRetry:backoff' % SCL
    bad = None
    n_back = 0
    try:
        summ = summarise('kStatusWaitForRetry')
    except AnalysisError as ex:
        summ, bad = None, 'the arm cannot be summarised: %s' % ex
    if bad is None:
        for sync in (1, 2, 3, 4, 5, 7, 8, 9, 60, 61, 3599, 3600, 65534, 65535):
            curs = sorted({x for x in list(range(0, 12)) + [sync // 2 - 1, sync // 2, sync // 2 + 1, sync - 1, sync, sync + 1, 32767, 32768, 65535] if 0 <= x <= 65535})
            for cur in curs:
                env = {CUR: cur, SYNC: sync, START: 0, LAST: 0, TMO: 1000, 'now': cur * 1000 + 5}
                err, eff = run_arm(summ, env)
                if err:
                    bad = err
                    break
                if eff.get(STATUS) != byname.get('kStatusReady'):
                    continue            # reported by the wait rule
                n_back += 1
                new = eff.get(CUR, cur)
                want = sync if cur >= sync // 2 else 2 * cur
                if new is None or (new & 0xffff) != want:
                    bad = ('sync period %d s, current retry period %d s: the next period is %s s%s, expected %d (the sync period once half of it is '
                           'reached, else doubled)' % (sync, cur, new, '' if new is None or new < 65536 else ' (%d as a 16-bit value)' % (new & 0xffff), want))
                    break
            if bad:
                break
    ob('R5', c, f.loc, bad is None and n_back > 0, bad or 'the retry arm never goes back to the request state')


def fsm_typestate(R, lib, f, arms, consts, byval, trans, ob):
    """Fields of SystemClockLoop without initialiser: explore (state, set of written fields)."""
    uninit = []
    ctor_init = set()
    for q, fs in lib.funcs.items():
        if q == SCL + '::SystemClockLoop':
            for g in fs:
                for s in g.body:
                    if s.k == 'assign':
                        p = path_of(s.a[0])
                        if p:
                            ctor_init.add(p.replace('this.', ''))
    for n, t, node in lib.fields(SCL):
        has_init = any('Comment' not in x.get('kind', '') for x in node.get('inner', []))
        if not has_init and n not in ctor_init and int_type(t):
            uninit.append('this.' + n)
    R.analysed['fields_without_initialiser'] = uninit
    if not uninit:
        ob('R7', SCL + ':fields', f.loc, True, '')
        ob('R7', SCL + ':fields2', f.loc, True, '')
        return
    init_state = None
    for n, t, node in lib.fields(SCL):
        if n == 'mRequestStatus':
            inner = [x for x in node.get('inner', []) if 'Comment' not in x.get('kind', '')]
            if inner:
                init_state = byval.get(lib.fold_node(inner[-1]))
    if init_state is None:
        raise AnalysisError('%s: initial request status not found' % f.loc)

    def run_arm(name, written):
        """-> set of (next state, written') ; reports reads of unwritten fields."""
        results = set()

        class AR(Rule):
            def initial(self_):
                return [(frozenset(written), name)]

            def event(self_, e, st, tr):
                if e.k == 'field':
                    p = path_of(e)
                    if p in uninit and p not in st[0]:
                        c = '%s::loop:%s:%s' % (SCL, name, p.replace('this.', ''))
                        R.instance('R7', c, e.loc)
                        R.violation('R7', c, e.loc, '%s is read in state %s on a path from the initial state on which it was never written (it has no initialiser)' % (p, name), detail=list(tr))
                return st

            def assign(self_, s, st, tr):
                if s.k == 'assign':
                    p = path_of(s.a[0])
                    if p in uninit:
                        return (st[0] | {p}, st[1])
                    if p == 'this.mRequestStatus':
                        v = byval.get(status_value(lib, s.a[1]))
                        return (st[0], v)
                return st

            def at_exit(self_, kind, stmt, st, tr):
                results.add((st[1], st[0]))
        # assignments are tracked after their right-hand side is read: the engine calls event() first
        eng = Engine(AR())
        st0 = eng.rule.initial()
        from .paths import States
        init = States()
        for s_ in st0:
            init.add(s_, ())
        fall, brk, cont = eng.block(arms.get(name, []), init)
        for st, tr in list(fall.items()) + list(brk.items()):
            results.add((st[1], st[0]))
        return results
    seen = set()
    todo = [(init_state, frozenset())]
    while todo:
        st = todo.pop()
        if st in seen:
            continue
        seen.add(st)
        for nxt in run_arm(st[0], st[1]):
            if nxt[0] is not None and nxt not in seen:
                todo.append(nxt)
    for p in uninit:
        R.instance('R7', '%s::%s' % (SCL, p.replace('this.', '')), f.loc, 'explored %d (state, written) pairs' % len(seen))


SELFTEST = [
    dict(id='timeout-decides-before-response', file='src/ace_time/clock/SystemClockLoop.h', regex=True,
         find=r'        case kStatusSent:\n          if \(mReferenceClock->isResponseReady\(\)\) \{\n(.*?)          \} else \{\n            unsigned long waitMillis = nowMillis - mRequestStartMillis;\n            if \(waitMillis >= mRequestTimeoutMillis\) \{\n              mRequestStatus = kStatusWaitForRetry;\n            \}\n          \}\n          break;',
         replace=r'        case kStatusSent: {\n          unsigned long waitMillis = nowMillis - mRequestStartMillis;\n          if (waitMillis >= mRequestTimeoutMillis) {\n            mRequestStatus = kStatusWaitForRetry;\n          } else if (mReferenceClock->isResponseReady()) {\n\1          }\n          break;\n        }',
         rule='R5', construct='response-before-timeout'),
    dict(id='arm-deleted', file='src/ace_time/clock/SystemClockLoop.h', regex=True,
         find=r'        case kStatusOk: \{\n          unsigned long millisSinceLastSync = nowMillis - mLastSyncMillis;\n          if \(millisSinceLastSync >= mCurrentSyncPeriodSeconds \* 1000UL\) \{\n            mRequestStatus = kStatusReady;\n          \}\n          break;\n        \}\n',
         replace='', rule='R'),
    dict(id='retry-never-leaves', file='src/ace_time/clock/SystemClockLoop.h', regex=True,
         find=r'(              mCurrentSyncPeriodSeconds \*= 2;\n            \}\n)            mRequestStatus = kStatusReady;\n', replace=r'\1', rule='R2'),
    dict(id='failure-updates-sync-time', file='src/ace_time/clock/SystemClockLoop.h',
         find='            if (nowSeconds == kInvalidSeconds) {\n              mRequestStatus = kStatusWaitForRetry;',
         replace='            if (nowSeconds == kInvalidSeconds) {\n              mLastSyncMillis = nowMillis;\n              mRequestStatus = kStatusWaitForRetry;', rule='R3'),
    dict(id='sync-before-validity-test', file='src/ace_time/clock/SystemClockLoop.h',
         find='            if (nowSeconds == kInvalidSeconds) {\n              mRequestStatus = kStatusWaitForRetry;\n            } else {\n              syncNow(nowSeconds);',
         replace='            syncNow(nowSeconds);\n            if (nowSeconds == kInvalidSeconds) {\n              mRequestStatus = kStatusWaitForRetry;\n            } else {', rule='R'),
    dict(id='period-not-reset-on-success', file='src/ace_time/clock/SystemClockLoop.h',
         find='              mCurrentSyncPeriodSeconds = mSyncPeriodSeconds;\n              mLastSyncMillis = nowMillis;', replace='              mLastSyncMillis = nowMillis;', rule='R4'),
    dict(id='period-compared-in-seconds', file='src/ace_time/clock/SystemClockLoop.h',
         find='if (millisSinceLastSync >= mCurrentSyncPeriodSeconds * 1000UL) {', replace='if (millisSinceLastSync >= mCurrentSyncPeriodSeconds) {', rule='R5'),
    dict(id='backoff-unbounded', file='src/ace_time/clock/SystemClockLoop.h',
         find='            if (mCurrentSyncPeriodSeconds >= mSyncPeriodSeconds / 2) {\n              mCurrentSyncPeriodSeconds = mSyncPeriodSeconds;\n            } else {\n              mCurrentSyncPeriodSeconds *= 2;\n            }',
         replace='            mCurrentSyncPeriodSeconds *= 2;', rule='R5'),
    dict(id='retry-measured-from-last-sync', file='src/ace_time/clock/SystemClockLoop.h', unique=False, nth=1,
         find='unsigned long waitMillis = nowMillis - mRequestStartMillis;', replace='unsigned long waitMillis = nowMillis - mLastSyncMillis;', rule='R'),
    dict(id='reference-null-test-deleted', file='src/ace_time/clock/SystemClockLoop.h', find='      if (mReferenceClock == nullptr) return;\n', replace='', rule='R6'),
    dict(id='backup-even-when-same-clock', file='src/ace_time/clock/SystemClock.h',
         find='      if (mBackupClock != mReferenceClock) {\n        backupNow(epochSeconds);\n      }', replace='      backupNow(epochSeconds);', rule='R6'),
    dict(id='request-start-not-recorded', file='src/ace_time/clock/SystemClockLoop.h', find='          mRequestStartMillis = nowMillis;\n', replace='', rule='R7'),
    dict(id='retry-wait-narrowed-to-16-bits', file='src/ace_time/clock/SystemClockLoop.h', unique=False, nth=1,
         find='unsigned long waitMillis = nowMillis - mRequestStartMillis;', replace='uint16_t waitMillis = nowMillis - mRequestStartMillis;', rule='R5'),
    dict(id='sync-wait-narrowed-in-place', file='src/ace_time/clock/SystemClockLoop.h',
         find='if (millisSinceLastSync >= mCurrentSyncPeriodSeconds * 1000UL) {', replace='if ((uint16_t) millisSinceLastSync >= mCurrentSyncPeriodSeconds * 1000UL) {', rule='R5'),
    # behaviour-preserving rewrites: the rules must stay quiet
    dict(id='success-statements-reordered-silent', file='src/ace_time/clock/SystemClockLoop.h',
         find='              mCurrentSyncPeriodSeconds = mSyncPeriodSeconds;\n              mLastSyncMillis = nowMillis;',
         replace='              mLastSyncMillis = nowMillis;\n              mCurrentSyncPeriodSeconds = mSyncPeriodSeconds;', expect='silent'),
    dict(id='validity-test-inverted-silent', file='src/ace_time/clock/SystemClockLoop.h',
         find='            if (nowSeconds == kInvalidSeconds) {\n              mRequestStatus = kStatusWaitForRetry;\n            } else {\n              syncNow(nowSeconds);\n              mCurrentSyncPeriodSeconds = mSyncPeriodSeconds;\n              mLastSyncMillis = nowMillis;\n              mRequestStatus = kStatusOk;\n            }',
         replace='            if (nowSeconds != kInvalidSeconds) {\n              syncNow(nowSeconds);\n              mCurrentSyncPeriodSeconds = mSyncPeriodSeconds;\n              mLastSyncMillis = nowMillis;\n              mRequestStatus = kStatusOk;\n            } else {\n              mRequestStatus = kStatusWaitForRetry;\n            }', expect='silent'),
    dict(id='timeout-difference-inlined-silent', file='src/ace_time/clock/SystemClockLoop.h',
         find='            unsigned long waitMillis = nowMillis - mRequestStartMillis;\n            if (waitMillis >= mRequestTimeoutMillis) {',
         replace='            if ((unsigned long) (nowMillis - mRequestStartMillis) >= mRequestTimeoutMillis) {', expect='silent'),
    dict(id='period-factor-commuted-silent', file='src/ace_time/clock/SystemClockLoop.h',
         find='if (millisSinceLastSync >= mCurrentSyncPeriodSeconds * 1000UL) {', replace='if (millisSinceLastSync >= 1000UL * mCurrentSyncPeriodSeconds) {', expect='silent'),
    dict(id='backoff-doubling-spelled-out-silent', file='src/ace_time/clock/SystemClockLoop.h',
         find='              mCurrentSyncPeriodSeconds *= 2;', replace='              mCurrentSyncPeriodSeconds = mCurrentSyncPeriodSeconds * 2;', expect='silent'),
]
