"""C14 - SystemClockLoop synchronisation state machine: loop() interpreted along every bounded schedule against a description of
the protocol (acv/rules_C14b.py)."""
from .common import Report
from . import cxx

META = {
    'explanation': 'E-SEQ, typed, explicit-state: SystemClockLoop::loop() - with keepAlive(), getNow(), syncNow(), the constructors and '
                   'everything they call - is interpreted along every interleaving, to a depth bound, of time steps from a small set with the '
                   'behaviours of the reference clock {not ready, ready and valid, ready and invalid}, for five (sync period, initial period, '
                   'timeout) configurations (short periods, back-off chain, cap of the back-off, 32-bit counter wrap-around, periods beyond '
                   '65.5 s) and reference == backup / distinct / no backup / no reference; states are merged on (object, protocol state, '
                   'time).  The abstraction boundary is the Clock interface and clockMillis(); `long` has its 32-bit target width.  A '
                   'description of the protocol taken from the property text runs beside the object and every call is compared with it '
                   '(acv/rules_C14b.py).',
    'decided': 'on every schedule of the family: requests only when none is outstanding and no earlier than the retry period in force allows; '
               'a valid response is applied in the call that finds it (reading, last-sync time, a distinct backup clock exactly when the clock '
               'changed); invalid responses, timeouts and idle calls change neither reading nor last-sync time nor backup clock; a request is '
               'only given up in a call that finds no response ready; the next request comes within two calls of its due time (back-off doubling '
               'capped at the sync period, sync period after a success - also for periods that do not fit 16 bits of milliseconds); loop() alone '
               'keeps the clock running; with no reference clock nothing is sent or written; no member without initialiser is read before it is '
               'written',
    'not_decided': 'schedules deeper than the bound (7 to 9 calls in the quick tier, 9 to 11 in the thorough tier) and step sizes outside the sets',
    'assumptions': ['clang 14 parser', 'the reference and backup clocks are reached only through sendRequest / isResponseReady / readResponse / setNow',
                    'unsigned long is 32 bits wide on the targets (the parser runs with the LP64 model of the host)'],
}

def run(cfg):
    R = Report('C14', cfg)
    lib = cxx.load_lib(cfg)
    R.analysed['translation_units'] = ['tu/lib.cpp']
    from . import rules_C14b
    rules_C14b.schedule_rules(R, lib)
    return R


SELFTEST = [
    dict(id='timeout-decides-before-response', file='src/ace_time/clock/SystemClockLoop.h', regex=True,
         find=r'        case kStatusSent:\n          if \(mReferenceClock->isResponseReady\(\)\) \{\n(.*?)          \} else \{\n            unsigned long waitMillis = nowMillis - mRequestStartMillis;\n            if \(waitMillis >= mRequestTimeoutMillis\) \{\n              mRequestStatus = kStatusWaitForRetry;\n            \}\n          \}\n          break;',
         replace=r'        case kStatusSent: {\n          unsigned long waitMillis = nowMillis - mRequestStartMillis;\n          if (waitMillis >= mRequestTimeoutMillis) {\n            mRequestStatus = kStatusWaitForRetry;\n          } else if (mReferenceClock->isResponseReady()) {\n\1          }\n          break;\n        }',
         rule='S'),
    dict(id='request-wait-kept-in-16-bits', file='src/ace_time/clock/SystemClockLoop.h',
         find='            unsigned long waitMillis = nowMillis - mRequestStartMillis;', replace='            uint16_t waitMillis = nowMillis - mRequestStartMillis;', rule='S'),
    # (seeded round 6: loop() called at gaps that are multiples of 65536 ms never gives the request up - the `sparse` configuration)
    dict(id='arm-deleted', file='src/ace_time/clock/SystemClockLoop.h', regex=True,
         find=r'        case kStatusOk: \{\n          unsigned long millisSinceLastSync = nowMillis - mLastSyncMillis;\n          if \(millisSinceLastSync >= mCurrentSyncPeriodSeconds \* 1000UL\) \{\n            mRequestStatus = kStatusReady;\n          \}\n          break;\n        \}\n',
         replace='', rule='S'),
    dict(id='retry-never-leaves', file='src/ace_time/clock/SystemClockLoop.h', regex=True,
         find=r'(              mCurrentSyncPeriodSeconds \*= 2;\n            \}\n)            mRequestStatus = kStatusReady;\n', replace=r'\1', rule='S'),
    dict(id='failure-updates-sync-time', file='src/ace_time/clock/SystemClockLoop.h',
         find='            if (nowSeconds == kInvalidSeconds) {\n              mRequestStatus = kStatusWaitForRetry;',
         replace='            if (nowSeconds == kInvalidSeconds) {\n              mLastSyncMillis = nowMillis;\n              mRequestStatus = kStatusWaitForRetry;', expect='silent'),
    # (mLastSyncMillis is private bookkeeping that is only read in the state a success enters, and a success writes it again: no reading, no
    #  last-sync time and no request time depends on this extra write)
    dict(id='sync-before-validity-test', file='src/ace_time/clock/SystemClockLoop.h',
         find='            if (nowSeconds == kInvalidSeconds) {\n              mRequestStatus = kStatusWaitForRetry;\n            } else {\n              syncNow(nowSeconds);',
         replace='            syncNow(nowSeconds);\n            if (nowSeconds == kInvalidSeconds) {\n              mRequestStatus = kStatusWaitForRetry;\n            } else {', expect='silent'),
    # (syncNow() itself ignores the invalid sentinel, C13-R3)
    dict(id='period-not-reset-on-success', file='src/ace_time/clock/SystemClockLoop.h',
         find='              mCurrentSyncPeriodSeconds = mSyncPeriodSeconds;\n              mLastSyncMillis = nowMillis;', replace='              mLastSyncMillis = nowMillis;', rule='S'),
    dict(id='period-compared-in-seconds', file='src/ace_time/clock/SystemClockLoop.h',
         find='if (millisSinceLastSync >= mCurrentSyncPeriodSeconds * 1000UL) {', replace='if (millisSinceLastSync >= mCurrentSyncPeriodSeconds) {', rule='S'),
    dict(id='backoff-unbounded', file='src/ace_time/clock/SystemClockLoop.h',
         find='            if (mCurrentSyncPeriodSeconds >= mSyncPeriodSeconds / 2) {\n              mCurrentSyncPeriodSeconds = mSyncPeriodSeconds;\n            } else {\n              mCurrentSyncPeriodSeconds *= 2;\n            }',
         replace='            mCurrentSyncPeriodSeconds *= 2;', rule='S'),
    dict(id='retry-measured-from-last-sync', file='src/ace_time/clock/SystemClockLoop.h', unique=False, nth=1,
         find='unsigned long waitMillis = nowMillis - mRequestStartMillis;', replace='unsigned long waitMillis = nowMillis - mLastSyncMillis;', rule='S'),
    dict(id='reference-null-test-deleted', file='src/ace_time/clock/SystemClockLoop.h', find='      if (mReferenceClock == nullptr) return;\n', replace='', rule='S'),
    dict(id='backup-even-when-same-clock', file='src/ace_time/clock/SystemClock.h',
         find='      if (mBackupClock != mReferenceClock) {\n        backupNow(epochSeconds);\n      }', replace='      backupNow(epochSeconds);', rule='S'),
    dict(id='request-start-not-recorded', file='src/ace_time/clock/SystemClockLoop.h', find='          mRequestStartMillis = nowMillis;\n', replace='', rule='S'),
    dict(id='retry-wait-narrowed-to-16-bits', file='src/ace_time/clock/SystemClockLoop.h', unique=False, nth=1,
         find='unsigned long waitMillis = nowMillis - mRequestStartMillis;', replace='uint16_t waitMillis = nowMillis - mRequestStartMillis;', rule='S'),
    dict(id='sync-wait-narrowed-in-place', file='src/ace_time/clock/SystemClockLoop.h',
         find='if (millisSinceLastSync >= mCurrentSyncPeriodSeconds * 1000UL) {', replace='if ((uint16_t) millisSinceLastSync >= mCurrentSyncPeriodSeconds * 1000UL) {', rule='S'),
    # behaviour-preserving rewrites: the rules must stay quiet
    dict(id='success-statements-reordered-silent', file='src/ace_time/clock/SystemClockLoop.h',
         find='              mCurrentSyncPeriodSeconds = mSyncPeriodSeconds;\n              mLastSyncMillis = nowMillis;',
         replace='              mLastSyncMillis = nowMillis;\n              mCurrentSyncPeriodSeconds = mSyncPeriodSeconds;', expect='silent'),
    dict(id='validity-test-inverted-silent', file='src/ace_time/clock/SystemClockLoop.h',
         find='            if (nowSeconds == kInvalidSeconds) {\n              mRequestStatus = kStatusWaitForRetry;\n            } else {\n              syncNow(nowSeconds);\n              mCurrentSyncPeriodSeconds = mSyncPeriodSeconds;\n              mLastSyncMillis = nowMillis;\n              mRequestStatus = kStatusOk;\n            }',
         replace='            if (nowSeconds != kInvalidSeconds) {\n              syncNow(nowSeconds);\n              mCurrentSyncPeriodSeconds = mSyncPeriodSeconds;\n              mLastSyncMillis = nowMillis;\n              mRequestStatus = kStatusOk;\n            } else {\n              mRequestStatus = kStatusWaitForRetry;\n            }', expect='silent'),
    dict(id='timeout-difference-inlined-silent', file='src/ace_time/clock/SystemClockLoop.h',
         find='            unsigned long waitMillis = nowMillis - mRequestStartMillis;\n            if (waitMillis >= mRequestTimeoutMillis) {',
         replace='            if ((unsigned long) (nowMillis - mRequestStartMillis) >= mRequestTimeoutMillis) {', expect='silent'),
    dict(id='period-factor-commuted-silent', file='src/ace_time/clock/SystemClockLoop.h',
         find='if (millisSinceLastSync >= mCurrentSyncPeriodSeconds * 1000UL) {', replace='if (millisSinceLastSync >= 1000UL * mCurrentSyncPeriodSeconds) {', expect='silent'),
    dict(id='backoff-doubling-spelled-out-silent', file='src/ace_time/clock/SystemClockLoop.h',
         find='              mCurrentSyncPeriodSeconds *= 2;', replace='              mCurrentSyncPeriodSeconds = mCurrentSyncPeriodSeconds * 2;', expect='silent'),
]
