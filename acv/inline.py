"""IR-level inlining of helper functions that are not part of the reference vocabulary.

The rules are anchored in the functions the tree had when the checker was built (acv/vocabulary.txt: every function of
the library by qualified name).  A function that is *not* in that vocabulary is a helper somebody extracted later: an
implementation detail of its callers.  Its calls are replaced by its body (parameters bound, `this` re-based, locals renamed,
early returns restructured into if/else), so that every intraprocedural rule sees the caller as it was before the
extraction.  Helpers that cannot be inlined (a return inside a loop or switch, recursion, a call under && / || / ?:) are left
as calls; nothing is guessed."""
from .ir import E, S, walk_stmts, walk_expr, stmt_exprs, show

MAX_STMTS = 40
MAX_DEPTH = 3
_counter = [0]


def _fresh(tag):
    _counter[0] += 1
    return '%s\x01%d' % (tag, _counter[0])


def _map_expr(e, f):
    """copy of e with f applied bottom-up to every node (f returns a replacement or None)"""
    if not isinstance(e, E):
        return e
    na = []
    for x in e.a:
        if isinstance(x, E):
            na.append(_map_expr(x, f))
        elif isinstance(x, list):
            na.append([_map_expr(y, f) if isinstance(y, E) else y for y in x])
        elif isinstance(x, tuple) and any(isinstance(y, E) for y in x):
            na.append(tuple(_map_expr(y, f) if isinstance(y, E) else y for y in x))
        else:
            na.append(x)
    n = E(e.k, *na, loc=e.loc, ty=e.ty, raw=e.raw)
    r = f(n)
    return n if r is None else r


def _map_stmt(s, fe, fname=None):
    """copy of statement s (recursively) with fe applied to every expression and fname to every declared name"""
    k, a = s.k, s.a
    me = lambda x: _map_expr(x, fe) if isinstance(x, E) else x
    mb = lambda b: [_map_stmt(x, fe, fname) for x in b]
    if k == 'assign':
        return S('assign', me(a[0]), me(a[1]), *a[2:], loc=s.loc, raw=s.raw)
    if k in ('expr', 'return', 'raise'):
        return S(k, me(a[0]) if a[0] is not None else None, *a[1:], loc=s.loc, raw=s.raw)
    if k == 'decl':
        return S('decl', fname(a[0]) if fname else a[0], a[1], me(a[2]) if a[2] is not None else None, *a[3:], loc=s.loc, raw=s.raw)
    if k == 'if':
        return S('if', me(a[0]), mb(a[1]), mb(a[2]), loc=s.loc, raw=s.raw)
    if k == 'loop':
        return S('loop', a[0], mb(a[1]), me(a[2]) if a[2] is not None else None, mb(a[3]), mb(a[4]), *a[5:], loc=s.loc, raw=s.raw)
    if k == 'switch':
        return S('switch', me(a[0]), [(labels, mb(blk)) for labels, blk in a[1]], loc=s.loc, raw=s.raw)
    if k == 'block':
        return S('block', mb(a[0]), loc=s.loc, raw=s.raw)
    return s


def _has_return(block):
    return any(x.k == 'return' for x in walk_stmts(block))


def _single_exit(stmts, res):
    """the block with every `return e` turned into `res = e` and the code after it made conditional; None when a return
    sits inside a loop or a switch"""
    out = []
    for i, s in enumerate(stmts):
        rest = stmts[i + 1:]
        if s.k == 'return':
            if s.a[0] is not None and res is not None:
                out.append(S('assign', E('var', res, loc=s.loc), s.a[0], '=', loc=s.loc, raw=s.raw))
            elif s.a[0] is not None:
                out.append(S('expr', s.a[0], loc=s.loc, raw=s.raw))
            return out
        if s.k == 'switch' and _has_return([s]):
            # every arm either returns, or leaves the switch by break / by running off its end into the code behind the switch
            arms = s.a[1]
            new_arms = []
            for j, (labels, blk) in enumerate(arms):
                blk = list(blk)
                # an arm that falls through runs the following arms too
                k_ = j
                while not (blk and blk[-1].k in ('break', 'return', 'continue', 'raise')) and k_ + 1 < len(arms):
                    k_ += 1
                    blk = blk + list(arms[k_][1])
                if any(x.k == 'break' for x in walk_stmts(blk[:-1])) or any(x.k in ('loop', 'switch') and _has_return([x]) for x in blk):
                    return None
                tail = list(rest) if (not blk or blk[-1].k == 'break' or blk[-1].k not in ('return', 'continue', 'raise')) else []
                core = blk[:-1] if (blk and blk[-1].k == 'break') else blk
                low = _single_exit(core + tail, res)
                if low is None:
                    return None
                new_arms.append((labels, low + [S('break', loc=s.loc)]))
            if not any(None in labels for labels, _b in arms):
                low = _single_exit(list(rest), res)
                if low is None:
                    return None
                new_arms.append(([None], low + [S('break', loc=s.loc)]))
            out.append(S('switch', s.a[0], new_arms, loc=s.loc, raw=s.raw))
            return out
        if s.k in ('loop', 'switch', 'try', 'with') and _has_return([s]):
            return None
        if s.k == 'block' and _has_return(s.a[0]):
            inner = _single_exit(list(s.a[0]) + list(rest), res)
            if inner is None:
                return None
            return out + inner
        if s.k == 'if' and (_has_return(s.a[1]) or _has_return(s.a[2])):
            t = _single_exit(list(s.a[1]) + list(rest), res)
            f = _single_exit(list(s.a[2]) + list(rest), res)
            if t is None or f is None:
                return None
            out.append(S('if', s.a[0], t, f, loc=s.loc, raw=s.raw))
            return out
        out.append(s)
    return out


def _simple(e):
    """an argument that can stand for the parameter wherever it is used: a name, a constant, a field path, this"""
    while e is not None and e.k == 'cast':
        e = e.a[2]
    if e is None:
        return False
    if e.k in ('var', 'const', 'this', 'null', 'str', 'memfn'):
        return True
    if e.k == 'field':
        return _simple(e.a[0])
    return False


def _pure(e):
    return not any(x.k in ('call', 'incdec', 'assignexpr', 'init') for x in walk_expr(e))


def _resolved_decl(raw):
    """id of the function declaration a clang call expression was resolved to, if it names one"""
    if not isinstance(raw, dict):
        return None
    inner = raw.get('inner') or []
    if raw.get('kind') not in ('CallExpr', 'CXXMemberCallExpr', 'CXXOperatorCallExpr') or not inner:
        return None
    c = inner[0]
    while c.get('kind') in ('ImplicitCastExpr', 'ParenExpr') and c.get('inner'):
        c = c['inner'][-1]
    if c.get('kind') == 'DeclRefExpr':
        return (c.get('referencedDecl') or {}).get('id')
    if c.get('kind') == 'MemberExpr':
        return c.get('referencedMemberDecl')
    return None


class Inliner:
    def __init__(self, tu):
        self.tu = tu

    def callee(self, e, stack):
        if e.k != 'call' or not self.tu.is_helper(e.a[0]):
            return None
        fs = [f for f in self.tu.fns(e.a[0]) if len(f.params) == len(e.a[2])]
        if len(fs) > 1:
            # overloads / instantiations of one template: the declaration the compiler resolved this call to; else the one whose
            # parameter types are those of the arguments, provided that settles it (instantiations that differ in a constant
            # argument only have the same parameter types and different bodies: those calls are left to the evaluator)
            did = _resolved_decl(getattr(e, 'raw', None))
            byid = [f for f in fs if did is not None and did in (f.node.get('id'), f.node.get('previousDecl'))]

            def base(t):
                return (t or '').replace('const', '').replace('&', '').strip()
            exact = [f for f in fs if all(base(pt) == base(getattr(a_, 'ty', None)) or not getattr(a_, 'ty', None)
                                          for (_pn, pt), a_ in zip(f.params, e.a[2]))]
            if byid:
                fs = byid[:1]
            elif len(exact) >= 1 and len({repr(f.raw_body) for f in exact}) == 1:
                fs = exact[:1]
            elif len({repr(f.raw_body) for f in fs}) == 1:
                fs = fs[:1]
            else:
                fs = []
        if len(fs) != 1 or fs[0].name in stack or fs[0].is_virtual:
            return None
        f = fs[0]
        body = f.raw_body
        if len(list(walk_stmts(body))) > MAX_STMTS:
            return None
        return f

    def expand(self, e, f, stack, depth):
        """-> (statements computing the call, expression holding its value) or None"""
        body = self.block(f.raw_body, stack + (f.name,), depth + 1)
        tag = f.name.split('::')[-1]
        ren = {}

        def rn(name):
            if name not in ren:
                ren[name] = _fresh(name)
            return ren[name]
        pre = []
        sub = {}
        for (pn, pt), arg in zip(f.params, e.a[2]):
            if not pn:
                continue
            by_ref = bool(pt) and pt.rstrip().endswith('&')
            if _simple(arg) and (by_ref or not any(x.k == 'assign' and x.a[0].k == 'var' and x.a[0].a[0] == pn for x in walk_stmts(body))):
                sub[pn] = arg
            elif by_ref:
                return None                    # a reference to something that is not a plain path: keep the call
            else:
                t = rn(pn)
                pre.append(S('decl', t, pt, arg, loc=e.loc))
        recv = e.a[1]
        if recv is not None and recv.k != 'this' and not _simple(recv):
            return None
        for s in walk_stmts(body):
            if s.k == 'decl':
                rn(s.a[0])

        def fe(x):
            if x.k == 'var' and x.a[0] in sub:
                return sub[x.a[0]]
            if x.k == 'var' and x.a[0] in ren:
                return E('var', ren[x.a[0]], loc=x.loc, ty=x.ty, raw=x.raw)
            if x.k == 'this' and recv is not None and recv.k != 'this':
                return recv
            if x.k == 'call' and x.a[0] == '.*' and x.a[2] and x.a[2][0].k == 'memfn':
                # (object.*pointer)(args) with the pointer now known: the member call it stands for
                return E('call', x.a[2][0].a[0], x.a[1], list(x.a[2][1:]), loc=x.loc, ty=x.ty, raw=None)
            return None
        body = [_map_stmt(s, fe, lambda n: ren.get(n, n)) for s in body]
        void = not f.ret or f.ret.strip() == 'void'
        res = None if void else _fresh(tag)
        flat = _single_exit(body, res)
        if flat is None:
            return None
        out = list(pre)
        if res is not None:
            out.append(S('decl', res, f.ret, None, loc=e.loc))
        out.extend(flat)
        return out, (E('var', res, loc=e.loc, ty=e.ty or f.ret) if res is not None else None)

    def first_call(self, e, stack):
        """the first helper call of expression e in evaluation order, provided nothing impure is evaluated before it and it
        is evaluated unconditionally"""
        def rec(x):
            # returns ('found', call) | ('impure',) | None
            if not isinstance(x, E):
                return None
            if x.k == 'bin' and x.a[0] in ('&&', '||'):
                r = rec(x.a[1])
                if r is not None:
                    return r
                return ('impure',) if not _pure(x.a[2]) else None
            if x.k == 'cond':
                r = rec(x.a[0])
                if r is not None:
                    return r
                return ('impure',) if not (_pure(x.a[1]) and _pure(x.a[2])) else None
            kids = []
            for y in x.a:
                if isinstance(y, E):
                    kids.append(y)
                elif isinstance(y, (list, tuple)):
                    kids.extend(z for z in y if isinstance(z, E))
            if x.k == 'call' and self.callee(x, stack) is not None:
                # its own receiver and arguments are evaluated as part of the call (they become the parameter bindings, in
                # order); only a helper call nested in them goes first
                for y in kids:
                    r = rec(y)
                    if r is not None and r[0] == 'found':
                        return r
                return ('found', x)
            for y in kids:
                r = rec(y)
                if r is not None:
                    return r
            if x.k == 'call':
                return ('impure',)
            if x.k in ('incdec', 'assignexpr'):
                return ('impure',)
            return None
        r = rec(e)
        return r[1] if r and r[0] == 'found' else None

    def stmt(self, s, stack, depth):
        k, a = s.k, s.a
        if k == 'if':
            s = S('if', a[0], self.block(a[1], stack, depth), self.block(a[2], stack, depth), loc=s.loc, raw=s.raw)
        elif k == 'loop':
            s = S('loop', a[0], self.block(a[1], stack, depth), a[2], self.block(a[3], stack, depth), self.block(a[4], stack, depth), *a[5:], loc=s.loc, raw=s.raw)
        elif k == 'switch':
            s = S('switch', a[0], [(labels, self.block(blk, stack, depth)) for labels, blk in a[1]], loc=s.loc, raw=s.raw)
        elif k == 'block':
            s = S('block', self.block(a[0], stack, depth), loc=s.loc, raw=s.raw)
        if depth > MAX_DEPTH or s.k == 'loop':
            return [s]             # the condition of a loop is evaluated every round: not hoisted
        out = []
        for _ in range(8):
            hit = None
            for ex in stmt_exprs(s):
                c = self.first_call(ex, stack)
                if c is not None:
                    hit = c
                    break
            if hit is None:
                break
            f = self.callee(hit, stack)
            got = self.expand(hit, f, stack, depth)
            if got is None:
                break
            pre, val = got
            out.extend(pre)
            if val is None:
                if s.k == 'expr' and s.a[0] is hit:
                    return out
                break
            s = _map_stmt_shallow(s, hit, val)
        out.append(s)
        return out

    def block(self, stmts, stack=(), depth=0):
        out = []
        for s in stmts:
            out.extend(self.stmt(s, stack, depth))
        return out


def _map_stmt_shallow(s, old, new):
    """s with the expression node `old` (identity) replaced by `new` in its own expressions"""
    def fe_factory():
        def rep(x):
            return None
        return rep

    def repl(e):
        if e is old:
            return new
        if not isinstance(e, E):
            return e
        na = []
        ch = False
        for x in e.a:
            if isinstance(x, E):
                y = repl(x)
                ch = ch or y is not x
                na.append(y)
            elif isinstance(x, list):
                ys = [repl(z) if isinstance(z, E) else z for z in x]
                ch = ch or any(p is not q for p, q in zip(ys, x))
                na.append(ys)
            elif isinstance(x, tuple) and any(isinstance(z, E) for z in x):
                ys = tuple(repl(z) if isinstance(z, E) else z for z in x)
                ch = ch or any(p is not q for p, q in zip(ys, x))
                na.append(ys)
            else:
                na.append(x)
        return E(e.k, *na, loc=e.loc, ty=e.ty, raw=e.raw) if ch else e
    k, a = s.k, s.a
    if k == 'assign':
        return S('assign', repl(a[0]), repl(a[1]), *a[2:], loc=s.loc, raw=s.raw)
    if k in ('expr', 'return', 'raise'):
        return S(k, repl(a[0]) if a[0] is not None else None, *a[1:], loc=s.loc, raw=s.raw)
    if k == 'decl':
        return S('decl', a[0], a[1], repl(a[2]) if a[2] is not None else None, *a[3:], loc=s.loc, raw=s.raw)
    if k == 'if':
        return S('if', repl(a[0]), a[1], a[2], loc=s.loc, raw=s.raw)
    if k == 'switch':
        return S('switch', repl(a[0]), a[1], loc=s.loc, raw=s.raw)
    return s


def inline_helpers(body, tu, owner_name):
    if not getattr(tu, 'vocabulary', None):
        return body
    return Inliner(tu).block(body, (owner_name,), 0)


# ---- trivial accessors of the same class ------------------------------------------------------------------------------------

def _getter_path(tu, q, cls):
    """the field path a trivial accessor `T name() const { return mField; }` of class `cls` returns (an E over `this`), else None"""
    fs = [f for f in tu.funcs.get(q, []) + tu.helpers.get(q, []) if not f.params and f.cls == cls and not f.is_virtual and not f.is_static]
    if len(fs) != 1 and len({repr(f.raw_body) for f in fs}) != 1:
        return None
    if not fs:
        return None
    body = fs[0].raw_body
    if len(body) != 1 or body[0].k != 'return' or body[0].a[0] is None:
        return None
    e = body[0].a[0]
    core = e
    while core.k == 'cast':
        core = core.a[2]
    x = core
    while x.k == 'field':
        x = x.a[0]
    return e if (core.k == 'field' and x.k == 'this') else None


def self_getters(body, tu, owner):
    """`this->name()` with name a trivial accessor of the same class reads the member it returns: both spellings get the IR of
    the member read (a class that reads its own field through its accessor, or directly, is the same class)"""
    cls = getattr(owner, 'cls', None)
    if not cls:
        return body
    cache = {}

    def fe(x):
        if x.k == 'call' and x.a[1] is not None and x.a[1].k == 'this' and not x.a[2] and x.a[0] != owner.name:
            q = x.a[0]
            if q not in cache:
                try:
                    cache[q] = _getter_path(tu, q, cls)
                except Exception:
                    cache[q] = None
            if cache[q] is not None:
                return cache[q]
        return None
    return [_map_stmt(s, fe) for s in body]
