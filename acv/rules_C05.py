"""C05 - instant <-> zoned date-time round trip (structural clauses): affine pairing of offset add/subtract and of the
Unix-epoch constant, conversions route through the unmodified instant, compareTo orders by instant, the same
instant is used for the offset look-up and for the field computation, floor-division twins agree."""
from .common import AnalysisError, Report
from . import cxx
from .gnf import SymExec, Poly, Canon, valuations, formula_str, poly_key_str
from .ir import walk_stmts, walk_expr, all_exprs, show
from .paths import path_of

META = {
    'explanation': 'E-SEQ, typed (acv/rules_C05b.py): LocalDate, LocalTime, LocalDateTime, TimeOffset, OffsetDateTime and ZonedDateTime are '
                   'interpreted through their own factories, accessors and converters; a TimeZone is abstracted at the one member the '
                   'date-time classes ask it, getUtcOffset(epochSeconds), by two model zones (one with a DST period, one fixed).  Instants '
                   'around both transitions, around the epoch, at day boundaries on both sides of it and two billion seconds either way; ten '
                   'fixed offsets (thorough: every quarter hour of +-16 h).  The two forEpochSeconds factories on instants around day boundaries '
                   '(floor quotient).  On top of that, with nothing abstracted: ZonedDateTime through TimeZone and the real processors on the model zones of '
                   'acv/rules_C04c.py (both scopes), at the instants around every transition of 2004..2006, against the timeline of the interpreted reference (R6).',
    'decided': 'on every instant / offset / pair of the family: forEpochSeconds(e, x).toEpochSeconds() == e and the fields are the calendar '
               'reading of e + offset; the Unix variants (for / to, seconds and days, all classes) are the same values at e + 946684800; '
               'convertToTimeOffset / convertToTimeZone keep the instant; compareTo is the sign of the difference of the instants, also more '
               'than 2^31 s apart and for two date-times of one zone inside the repeated hour; ZonedDateTime::forEpochSeconds reads the zone at '
               'the instant it converts; on the model zones, through the real processors: fields = UTC fields shifted by the reference\'s offset, '
               'toEpochSeconds() gives the instant back, the Unix variant is 946684800 more, convertToTimeZone keeps the instant',
    'not_decided': 'instants and offsets outside the families; zones unlike the model zones',
    'assumptions': ['clang 14 parser', 'TimeZone is used by the date-time classes only through getUtcOffset() / isError() / operator=='],
}

UNIX = 946684800
DAYS = 10957


def _P(k):
    return Poly(dict(k))


def _atom(p):
    if len(p.t) == 1:
        (k, v), = p.t.items()
        if len(k) == 1 and v == 1:
            return k[0]
    return None


def fn_atoms(p, name_suffix, out=None, depth=0):
    """all ('fn', name, args) atoms reachable in p whose name ends with name_suffix."""
    out = [] if out is None else out
    for a in p.atoms():
        if a[0] == 'fn':
            if a[1].endswith(name_suffix):
                out.append(a)
            for x in a[2]:
                if isinstance(x, tuple) and not (x and x[0] == 'kw'):
                    fn_atoms(_P(x), name_suffix, out, depth + 1)
        elif a[0] in ('init',):
            for x in a[2]:
                fn_atoms(_P(x), name_suffix, out, depth + 1)
        elif a[0] == 'cond':
            for x in a[1:]:
                fn_atoms(_P(x), name_suffix, out, depth + 1)
    return out


def summarize(lib, q, pick=None):
    fs = lib.fns(q)
    if pick:
        fs = [f for f in fs if pick(f)]
    if not fs:
        raise AnalysisError('anchor vanished: %s' % q)
    f = fs[0]
    return f, summariser(lib).run(q, f.body, {})


API_PREFIXES = ('for', 'to', 'is', 'print', 'compare', 'convert', 'get', 'operator')


def summariser(lib):
    """E-GNF summariser for the conversion functions: ?: is split into paths, and a call to a small helper that is not
    part of the conversion API itself (a private floor-division helper, a forwarding wrapper) is summarised in place, so
    that the rules see what is computed, not how it is distributed over locals and helpers."""
    sx = SymExec(fold_global=lib.global_value)
    sx.split_cond = True

    def inliner(name, nargs):
        short = name.split('::')[-1]
        if not name.startswith('ace_time::') or short.startswith(API_PREFIXES) or short[:1].isupper():
            return None
        for g in lib.fns(name):
            if len(g.params) == nargs and g.body and len(list(walk_stmts(g.body))) <= 12 and not any(x.k == 'loop' for x in walk_stmts(g.body)):
                return g
        return None
    sx.inliner = inliner
    return sx


def floor_days(lib, q):
    """The factory named q (LocalDate / LocalDateTime ::forEpochSeconds) is interpreted (E-SEQ, typed, the day formulas and
    LocalTime::forSeconds through their real bodies) on instants around day boundaries on both sides of the epoch and at
    the ends of the 32-bit range: the fields of the result must be the calendar date (and time of day) of that instant -
    the day count is the floor quotient by 86400, a negative multiple of 86400 is midnight, not the day before; the
    sentinel gives the error value.  -> (ok, why, cases)"""
    import datetime
    from .aeval import AEval, AObj, CxxModule, Raised
    f = lib.fn(q)
    mod = CxxModule(lib, ['ace_time::'])
    inv = lib.const('ace_time::LocalDate::kInvalidEpochSeconds')
    samples = set()
    for k in (-24855, -24854, -10958, -366, -2, -1, 0, 1, 2, 365, 10957, 24854):
        for r in (0, 1, 2, 43200, 86398, 86399):
            v = k * 86400 + r
            if -(1 << 31) < v < (1 << 31):
                samples.add(v)
    samples.update({-(1 << 31) + 1, (1 << 31) - 1})
    samples.discard(inv)
    n = 0

    def fields(o):
        """(year, month, day[, hour, minute, second]) of a LocalDate / LocalDateTime object tree"""
        if not isinstance(o, AObj):
            return None
        a = o.attrs
        if 'mYearTiny' in a:
            return (2000 + a['mYearTiny'], a['mMonth'], a['mDay'])
        if 'mLocalDate' in a and 'mLocalTime' in a:
            d, tm = a['mLocalDate'].attrs, a['mLocalTime'].attrs
            return (2000 + d['mYearTiny'], d['mMonth'], d['mDay'], tm['mHour'], tm['mMinute'], tm['mSecond'])
        return None
    for v in sorted(samples):
        try:
            r = AEval(module=mod, typed=True, max_steps=20000).call_function(f.name, [v], chosen=CxxModule._Fn(f))
        except Raised as x_:
            return False, 'epoch seconds %d: interpretation raises %s' % (v, x_.what), n
        got = fields(r)
        if got is None:
            return False, 'epoch seconds %d: the result is not a LocalDate / LocalDateTime value' % v, n
        dt = datetime.datetime(2000, 1, 1) + datetime.timedelta(seconds=v)
        want = (dt.year, dt.month, dt.day, dt.hour, dt.minute, dt.second)[:len(got)]
        n += 1
        if got != want:
            days = (datetime.date(*got[:3]) - datetime.date(2000, 1, 1)).days if 1 <= got[1] <= 12 and 1 <= got[2] <= 31 else None
            return False, ('epoch seconds %d: the result is %s, the calendar says %s%s%s'
                           % (v, got, want, '' if days is None else ' (day count %d, the floor quotient by 86400 is %d)' % (days, v // 86400),
                              ' (a negative multiple of 86400 is midnight, not the day before)' if v < 0 and v % 86400 == 0 else '')), n
    try:
        r = AEval(module=mod, typed=True, max_steps=20000).call_function(f.name, [inv], chosen=CxxModule._Fn(f))
        e = AEval(module=mod, typed=True, max_steps=20000).call_function(f.name.rsplit('::', 1)[0] + '::isError', [], recv=r)
    except Raised as x_:
        return False, 'the sentinel: interpretation raises %s' % x_.what, n
    if not e:
        return False, 'the invalid sentinel %d does not give an error value (fields %s)' % (inv, fields(r)), n
    return True, '', n + 1


def lin(p):
    r = p.linear_in()
    if r is None:
        return None
    return r


def run(cfg):
    R = Report('C05', cfg)
    lib = cxx.load_lib(cfg)
    R.analysed['translation_units'] = ['tu/lib.cpp']
    R.rule('R1', 'instant -> date-time -> instant is the identity, fields are the calendar reading of instant + offset; Unix variants differ by 946684800 (interpreted)', floor=12)
    R.rule('R2', 'conversions to another offset / zone keep the instant (interpreted)', floor=2)
    R.rule('R3', 'compareTo returns the sign of the difference of the two instants, also more than 2^31 s apart (interpreted)', floor=3)
    R.rule('R4', 'ZonedDateTime::forEpochSeconds reads the zone at the instant it converts: fields are right on both sides of a transition (interpreted)', floor=1)
    R.rule('R5', 'floor-division twins agree and pair with days*86400 + seconds', floor=2)

    def ob(rid, c, loc, ok, msg):
        R.instance(rid, c, loc)
        if not ok:
            R.violation(rid, c, loc, msg)

    ks = lib.const('ace_time::LocalDate::kSecondsSinceUnixEpoch')
    kd = lib.const('ace_time::LocalDate::kDaysSinceUnixEpoch')
    ob('R1', 'LocalDate::kSecondsSinceUnixEpoch', 'src/ace_time/LocalDate.h', ks == UNIX and ks == 86400 * kd and kd == DAYS,
       'kSecondsSinceUnixEpoch=%r, kDaysSinceUnixEpoch=%r: expected 946684800 = 86400 * 10957' % (ks, kd))
    # R1..R4: the date-time classes interpreted through their real bodies against two model zones (acv/rules_C05b.py)
    from . import rules_C05b
    rules_C05b.roundtrip_eval(R, lib, ob)
    from . import rules_C04c
    rules_C04c.zoned_roundtrip_rule(R, cfg, lib, 'R6')
    # R5 floor division twins
    fa = lib.fn('ace_time::LocalDate::forEpochSeconds')
    fb = lib.fn('ace_time::LocalDateTime::forEpochSeconds')
    oka, whya, na = floor_days(lib, 'ace_time::LocalDate::forEpochSeconds')
    okb, whyb, nb = floor_days(lib, 'ace_time::LocalDateTime::forEpochSeconds')
    R.instance('R5', 'LocalDate::forEpochSeconds:floor', fa.loc, '%d instants evaluated' % na)
    if not oka:
        R.violation('R5', 'LocalDate::forEpochSeconds:floor', fa.loc, whya)
    # the date part and the date-time part split an instant into the same day (both are the floor quotient) and the
    # seconds of the day are what toEpochSeconds() adds back: days * 86400 + seconds
    R.instance('R5', 'LocalDate::forEpochSeconds~LocalDateTime::forEpochSeconds', fb.loc, '%d instants evaluated' % nb)
    if not okb:
        R.violation('R5', 'LocalDate::forEpochSeconds~LocalDateTime::forEpochSeconds', fb.loc, whyb)
    return R


def _epoch_locals(f):
    """locals of f initialised from toEpochSeconds()"""
    out = set()
    for s in walk_stmts(f.body):
        if s.k == 'decl' and s.a[2] is not None and any(x.k == 'call' and x.a[0].endswith('::toEpochSeconds') for x in walk_expr(s.a[2])):
            out.add(s.a[0])
    return out


def _days_expr(f):
    for st in walk_stmts(f.body):
        if st.k == 'decl' and st.a[0] == 'days' and st.a[2] is not None:
            return Canon()(st.a[2])
    return None


SELFTEST = [
    dict(id='offset-subtracted-when-building', file='src/ace_time/OffsetDateTime.h',
         find='        epochSeconds += timeOffset.toSeconds();', replace='        epochSeconds -= timeOffset.toSeconds();', rule='R1', construct='forEpochSeconds'),
    dict(id='offset-added-when-converting-back', file='src/ace_time/OffsetDateTime.h',
         find='      return mLocalDateTime.toEpochSeconds() - mTimeOffset.toSeconds();', replace='      return mLocalDateTime.toEpochSeconds() + mTimeOffset.toSeconds();', rule='R1', construct='toEpochSeconds'),
    dict(id='unix-constant-sign', file='src/ace_time/LocalDateTime.h',
         find='      return toEpochSeconds() + LocalDate::kSecondsSinceUnixEpoch;', replace='      return toEpochSeconds() - LocalDate::kSecondsSinceUnixEpoch;', rule='R1', construct='LocalDateTime::forUnixSeconds/toUnixSeconds'),
    dict(id='unix-constant-value', file='src/ace_time/LocalDate.h', find='kSecondsSinceUnixEpoch = 946684800;', replace='kSecondsSinceUnixEpoch = 946684801;', rule='R1'),
    dict(id='offset-seconds-scale', file='src/ace_time/TimeOffset.h', find='return (int32_t) 60 * toMinutes();', replace='return (int32_t) 3600 * toMinutes();', rule='R1'),
    dict(id='conversion-shifts-instant', file='src/ace_time/ZonedDateTime.h',
         find='      acetime_t epochSeconds = toEpochSeconds();\n      return ZonedDateTime::forEpochSeconds(epochSeconds, timeZone);',
         replace='      acetime_t epochSeconds = toEpochSeconds() + 1;\n      return ZonedDateTime::forEpochSeconds(epochSeconds, timeZone);', rule='R2'),
    dict(id='compareTo-reversed', file='src/ace_time/OffsetDateTime.h',
         find='      if (thisSeconds < thatSeconds) return -1;\n      if (thisSeconds > thatSeconds) return 1;',
         replace='      if (thisSeconds < thatSeconds) return 1;\n      if (thisSeconds > thatSeconds) return -1;', rule='R3'),
    dict(id='lookup-with-other-instant', file='src/ace_time/ZonedDateTime.h',
         find='        TimeOffset timeOffset = timeZone.getUtcOffset(epochSeconds);', replace='        TimeOffset timeOffset = timeZone.getUtcOffset(epochSeconds - 1);', rule='R4'),
    dict(id='floor-division-twin-differs', file='src/ace_time/LocalDate.h',
         find='            ? (epochSeconds + 1) / 86400 - 1', replace='            ? epochSeconds / 86400 - 1', rule='R5'),
    dict(id='compare-by-wrapped-difference', file='src/ace_time/OffsetDateTime.h',
         find='      if (thisSeconds < thatSeconds) return -1;\n      if (thisSeconds > thatSeconds) return 1;\n      return 0;',
         replace='      acetime_t d = (acetime_t) ((uint32_t) thisSeconds - (uint32_t) thatSeconds);\n      if (d < 0) return -1;\n      if (d > 0) return 1;\n      return 0;',
         rule='R3'),
    dict(id='zoned-compare-same-zone-shortcut', file='src/ace_time/ZonedDateTime.h',
         find='      return mOffsetDateTime.compareTo(that.mOffsetDateTime);',
         replace='      if (mTimeZone == that.mTimeZone) return localDateTime().compareTo(that.localDateTime());\n      return mOffsetDateTime.compareTo(that.mOffsetDateTime);', rule='R3', construct='ZonedDateTime::compareTo'),
    dict(id='offset-added-spelled-out-silent', file='src/ace_time/OffsetDateTime.h',
         find='        epochSeconds += timeOffset.toSeconds();', replace='        epochSeconds = timeOffset.toSeconds() + epochSeconds;', expect='silent'),
    dict(id='offset-subtraction-commuted-silent', file='src/ace_time/OffsetDateTime.h',
         find='      return mLocalDateTime.toEpochSeconds() - mTimeOffset.toSeconds();', replace='      return -mTimeOffset.toSeconds() + mLocalDateTime.toEpochSeconds();', expect='silent'),
    dict(id='unix-factory-by-if-silent', file='src/ace_time/OffsetDateTime.h',
         find='      acetime_t epochSeconds = (unixSeconds == LocalDate::kInvalidEpochSeconds)\n          ? unixSeconds\n          : unixSeconds - LocalDate::kSecondsSinceUnixEpoch;\n      return forEpochSeconds(epochSeconds, timeOffset);',
         replace='      acetime_t epochSeconds = unixSeconds;\n      if (unixSeconds != LocalDate::kInvalidEpochSeconds) {\n        epochSeconds -= LocalDate::kSecondsSinceUnixEpoch;\n      }\n      return forEpochSeconds(epochSeconds, timeOffset);', expect='silent'),
    dict(id='conversion-inlined-silent', file='src/ace_time/OffsetDateTime.h',
         find='      acetime_t epochSeconds = toEpochSeconds();\n      return OffsetDateTime::forEpochSeconds(epochSeconds, timeOffset);',
         replace='      return OffsetDateTime::forEpochSeconds(toEpochSeconds(), timeOffset);', expect='silent'),
    dict(id='unix-constant-commuted-silent', file='src/ace_time/OffsetDateTime.h',
         find='      return toEpochSeconds() + LocalDate::kSecondsSinceUnixEpoch;', replace='      return LocalDate::kSecondsSinceUnixEpoch + toEpochSeconds();', expect='silent'),
    dict(id='zoned-factory-inlined-lookup-silent', file='src/ace_time/ZonedDateTime.h',
         find='        TimeOffset timeOffset = timeZone.getUtcOffset(epochSeconds);\n        odt = OffsetDateTime::forEpochSeconds(epochSeconds, timeOffset);',
         replace='        odt = OffsetDateTime::forEpochSeconds(epochSeconds, timeZone.getUtcOffset(epochSeconds));', expect='silent'),
    dict(id='zoned-factory-branches-swapped-silent', file='src/ace_time/ZonedDateTime.h',
         find='      if (epochSeconds == LocalDate::kInvalidEpochSeconds) {\n        odt = OffsetDateTime::forError();\n      } else {\n        TimeOffset timeOffset = timeZone.getUtcOffset(epochSeconds);\n        odt = OffsetDateTime::forEpochSeconds(epochSeconds, timeOffset);\n      }',
         replace='      if (epochSeconds != LocalDate::kInvalidEpochSeconds) {\n        TimeOffset timeOffset = timeZone.getUtcOffset(epochSeconds);\n        odt = OffsetDateTime::forEpochSeconds(epochSeconds, timeOffset);\n      } else {\n        odt = OffsetDateTime::forError();\n      }', expect='silent'),
    dict(id='compareTo-else-chain-silent', file='src/ace_time/LocalDateTime.h',
         find='      if (thisSeconds < thatSeconds) return -1;\n      if (thisSeconds > thatSeconds) return 1;\n      return 0;',
         replace='      if (thisSeconds > thatSeconds) {\n        return 1;\n      } else if (thisSeconds == thatSeconds) {\n        return 0;\n      }\n      return -1;', expect='silent'),
]
