"""C16-R1/R2 by interpretation: save a TimeZone, restore it through a zone manager, compare.

TimeZone values of every kind are made by the library's own factories (forTimeOffset, forError, forZoneInfo, and
ZoneManagerImpl::createForZoneId / createForZoneIndex on a registry of abstract zone infos - the registrar, the brokers and
the TimeZone constructors through their real bodies), saved with toTimeZoneData(), restored with createForTimeZoneData()
on a manager whose registry does / does not contain the zone, and compared with the library's own operator==:

  * a manual zone restores to a zone equal to forTimeOffset(std, dst) with the same two offsets;
  * an error zone restores to an error zone;
  * a zone of the registry restores to a zone equal to the one the manager creates directly for that id, of the manager's
    kind, holding that registry entry; its saved form carries the zone's id;
  * an id that is not in the registry restores to the error zone;
  * getZoneId() is the id of the zone's entry, 0 for a manual zone;
  * a saved type byte that is none of the three known ones restores to the error (default) value the header documents."""
from .common import AnalysisError

TZ = 'ace_time::TimeZone'
TZD = 'ace_time::TimeZoneData'
MGR = 'ace_time::ZoneManagerImpl'
REG = 'ace_time::ZoneRegistrar'


def roundtrip_rule(R, lib, consts):
    from .aeval import AEval, AObj, CxxModule, Raised, cxx_object
    from .cxx import int_type, nty
    R.rule('R1', 'a saved TimeZone restores through a manager to an equal TimeZone (manual offsets, error, zones in / not in the registry), interpreted', floor=6)
    R.rule('R2', 'toTimeZoneData / getZoneId: every TimeZone kind saves its own kind and payload, interpreted', floor=6)
    mod = CxxModule(lib, ['ace_time::'])
    MARKS = {}

    def sgn(ev, recv, args):
        a, b = args
        return (a > b) - (a < b)

    def call(f, args, recv=None, intr=None):
        return AEval(module=mod, intrinsics=intr, typed=True, max_steps=100000).call_function(f.name, list(args), recv=recv, chosen=CxxModule._Fn(f))

    def fn(q, n=None, inst=None, ptype=None):
        fs = [f for f in (lib.fns(q, inst) if inst else lib.fns(q)) if (n is None or len(f.params) == n) and (ptype is None or any(ptype in (t or '') for _p, t in f.params))]
        if not fs:
            raise AnalysisError('anchor vanished: %s' % q)
        return fs[0]
    f_save = fn(TZ + '::toTimeZoneData', 0)
    f_id = fn(TZ + '::getZoneId', 0)
    f_err = fn(TZ + '::isError', 0)
    f_eq = [f for f in lib.fns('ace_time::operator==') if len(f.params) == 2 and all('TimeZone &' in (t or '') and 'TimeZoneData' not in (t or '') for _p, t in f.params)]
    if not f_eq:
        raise AnalysisError('anchor vanished: operator==(const TimeZone&, const TimeZone&)')
    f_eq = f_eq[0]
    f_manual = fn(TZ + '::forTimeOffset', 2)
    f_error = fn(TZ + '::forError', 0)
    f_min = fn('ace_time::TimeOffset::forMinutes', 1)
    f_tomin = fn('ace_time::TimeOffset::toMinutes', 0)
    f_std, f_dst = fn(TZ + '::getStdOffset', 0), fn(TZ + '::getDstOffset', 0)
    insts = sorted({f.inst for f in lib.funcs.get(MGR + '::createForTimeZoneData', []) if f.inst != 'primary'})
    if len(insts) < 2:
        raise AnalysisError('anchor moved: ZoneManagerImpl instantiations: %r' % insts)
    first = {}
    counts = {}

    def note(rid, c, loc, text):
        first.setdefault((rid, c), (loc, text))

    def count(rid, c, loc):
        counts[(rid, c)] = (loc, counts.get((rid, c), (loc, 0))[1] + 1)

    def eq(a, b, intr):
        return bool(call(f_eq, [a, b], intr=intr))

    def kind_of(z):
        return z.attrs.get('mType') if isinstance(z, AObj) else None
    try:
        for inst in insts:
            tag = 'basic' if 'asic' in inst else 'extended'
            flds = {}
            for c_ in [c for c in lib.classes.get(MGR, []) if c.get('_inst') == inst][:1]:
                for x in c_.get('inner', []):
                    if x.get('kind') == 'FieldDecl':
                        flds[x['name']] = nty(x) or ''
            reg_f = [n for n, ty in flds.items() if 'Registrar' in ty]
            cache_f = [n for n, ty in flds.items() if 'Cache' in ty]
            if len(reg_f) != 1 or len(cache_f) != 1:
                raise AnalysisError('%s [%s]: expected one registrar and one cache member, found %r' % (MGR, tag, flds))
            managed = consts['TZ.kTypeBasicManaged' if tag == 'basic' else 'TZ.kTypeExtendedManaged']
            direct = consts['TZ.kTypeBasic' if tag == 'basic' else 'TZ.kTypeExtended']
            intr = {'strcmp_P': sgn, 'ace_common::strcmp_PP': sgn, 'strcmp': sgn, 'ace_time::ZoneProcessorCache::getType': lambda ev, recv, args, m_=managed: m_}
            rc = [f_ for f_ in lib.fns(REG + '::ZoneRegistrar') if len(f_.params) == 2 and f_.inst != 'primary' and (('asic' in f_.inst) == (tag == 'basic'))]
            if not rc:
                raise AnalysisError('anchor vanished: %s(registrySize, zoneRegistry) [%s]' % (REG, tag))

            def manager(ranks):
                reg = [AObj({'name': r, 'zoneId': 5000 + 7 * r}, oid='z%d' % r) for r in ranks]
                registrar = AObj({}, oid='registrar', cls=REG, ftypes={n_: int_type(t_) for n_, t_, _x in lib.fields(REG) if int_type(t_)})
                call(rc[0], [len(reg) if int_type(pt_) else reg for (_pn, pt_) in rc[0].params], recv=registrar, intr=intr)
                cache = AObj({}, oid='cache-%s' % '-'.join(map(str, ranks)), cls='ace_time::ZoneProcessorCache')
                return AObj({reg_f[0]: registrar, cache_f[0]: cache}, oid='manager', cls=MGR), reg
            mgr, reg = manager([0, 2, 4, 6, 8, 10, 12])
            other, _oreg = manager([1, 3, 5])
            f_restore = fn(MGR + '::createForTimeZoneData', 1, inst)
            f_by_id = fn(MGR + '::createForZoneId', 1, inst)
            f_by_ix = fn(MGR + '::createForZoneIndex', 1, inst)
            f_direct = fn(TZ + '::forZoneInfo', 2, ptype='%s::ZoneInfo' % tag)
            c1 = '%s[%s]' % (f_restore.name, tag)
            c2 = '%s[%s]' % (f_save.name, tag)
            # ---- manual zones
            for s_, d_ in [(0, 0), (-480, 60), (330, 0), (60, -60), (-32768, 0), (32767, 0), (0, 32767), (-1, 1), (765, 60)]:
                count('R1', c1 + ':manual', f_restore.loc)
                tz = call(f_manual, [call(f_min, [s_]), call(f_min, [d_])])
                d = call(f_save, [], recv=tz)
                count('R2', c2 + ':manual', f_save.loc)
                if not (isinstance(d, AObj) and d.attrs.get('type') == consts['TZD.kTypeManual'] and d.attrs.get('stdOffsetMinutes') == s_ and d.attrs.get('dstOffsetMinutes') == d_):
                    note('R2', c2 + ':manual', f_save.loc, 'a manual zone (%d, %d) minutes saves as %s' % (s_, d_, dict(d.attrs) if isinstance(d, AObj) else d))
                if call(f_id, [], recv=tz) != 0:
                    note('R2', c2 + ':manual', f_id.loc, 'a manual zone reports the zone id %r, expected 0' % call(f_id, [], recv=tz))
                back = call(f_restore, [d], recv=mgr, intr=intr)
                offs = (call(f_tomin, [], recv=call(f_std, [], recv=back)), call(f_tomin, [], recv=call(f_dst, [], recv=back))) if isinstance(back, AObj) else None
                if not isinstance(back, AObj) or not eq(back, tz, intr) or offs != (s_, d_):
                    note('R1', c1 + ':manual', f_restore.loc, '[%s] a manual zone with offsets (%d, %d) minutes restores with offsets %s%s' % (
                        tag, s_, d_, offs, '' if isinstance(back, AObj) and eq(back, tz, intr) else ' and does not compare equal to the original'))
            # ---- error zone
            count('R1', c1 + ':error', f_restore.loc)
            count('R2', c2 + ':error', f_save.loc)
            tz = call(f_error, [])
            d = call(f_save, [], recv=tz)
            if not (isinstance(d, AObj) and d.attrs.get('type') == consts['TZD.kTypeError']):
                note('R2', c2 + ':error', f_save.loc, 'the error zone saves as %s' % (dict(d.attrs) if isinstance(d, AObj) else d))
            back = call(f_restore, [d], recv=mgr, intr=intr)
            if not (isinstance(back, AObj) and call(f_err, [], recv=back)):
                note('R1', c1 + ':error', f_restore.loc, '[%s] a saved error zone restores to a zone that is not the error zone' % tag)
            # ---- zones of the registry: created by the manager, and unmanaged zones made from the same entries
            proc = AObj({}, oid='processor', cls='ace_time::%sZoneProcessor' % ('Basic' if tag == 'basic' else 'Extended'))
            for i, z in enumerate(reg):
                zid = z.attrs['zoneId']
                made = [('the manager for its id', call(f_by_id, [zid], recv=mgr, intr=intr)), ('the manager for its index', call(f_by_ix, [i], recv=mgr, intr=intr)),
                        ('forZoneInfo()', call(f_direct, [z if 'ZoneInfo' in (pt_ or '') else proc for (_pn, pt_) in f_direct.params]))]
                for how, tz in made:
                    count('R2', c2 + ':zone', f_save.loc)
                    if not isinstance(tz, AObj) or call(f_err, [], recv=tz):
                        note('R1', c1 + ':zone', f_by_id.loc, '[%s] registry entry %d (id %d) created by %s is the error zone' % (tag, i, zid, how))
                        continue
                    want_kind = direct if how == 'forZoneInfo()' else managed
                    got_id = call(f_id, [], recv=tz, intr=intr)
                    d = call(f_save, [], recv=tz, intr=intr)
                    if kind_of(tz) != want_kind or got_id != zid or not (isinstance(d, AObj) and d.attrs.get('type') == consts['TZD.kTypeZoneId'] and d.attrs.get('zoneId') == zid):
                        note('R2', c2 + ':zone', f_save.loc, '[%s] the zone of registry entry %d (id %d) made by %s has kind %r (expected %d), getZoneId() %r, and saves as %s' % (
                            tag, i, zid, how, kind_of(tz), want_kind, got_id, dict(d.attrs) if isinstance(d, AObj) else d))
                        continue
                    count('R1', c1 + ':zone', f_restore.loc)
                    back = call(f_restore, [d], recv=mgr, intr=intr)
                    ref = made[0][1]
                    ok = isinstance(back, AObj) and isinstance(ref, AObj) and eq(back, ref, intr) and kind_of(back) == managed and call(f_id, [], recv=back, intr=intr) == zid
                    if not ok:
                        note('R1', c1 + ':zone', f_restore.loc, '[%s] the zone with id %d (made by %s) is saved and restored by a manager whose registry holds it: the result %s' % (
                            tag, zid, how, 'is the error zone' if isinstance(back, AObj) and call(f_err, [], recv=back) else
                            'does not compare equal to the zone the manager creates for that id (kind %r, id %r)' % (kind_of(back), call(f_id, [], recv=back, intr=intr) if isinstance(back, AObj) else None)))
                    count('R1', c1 + ':missing', f_restore.loc)
                    back2 = call(f_restore, [d], recv=other, intr=intr)
                    if not (isinstance(back2, AObj) and call(f_err, [], recv=back2)):
                        note('R1', c1 + ':missing', f_restore.loc, '[%s] the zone with id %d restored by a manager whose registry does not hold it is not the error zone' % (tag, zid))
            # ---- a registry longer than an 8-bit index can address: entries beyond 255, and an id it does not hold
            big, breg = manager(list(range(0, 2 * 300, 2)))
            for i in (0, 255, 256, 257, 299):
                zid = breg[i].attrs['zoneId']
                count('R1', c1 + ':long-registry', f_restore.loc)
                tz = call(f_by_ix, [i], recv=big, intr=intr)
                d = call(f_save, [], recv=tz, intr=intr)
                back = call(f_restore, [d], recv=big, intr=intr)
                if not (isinstance(back, AObj) and eq(back, tz, intr) and call(f_id, [], recv=back, intr=intr) == zid):
                    note('R1', c1 + ':long-registry', f_restore.loc, '[%s] registry of 300 zones: the zone at index %d (id %d) is saved and restored as %s' % (
                        tag, i, zid, 'the error zone' if isinstance(back, AObj) and call(f_err, [], recv=back) else
                        'the zone with id %r' % (call(f_id, [], recv=back, intr=intr) if isinstance(back, AObj) else None)))
            count('R1', c1 + ':long-registry', f_restore.loc)
            tz = call(f_by_ix, [1], recv=other, intr=intr)          # a zone of the other registry: its id (5000 + 7 * 3) is not in the long one
            d = call(f_save, [], recv=tz, intr=intr)
            back = call(f_restore, [d], recv=big, intr=intr)
            if not (isinstance(back, AObj) and call(f_err, [], recv=back)):
                note('R1', c1 + ':long-registry', f_restore.loc, '[%s] registry of 300 zones: an id it does not hold restores to the zone with id %r instead of the error zone' % (
                    tag, call(f_id, [], recv=back, intr=intr) if isinstance(back, AObj) else None))
            # ---- an unknown type byte
            count('R1', c1 + ':unknown-type', f_restore.loc)
            d = cxx_object(lib, TZD)
            known = {consts['TZD.kTypeError'], consts['TZD.kTypeManual'], consts['TZD.kTypeZoneId']}
            d.attrs['type'] = next(v for v in range(3, 200) if v not in known)
            back = call(f_restore, [d], recv=mgr, intr=intr)
            if not isinstance(back, AObj) or not (call(f_err, [], recv=back) or eq(back, call(fn(TZ + '::forUtc', 0), []), intr)):
                note('R1', c1 + ':unknown-type', f_restore.loc, '[%s] a saved record of unknown type %d restores to something that is neither the error zone nor the default zone' % (tag, d.attrs['type']))
    except Raised as x_:
        raise AnalysisError('C16: interpretation raises %s' % x_.what)
    for (rid, c), (loc, n) in sorted(counts.items()):
        R.instance(rid, c, loc, '%d cases interpreted' % n)
        if (rid, c) in first:
            R.violation(rid, c, first[(rid, c)][0], first[(rid, c)][1])
