"""Constant propagation through loop-free C++ function bodies (IR level): used to read table
constants through the repository's own accessor bodies.  No repository code is executed; the
evaluator folds the IR of the accessor with the cell constants substituted for the fields."""
from .common import AnalysisError
from .cxx import int_type, wrap, fold_binop
from .ir import show


class Unknown(Exception):
    pass


class Obj:
    """A struct value: field name -> value."""

    def __init__(self, fields, ty=None):
        self.fields = fields
        self.ty = ty

    def __repr__(self):
        return 'Obj(%s)' % self.fields


class CEval:
    def __init__(self, tu, max_depth=6):
        self.tu = tu
        self.max_depth = max_depth
        self.width_events = []   # (loc, read type, field type) for reads through pointer casts

    # -- functions ---------------------------------------------------------------
    def call(self, func, this=None, args=(), depth=0):
        if depth > self.max_depth:
            raise AnalysisError('%s: inlining bound exceeded' % func.loc)
        env = {}
        for (pn, pt), v in zip(func.params, args):
            it = int_type(pt)
            env[pn] = wrap(v, *it) if (it and isinstance(v, int)) else v
            env['\x00ty:' + pn] = it
        r = self._block(func.body, env, this, depth)
        if r is None:
            return None
        v = r[0]
        it = int_type(func.ret)
        if it and isinstance(v, int):
            v = wrap(v, *it)
        return v

    def construct(self, cls, args, depth):
        """value of `Cls{args}` / `Cls(args)`: run the constructor with that arity (member initialisers are lowered to
        this.field = expr), or, for an aggregate, bind the arguments to the fields in declaration order."""
        if not isinstance(cls, str):
            return None
        q = cls.replace('const ', '').strip()
        try:
            flds = self.tu.fields(q)
        except Exception:
            return None
        if not flds:
            return None
        ctors = [f for f in self.tu.fns(q + '::' + q.split('::')[-1]) if len(f.params) == len(args)]
        if ctors:
            obj = Obj({n: None for n, _t, _n in flds}, ty=q)
            if depth > self.max_depth:
                raise AnalysisError('%s: inlining bound exceeded' % ctors[0].loc)
            env = {}
            for (pn, pt), v in zip(ctors[0].params, args):
                it = int_type(pt)
                env[pn] = wrap(v, *it) if (it and isinstance(v, int)) else v
                env['\x00ty:' + pn] = it
            self._block(ctors[0].body, env, obj, depth + 1)
            return obj
        if len(flds) == len(args):
            out = {}
            for (n, t, _n), v in zip(flds, args):
                it = int_type(t)
                out[n] = wrap(v, *it) if (it and isinstance(v, int)) else v
            return Obj(out, ty=q)
        return None

    def _block(self, block, env, this, depth):
        for s in block:
            k, a = s.k, s.a
            if k == 'decl':
                v = self.eval(a[2], env, this, depth) if a[2] is not None else None
                it = int_type(a[1])
                env[a[0]] = wrap(v, *it) if (it and isinstance(v, int)) else v
                env['\x00ty:' + a[0]] = it
            elif k == 'assign':
                if a[0].k == 'field' and a[0].a[0].k == 'this' and isinstance(this, Obj) and a[2] == '=':
                    # member initialiser / member store while an object is being constructed
                    v = self.eval(a[1], env, this, depth)
                    it = int_type(a[0].ty)
                    this.fields[a[0].a[1]] = wrap(v, *it) if (it and isinstance(v, int)) else v
                    continue
                if a[0].k != 'var':
                    raise AnalysisError('%s: accessor body is not a pure expression function' % s.loc)
                v = self.eval(a[1], env, this, depth)
                if a[2] != '=':
                    cur = env.get(a[0].a[0])
                    if not (isinstance(cur, int) and isinstance(v, int)):
                        raise Unknown('compound assignment on non-integers at %s' % s.loc)
                    v = fold_binop(a[2][:-1], cur, v)
                    if v is None:
                        raise Unknown('cannot fold %s at %s' % (a[2], s.loc))
                it = env.get('\x00ty:' + a[0].a[0])
                env[a[0].a[0]] = wrap(v, *it) if (it and isinstance(v, int)) else v
            elif k == 'if':
                c = self.eval(a[0], env, this, depth)
                r = self._block(a[1] if c else a[2], env, this, depth)
                if r is not None:
                    return r
            elif k == 'return':
                return (self.eval(a[0], env, this, depth) if a[0] is not None else None,)
            elif k == 'expr':
                continue
            else:
                raise AnalysisError('%s: statement kind %s in a function expected to be loop-free' % (s.loc, k))
        return None

    # -- expressions ---------------------------------------------------------------
    def eval(self, e, env, this, depth=0):
        k, a = e.k, e.a
        if k == 'const':
            return a[0]
        if k == 'str':
            return a[0]
        if k == 'null':
            return None
        if k == 'this':
            return this
        if k == 'var':
            if a[0] in env:
                return env[a[0]]
            v = self.tu.global_value(a[0])
            if v is not None:
                return v
            raise Unknown('variable %s' % a[0])
        if k == 'field':
            b = self.eval(a[0], env, this, depth)
            if isinstance(b, Obj):
                if a[1] not in b.fields:
                    raise AnalysisError('%s: field %s is not part of the table entry' % (e.loc, a[1]))
                return b.fields[a[1]]
            raise Unknown('field %s of %r' % (a[1], b))
        if k == 'cast':
            v = self.eval(a[2], env, this, depth)
            return wrap(v, a[0], a[1]) if isinstance(v, int) else v
        if k == 'ptrcast':
            return self.eval(a[1], env, this, depth)
        if k == 'addr':
            return ('addr', a[0], env, this)
        if k == 'deref':
            inner = a[0]
            read_ty = None
            if inner.k == 'ptrcast':
                read_ty = _pointee(inner.a[0])
                inner = inner.a[1]
            if inner.k == 'addr':
                v = self.eval(inner.a[0], env, this, depth)
                field_ty = inner.a[0].ty
                if read_ty is not None:
                    rt, ft = int_type(read_ty), int_type(field_ty)
                    self.width_events.append((e.loc, read_ty, field_ty))
                    if rt and isinstance(v, int):
                        return wrap(v, *rt)
                return v
            p = self.eval(inner, env, this, depth)
            if isinstance(p, tuple) and p and p[0] == 'addr':
                return self.eval(p[1], p[2], p[3], depth)
            if isinstance(p, Obj):
                return p
            raise Unknown('dereference of %s' % show(inner))
        if k == 'un':
            v = self.eval(a[1], env, this, depth)
            op = a[0]
            if op == 'bool':
                return 1 if v else 0
            if op == '!':
                return 0 if v else 1
            if not isinstance(v, int):
                raise Unknown('unary %s on non-integer' % op)
            r = {'-': -v, '~': ~v}[op]
            it = int_type(e.ty)
            return wrap(r, *it) if it else r
        if k == 'bin':
            op = a[0]
            if op == '&&':
                l = self.eval(a[1], env, this, depth)
                return (1 if self.eval(a[2], env, this, depth) else 0) if l else 0
            if op == '||':
                l = self.eval(a[1], env, this, depth)
                return 1 if l else (1 if self.eval(a[2], env, this, depth) else 0)
            l = self.eval(a[1], env, this, depth)
            r = self.eval(a[2], env, this, depth)
            if op in ('==', '!=') and not (isinstance(l, int) and isinstance(r, int)):
                eq = (l is r) or (l == r)
                return int(eq if op == '==' else not eq)
            if not (isinstance(l, int) and isinstance(r, int)):
                raise Unknown('binary %s on non-integers' % op)
            v = fold_binop(op, l, r)
            if v is None:
                raise Unknown('cannot fold %s' % show(e))
            it = int_type(e.ty)
            return wrap(v, *it) if it else v
        if k == 'cond':
            c = self.eval(a[0], env, this, depth)
            return self.eval(a[1] if c else a[2], env, this, depth)
        if k == 'call':
            name = a[0]
            fs = self.tu.fns(name)
            if not fs:
                raise Unknown('external call %s' % name)
            args = [self.eval(x, env, this, depth) for x in a[2]]
            recv = self.eval(a[1], env, this, depth) if a[1] is not None else None
            same = [f for f in fs if len(f.params) == len(args)]
            return self.call((same or fs)[0], recv, args, depth + 1)
        if k == 'index':
            i = self.eval(a[1], env, this, depth)
            b = a[0]
            if b.k == 'var' and isinstance(i, int):
                try:
                    vals = self.tu.array_values(b.a[0])
                except AnalysisError:
                    vals = None
                if vals is not None:
                    if not (0 <= i < len(vals)):
                        raise Unknown('constant subscript %d outside %s' % (i, b.a[0]))
                    return vals[i]
            raise Unknown('subscript of %s' % show(b))
        if k == 'init':
            args = [self.eval(x, env, this, depth) for x in a[1]]
            obj = self.construct(a[0], args, depth)
            return obj if obj is not None else ('init', a[0], tuple(args))
        raise Unknown('expression kind %s: %s' % (k, show(e)))


def _pointee(ptr_ty):
    if ptr_ty is None:
        return None
    t = ptr_ty.strip()
    if t.endswith('*'):
        t = t[:-1].strip()
    if t.endswith('const'):
        t = t[:-5].strip()
    return t
