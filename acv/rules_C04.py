"""C04 - Python ZoneSpecifier and C++ extended processor agree (necessary clauses): the hand-translated helpers give the same
values when both sides are interpreted on families that put every compared quantity before / at / after its counterpart,
both implementations keep date tuples in the same normal form, and the reference does not depend on its two options."""
import ast

from .common import AnalysisError, Report
from . import cxx, py
from .gnf import (SymExec, Poly, compare_summaries, formula_str, poly_key_str, formula_atoms, valuations)
from .ir import walk_stmts, walk_expr, all_exprs, show
from .paths import path_of

META = {
    'explanation': 'E-SEQ, both sides interpreted (C++ typed through the real bodies incl. brokers, DateTuple operators and LocalDate '
                   'arithmetic; Python over its ast) and compared value for value (acv/rules_C04b.py): compareEraToYearMonth, '
                   'eraOverlapsInterval, getMostRecentPriorYear, compareTransitionToMatchFuzzy, expandDateTuple, createMatch on families '
                   'that place every compared quantity before / at / after the one it is compared with (UNTIL cells read through the '
                   'broker\'s own accessors); compareTransitionToMatch (1125 cases: '
                   'every pair of suffixes x every position of the w/s/u times), processActiveTransition (every status x prior x '
                   'flag) and the two look-ups (pools of 0..4 transitions, queries around every start); date-tuple normal form (C++ by interval analysis under C07-R1, Python through datetime arithmetic); '
                   'match-window pairing of the two init functions; typestate of the recycled prior slot; E-SEQ over the Python ast '
                   '(acv/pyeval.py) on objects of the module\'s own classes: the two active selectors on every sorted candidate list up to six '
                   'entries (the comparison with the match abstracted to its status), and finder + selector pipelines for both candidate '
                   'finders on every policy of one or two rules over the years 2000..2003 plus the anchor rule of year 0, and twenty match '
                   'intervals; createAbbreviation against _calc_abbrev on every FORMAT kind x DST shift x LETTER (R7); the reference interpreted in full on '
                   'model zones under all eight option combinations (R10) and ExtendedZoneProcessor interpreted in full on the tables the '
                   'interpreted compiler renders for the same zones, against the reference, at the hours around every New Year and every '
                   'transition of 2003..2007 (R11; acv/rules_C04c.py); the same two interpreters on shipped data: the extended processor on the shipped '
                   'zonedbx tables of a sample of zones against the reference on the recorded lines of the same entries, recompiled (R12).',
    'decided': 'the listed helper pairs return the same value (result and field effects) on every member of their stated input family; '
               'both look-up loops keep the last transition whose start <= query; both sides canonicalise date tuples to '
               '0 <= time-of-day < 24h; both sides use the 14-month window around the cache-key year; the reserved prior slot is '
               'cleared before use; on the stated abstract families the Python result does not depend on the selector or on the finder; '
               'both sides produce the same abbreviation for every FORMAT kind, DST shift and LETTER; on the model zones the reference does not depend '
               'on any of its three options and the extended processor reports the reference\'s offset, DST offset and abbreviation at every instant of the family',
    'not_decided': 'equality of the two complete algorithms on real zone data at every instant (decided on ten model zones and on the shipped zones at the stated '
                   'instants only); option independence outside the abstract families and the model zones.',
    'assumptions': ['clang 14 parser', 'CPython ast', 'date tuples with equal suffix are totally ordered scalars (both sides compare '
                    'the tuple matching the suffix of the match bound)', 'suffix values are exactly w/s/u (C12-R3 + transformer filter)',
                    'UNTIL time of an era is non-negative (unsigned in C++)'],
}

XP = 'ace_time::ExtendedZoneProcessor::'
ZS = 'tools/zonedb/zone_specifier.py'
ACCESSORS = {'untilYearTiny': 'untilYear', 'untilMonth': 'untilMonth', 'untilDay': 'untilDay', 'untilTimeMinutes': 'untilTime',
             'untilTimeSuffix': 'untilSuffix'}
CMP_CALLS = {'ace_time::extended::operator<': '<', 'ace_time::extended::operator>': '>', 'ace_time::extended::operator<=': '<=',
             'ace_time::extended::operator>=': '>=', 'ace_time::extended::operator==': '=='}
SUFFIX = {'w': 'kSuffixW', 's': 'kSuffixS', 'u': 'kSuffixU'}


def _P(k):
    return Poly(dict(k))


def _atom(p):
    if len(p.t) == 1:
        (k, v), = p.t.items()
        if len(k) == 1 and v == 1:
            return k[0]
    return None


def suffix_values(lib):
    return {k: lib.const('ace_time::extended::ZoneContext::' + v) for k, v in SUFFIX.items()}


def effects_final(eff, rename=None):
    """last value written per target; targets renamed through `rename`."""
    out = {}
    for t, v in eff:
        if t == 'call':
            continue
        if rename:
            for a, b in rename:
                if t == a or t.startswith(a + '.'):
                    t = b + t[len(a):]
        out[t] = v
    return out


def run(cfg):
    R = Report('C04', cfg)
    lib = cxx.load_lib(cfg)
    zs = py.load(cfg, ZS)
    R.analysed['translation_units'] = ['tu/lib.cpp']
    R.analysed['python_modules'] = [ZS]
    R.rule('R1', 'hand-translated helper pairs give the same value on both sides for every member of their input family (both sides interpreted)', floor=8)
    R.rule('R1-loop', 'the look-ups of both sides return the last transition whose start <= query on every abstract pool (interpreted)', floor=2)
    R.rule('R2', 'both implementations canonicalise date tuples to 0 <= time of day < 24h', floor=2)
    sv = suffix_values(lib)
    from . import rules_C04b
    rules_C04b.helper_pairs(R, lib, zs, sv)
    process_pair(R, lib, zs, sv)
    transition_match_pair(R, lib, zs, sv)
    loop_rules(R, lib, zs)
    normal_form_rules(R, lib, zs)
    window_rule(R, lib, zs)
    reserved_slot_rule(R, lib)
    selector_rule(R, zs)
    finder_rule(R, zs)
    from . import rules_C04b as _c04b
    _c04b.abbrev_pair(R, lib, zs)
    pool_rules(R, lib, zs)
    from . import rules_C04c
    rules_C04c.run_rules(R, cfg, lib, zs)
    return R


# -- option independence: the two active selectors -------------------------------------------------------------------------

def selector_rule(R, zs):
    """ActiveSelectorBasic and ActiveSelectorInPlace are two implementations of one interface
    (select_active_transitions).  Both are interpreted (E-SEQ, acv/aeval.py) on every abstract candidate list of the family
    their caller establishes - sorted by transition time (_check_transitions_sorted runs just before), pairwise distinct
    times, so the comparison against the match is non-decreasing along the list and at most one candidate sits exactly on
    the match start, and at least one candidate at or before the match start (the anchor rule) - up to six candidates.
    _compare_transition_to_match is abstracted to the status it returns (its own agreement with C++ is rule R1), date
    tuples to ranks.  The selected transitions (by origin) and their final transition times must coincide."""
    from .aeval import AEval, AObj, Raised
    import itertools
    R.rule('R5', 'ActiveSelectorBasic and ActiveSelectorInPlace select the same transitions with the same times on every sorted candidate list', floor=100)
    START = 1000

    def intr_compare(ev, recv, args):
        return args[0].attrs['status']

    def intr_cmp_tuple(ev, recv, args):
        return (args[0] > args[1]) - (args[0] < args[1])
    intr = {'_compare_transition_to_match': intr_compare, '_compare_date_tuple': intr_cmp_tuple,
            'logging.info': lambda ev, r, a: None, 'info': lambda ev, r, a: None}
    # the caller's precondition is part of the rule: it must still be established right before the selection
    caller = zs.fn('ZoneSpecifier._find_transitions_from_named_match')
    order = []
    for s in walk_stmts(caller.body):
        for e in all_exprs([s]):
            if e.k == 'call' and e.a[0].endswith('_check_transitions_sorted'):
                order.append(('sorted', s.loc))
            elif e.k == 'call' and e.a[0].endswith('select_active_transitions'):
                order.append(('select', s.loc))
    c0 = 'ZoneSpecifier._find_transitions_from_named_match:sorted-before-select'
    R.instance('R5', c0, caller.loc)
    sel = [i for i, (k, _l) in enumerate(order) if k == 'select']
    if not sel or not any(k == 'sorted' for k, _l in order[:sel[0]]):
        R.violation('R5', c0, caller.loc, 'the candidate list is no longer checked to be sorted before select_active_transitions(): the family of inputs '
                    'the two selectors are compared on is not the family they receive')
        return

    from .pyeval import PyEval, PObj, Raised as PRaised
    ok_, slots = PyEval(R.cfg).class_attr(zs, 'Transition', '__slots__')
    if not ok_ or not {'startEpochSecond', 'abbrev', 'transitionTime', 'isActive'} <= set(slots):
        raise AnalysisError('anchor vanished: Transition.__slots__ of %s' % zs.rel)

    def run(cls, statuses):
        items = []
        lo, mid, hi = 0, START, 2 * START
        for i, st in enumerate(statuses):
            if st < 0:
                lo += 1
                t = lo
            elif st == 0:
                t = START
            elif st == 1:
                mid += 1
                t = mid
            else:
                hi += 1
                t = hi
            # every declared field exists (copy() walks __slots__); two fields the selectors do not touch carry the status and the tag
            a_ = {s_: None for s_ in slots}
            a_.update({'startEpochSecond': st, 'transitionTime': t, 'abbrev': 't%d' % i})
            items.append(PObj(zs, 'Transition', a_))
        match = PObj(zs, 'ZoneMatch', {'startDateTime': START})
        ev = PyEval(R.cfg, max_steps=200000)
        # the comparison against the match is abstracted to the status it returns, date tuples to ranks
        ev._modenv[(zs.rel, '_compare_transition_to_match')] = lambda tr_, m_: tr_.attrs['startEpochSecond']
        ev._modenv[(zs.rel, '_compare_date_tuple')] = lambda a_, b_: (a_ > b_) - (a_ < b_)
        try:
            out = ev.call(zs, cls + '.select_active_transitions', [list(items), match], recv=PObj(zs, cls, {'debug': False}))
        except PRaised as r:
            return ('raise', r.what[:60])
        if not isinstance(out, list):
            return ('?', repr(out))
        return ('ok', tuple(sorted((o.attrs.get('abbrev'), o.attrs['transitionTime']) for o in out)))

    n = 0
    diffs = []
    for length in range(1, 7):
        for statuses in itertools.combinations_with_replacement((-1, 0, 1, 2), length):
            if statuses.count(0) > 1 or (statuses.count(-1) + statuses.count(0)) == 0:
                continue
            n += 1
            a = run('ActiveSelectorBasic', statuses)
            b = run('ActiveSelectorInPlace', statuses)
            R.instance('R5', 'ActiveSelectorBasic~ActiveSelectorInPlace', zs.fn('ActiveSelectorBasic.select_active_transitions').loc)
            if a != b:
                diffs.append((statuses, a, b))
    R.note('selector equivalence: %d abstract candidate lists compared' % n)
    if diffs:
        st, a, b = diffs[0]
        R.violation('R5', 'ActiveSelectorBasic~ActiveSelectorInPlace', zs.fn('ActiveSelectorBasic.select_active_transitions').loc,
                    'candidates with match statuses %s (sorted by time; status -1 before the match, 0 on its start, 1 inside, 2 after): the basic selector '
                    'gives %s, the in-place selector %s  [(candidate, final transition time); %d = match start]; %d of %d lists differ: the result '
                    'depends on the in_place_transitions option' % (list(st), _fmt_sel(a), _fmt_sel(b), START, len(diffs), n))


def finder_rule(R, zs):
    """CandidateFinderBasic and CandidateFinderOptimized feed the same selector: the transitions finally selected must not
    depend on which finder produced the candidates.  Both pipelines (finder, then ActiveSelectorInPlace) are interpreted
    through their IR on a family of small policies (one or two recurring rules, FROM/TO years 0..3, months 3/10, wall-clock
    suffix) and of match intervals clipped the way init_for_year clips them around year 2.  Only the calendar resolution
    of a rule's day (calc_day_of_month, decided by C18) and the Transition constructor are abstracted."""
    import itertools
    thorough = R.cfg.tier == 'thorough'
    R.rule('R6', 'CandidateFinderBasic and CandidateFinderOptimized lead to the same selected transitions on every small policy and match interval', floor=500)
    from .pyeval import PyEval, PObj, Raised as PRaised
    BASE = 2000
    years = range(0, 4)
    months = (3, 10) if not thorough else (1, 2, 3, 10, 11, 12)
    shapes = [(f, t, m) for f in years for t in years if f <= t for m in months]
    ANCHOR = (-BASE, -BASE, 1)          # the anchor rule the compiler adds: year 0, January 1
    rules1 = [(s,) for s in shapes] + [(ANCHOR,)]
    rules2 = [p for p in itertools.combinations(shapes, 2) if p[0][2] != p[1][2]] + [(ANCHOR, s) for s in shapes] + [(s, ANCHOR) for s in shapes if s[0] >= 2]
    starts = [(1, 12, 1), (2, 1, 1), (2, 3, 1), (2, 3, 10), (2, 10, 1)]
    untils = [(2, 3, 1), (2, 3, 10), (2, 10, 1), (3, 1, 1), (3, 2, 1)]
    matches = [(s, u) for s in starts for u in untils if s < u]
    loc = zs.fn('CandidateFinderOptimized.find_candidate_transitions').loc
    pev = PyEval(R.cfg, max_steps=400000000)
    dt_cls = pev.global_name(zs, 'DateTuple', loc)

    def DT(y, M, d):
        return pev.apply(dt_cls, [BASE + y, M, d, 0, 'w'], {})

    def pipeline(cls, pol, mt):
        try:
            rules = [pev.instantiate(zs, 'ZoneRuleCooked', [{'fromYear': BASE + f, 'toYear': BASE + t, 'inMonth': m, 'onDayOfWeek': 0, 'onDayOfMonth': 1, 'atSeconds': 0,
                                                             'atTimeSuffix': 'w', 'deltaSeconds': 3600 if i == 0 else 0, 'letter': 'D' if i == 0 else 'S'}])
                     for i, (f, t, m) in enumerate(pol)]
            match = pev.instantiate(zs, 'ZoneMatch', [{'startDateTime': DT(*mt[0]), 'untilDateTime': DT(*mt[1]), 'zoneEra': None}])
            cands = pev.call(zs, cls + '.find_candidate_transitions', [match, rules], recv=pev.instantiate(zs, cls, [False]))
            out = pev.call(zs, 'ActiveSelectorInPlace.select_active_transitions', [cands, match], recv=pev.instantiate(zs, 'ActiveSelectorInPlace', [False]))
        except PRaised as r:
            return ('raise', r.what[:60])
        res = []
        for o in out:
            ri = [k for k, r_ in enumerate(rules) if r_ is o.attrs.get('zoneRule')]
            tt = o.attrs.get('transitionTime')
            ot = o.attrs.get('originalTransitionTime')
            res.append(('r%s@%s' % (ri[0] if ri else '?', (ot or tt)[0] - BASE), (tt[0] - BASE, tt[1], tt[2])))
        return ('ok', tuple(sorted(res)))
    n = 0
    diffs = []
    for pol in rules1 + rules2:
        for mt in matches:
            n += 1
            a = pipeline('CandidateFinderBasic', pol, mt)
            b = pipeline('CandidateFinderOptimized', pol, mt)
            if a != b:
                diffs.append((pol, mt, a, b))
    R.instance('R6', 'CandidateFinderBasic~CandidateFinderOptimized', loc, '%d (policy, match) pairs' % n, n=n)
    R.note('finder equivalence: %d (policy, match) pairs interpreted through both pipelines' % n)
    if diffs:
        pol, mt, a, b = diffs[0]
        R.violation('R6', 'CandidateFinderBasic~CandidateFinderOptimized', loc,
                    'policy %s (FROM, TO, month) with match [%s, %s): the basic finder leads to %s, the optimized finder to %s; %d of %d cases differ: '
                    'the result depends on the optimize_candidates option' % (list(pol), mt[0], mt[1], _fmt_sel(a), _fmt_sel(b), len(diffs), n))


def pool_rules(R, lib, zs, full=False):
    """The candidate pool of the C++ TransitionStorage and the Python list of candidates are filled by sibling insertion
    routines (addFreeAgentToCandidatePool / _add_transition_sorted) and the C++ pool is compacted in place by
    addActiveCandidatesToActivePool.  Their IR is interpreted (E-SEQ) on every abstract pool of a small family: transition
    times are ranks out of {0, 1, 2} (so ties occur), the candidate section holds up to four sorted entries, the active and
    prior sections in front of it up to two.  Insertion: both sides must produce the same order of candidates (ties
    included), the C++ side must leave the other sections and the array as a permutation of the same objects.  Compaction:
    the active candidates, in their order, directly behind the active section; all three indexes behind them; the array
    still a permutation (the pool recycles these objects)."""
    from .aeval import AEval, AObj, Raised, CxxModule
    import itertools
    R.rule('R9', 'candidate-pool insertion agrees between C++ and Python on every small sorted pool; in-place compaction keeps order and objects', floor=300)
    TS = 'ace_time::extended::TransitionStorage::'
    cmod = CxxModule(lib, [TS])
    ins = TS + 'addFreeAgentToCandidatePool'
    comp = TS + 'addActiveCandidatesToActivePool'
    if ins not in cmod.funcs or comp not in cmod.funcs:
        raise AnalysisError('anchor vanished: TransitionStorage::addFreeAgentToCandidatePool / addActiveCandidatesToActivePool')
    size = None
    for n_, t_, _x in lib.fields('ace_time::extended::TransitionStorage'):
        if n_ == 'mTransitions' and '[' in (t_ or ''):
            size = int(t_[t_.index('[') + 1:t_.index(']')])
    if not size:
        raise AnalysisError('TransitionStorage::mTransitions: array size not found')
    cops = {'ace_time::extended::operator<': lambda ev, r, a: a[0] < a[1], 'ace_time::extended::operator>': lambda ev, r, a: a[0] > a[1],
            'ace_time::extended::operator<=': lambda ev, r, a: a[0] <= a[1], 'ace_time::extended::operator>=': lambda ev, r, a: a[0] >= a[1],
            'ace_time::extended::operator==': lambda ev, r, a: a[0] == a[1], 'ace_time::logging::printf': lambda ev, r, a: None}
    from .pyeval import PyEval, PObj, Raised as PRaised
    pev = PyEval(R.cfg, max_steps=2000000)
    DT_ = pev.global_name(zs, 'DateTuple', 'tools/zonedb/zone_specifier.py')

    def mk_pool(front, cands, agent, prior_slot):
        objs = []
        for i in range(size):
            objs.append(AObj({'transitionTime': 9, 'active': False}, oid='free%d' % i, cls='Transition'))
        k = 0
        for j in range(front):
            objs[k] = AObj({'transitionTime': -1, 'active': True}, oid='act%d' % j, cls='Transition')
            k += 1
        ip = k
        if prior_slot:
            objs[k] = AObj({'transitionTime': -1, 'active': False}, oid='prior', cls='Transition')
            k += 1
        ic = k
        for j, (t, act) in enumerate(cands):
            objs[k] = AObj({'transitionTime': t, 'active': act}, oid='c%d' % j, cls='Transition')
            k += 1
        if agent is not None:
            objs[k] = AObj({'transitionTime': agent, 'active': False}, oid='new', cls='Transition')
        return AObj({'mTransitions': objs, 'mIndexPrior': ip, 'mIndexCandidates': ic, 'mIndexFree': k, 'mHighWater': 0}, oid='pool'), [o.oid for o in objs]

    n = 0
    first = None
    nbad = 0
    loc_c = cmod.funcs[ins].loc
    # the Python helper that puts a transition into a list kept sorted by time: by its name, else the one module-level function whose
    # name says "transition" and "sorted" (it is private to the module and may be renamed; it may return the list instead of changing it)
    pname = '_add_transition_sorted'
    if pname not in zs.funcs:
        alt = [q_ for q_, f_ in zs.funcs.items() if '.' not in q_ and 'transition' in q_ and 'sorted' in q_ and len(f_.params) == 2]
        if len(alt) != 1:
            raise AnalysisError('anchor vanished: no function _add_transition_sorted in tools/zonedb/zone_specifier.py (candidates: %s)' % alt)
        pname = alt[0]
    pf = zs.fn(pname)
    for front in (0, 1, 2):
        for prior_slot in (False, True):
            for length in range(0, 5):
                if front + (1 if prior_slot else 0) + length + 1 > size:
                    continue
                for times in itertools.combinations_with_replacement((0, 1, 2), length):
                    for agent in (0, 1, 2):
                        n += 1
                        R.instance('R9', 'addFreeAgentToCandidatePool~_add_transition_sorted', loc_c)
                        pool, before = mk_pool(front, [(t, False) for t in times], agent, prior_slot)
                        try:
                            AEval(module=cmod, intrinsics=cops).call_function(ins, [], recv=pool)
                            a = pool.attrs
                            got_c = [o.oid for o in a['mTransitions'][a['mIndexCandidates']:a['mIndexFree']]]
                            rest_ok = (sorted(o.oid for o in a['mTransitions']) == sorted(before)
                                       and [o.oid for o in a['mTransitions'][:a['mIndexCandidates']]] == before[:a['mIndexCandidates']]
                                       and a['mIndexFree'] == front + (1 if prior_slot else 0) + length + 1 and a['mIndexPrior'] == front)
                        except Raised as r_:
                            got_c, rest_ok = ['raise:' + r_.what[:40]], True
                        # the Python side, interpreted over its ast on objects of the module's own Transition class whose times are date
                        # tuples one day apart per rank
                        lst = [PObj(zs, 'Transition', {'transitionTime': pev.apply(DT_, [], dict(y=2000, M=1, d=1 + t, ss=0, f='w')), 'oid': 'c%d' % j}) for j, t in enumerate(times)]
                        new = PObj(zs, 'Transition', {'transitionTime': pev.apply(DT_, [], dict(y=2000, M=1, d=1 + agent, ss=0, f='w')), 'oid': 'new'})
                        try:
                            pev.steps = 0
                            ret_ = pev.call(zs, pname, [lst, new])
                            got_p = [o.attrs['oid'] for o in (ret_ if isinstance(ret_, list) else lst)]
                        except PRaised as r_:
                            got_p = ['raise:' + str(r_.what)[:40]]
                        if got_c != got_p or not rest_ok:
                            nbad += 1
                            if first is None:
                                first = (times, agent, got_c, got_p, rest_ok)
    if first is not None:
        times, agent, got_c, got_p, rest_ok = first
        if not rest_ok:
            R.violation('R9', 'addFreeAgentToCandidatePool~_add_transition_sorted', loc_c, 'inserting a candidate with time rank %d into candidates with ranks %s disturbs '
                        'the other sections of the pool or loses an object (%d of %d pools)' % (agent, list(times), nbad, n))
        else:
            R.violation('R9', 'addFreeAgentToCandidatePool~_add_transition_sorted', loc_c, 'candidates with time ranks %s, new candidate with rank %d: C++ orders them %s, '
                        'Python %s (%d of %d pools differ): the two sides pick different "latest prior" transitions when two rules fire at the same time'
                        % (list(times), agent, got_c, got_p, nbad, n))
    # compaction
    first = None
    m = 0
    loc_k = cmod.funcs[comp].loc
    for front in (0, 1, 2):
        for prior_slot in (False, True):
            for length in range(0, 6):
                if front + (1 if prior_slot else 0) + length > size:
                    continue
                for flags in itertools.product((False, True), repeat=length):
                    m += 1
                    R.instance('R9', 'addActiveCandidatesToActivePool', loc_k)
                    pool, before = mk_pool(front, [(j, f_) for j, f_ in enumerate(flags)], None, prior_slot)
                    AEval(module=cmod, intrinsics=cops).call_function(comp, [], recv=pool)
                    a = pool.attrs
                    want = ['act%d' % j for j in range(front)] + ['c%d' % j for j, f_ in enumerate(flags) if f_]
                    ok = ([o.oid for o in a['mTransitions'][:len(want)]] == want and a['mIndexPrior'] == a['mIndexCandidates'] == a['mIndexFree'] == len(want)
                          and sorted(o.oid for o in a['mTransitions']) == sorted(before))
                    if not ok and first is None:
                        first = (front, prior_slot, flags, [o.oid for o in a['mTransitions'][:front + length + 1]], (a['mIndexPrior'], a['mIndexCandidates'], a['mIndexFree']))
    if first is not None:
        front, prior_slot, flags, got, idx = first
        R.violation('R9', 'addActiveCandidatesToActivePool', loc_k, '%d active transitions%s, candidates with active flags %s: the pool becomes %s with indexes %s; expected the '
                    'active candidates in their order directly behind the active section, the three indexes behind them and no object lost or duplicated'
                    % (front, ' + a prior slot' if prior_slot else '', list(flags), got, idx))
    if full:
        # pools with no free slot left (asked for by C09: the capacity of the array): the insertion must not touch
        # mTransitions[SIZE]; the compaction of a full candidate section must stay inside the array as well
        for front in (0, 1, 2):
            for prior_slot in (False, True):
                length = size - front - (1 if prior_slot else 0)
                for what, fn_ in (('insert', ins), ('compact', comp)):
                    for flags in (itertools.product((False, True), repeat=length) if what == 'compact' else [tuple([False] * length)]):
                        pool, before = mk_pool(front, [(j % 3, f_) for j, f_ in enumerate(flags)], None, prior_slot)
                        try:
                            AEval(module=cmod, intrinsics=cops).call_function(fn_, [], recv=pool)
                        except IndexError:
                            R.violation('R9', fn_.split('::')[-1] + ':full-pool', cmod.funcs[fn_].loc, 'on a pool whose %d slots are all taken (%d active%s, %d candidates) the '
                                        'operation touches a slot outside the array' % (size, front, ', a prior' if prior_slot else '', length))
                            break
    R.note('pool operations: %d insertions, %d compactions interpreted' % (n, m))


def effects_final(eff):
    out = {}
    for t, v in eff:
        if t != 'call':
            out[t] = v
    return out


def start_until_rule(R, lib, zs):
    """The loop bodies of generateStartUntilTimes (C++) and _generate_start_until_times (Python) are loop-free; their
    per-iteration effects are summarised (E-GNF) and checked against one signature, which is what makes the two agree:
      start time of the current transition = transition time - (prev offset + prev delta) + (current offset + current delta);
      start epoch seconds = epoch seconds of the start date + start time - (current offset + current delta)  [C++: x60];
      the previous transition's until time is the current transition time, from the second iteration on;
      the transition becomes `prev` for the next iteration."""
    R.rule('R8', 'start/until generation: per-iteration effects have the same linear signature on both sides', floor=10)

    def lin(p):
        l = p.linear_in()
        if l is None:
            return None
        return {repr(Poly.atom(a)): c for a, c in l[0].items()}, l[1]

    def fn_atoms_in(p, suffix, out=None, depth=0):
        out = [] if out is None else out
        if depth > 12:
            return out
        for a in p.atoms():
            if a[0] in ('fn', 'init'):
                if a[0] == 'fn' and a[1].endswith(suffix):
                    out.append(a)
                for x in a[2]:
                    if isinstance(x, tuple) and x and x[0] == 'kw':
                        fn_atoms_in(_P(x[2]), suffix, out, depth + 1)
                    elif isinstance(x, tuple):
                        fn_atoms_in(_P(x), suffix, out, depth + 1)
        return out

    def guard_set_in_loop(g, lp):
        """The write of prev.untilDateTime may be guarded by a flag; the flag must then be raised by the loop body
        (otherwise the write never happens).  Other guard shapes are not judged."""
        if g == ('true',):
            return []
        if g[0] == 'bool':
            a = _atom(_P(g[1]))
            if a and a[0] == 'sym':
                sets = [s for s in lp.a[4] if s.k == 'assign' and s.a[0].k == 'var' and s.a[0].a[0] == a[1]
                        and s.a[1].k == 'const' and s.a[1].a[0]]
                if not sets:
                    return ['prev.untilDateTime is written only when %s is set, and the loop never sets it' % a[1]]
            return []
        if g[0] == 'not' and g[1][0] == 'bool':
            return ['prev.untilDateTime is written only while %s is false' % formula_str(g[1])]
        R.undecided_obligation('R8', 'untilDateTime-guard', lp.loc, 'guard of the untilDateTime write is not a flag: %s' % formula_str(g))
        return []

    def expand_uses(fobj, stmts, who, construct):
        R.instance('R8', construct, fobj.loc)
        ok = False
        for ex in all_exprs(stmts):
            if ex.k == 'call' and ex.a[0].lower().replace('_', '').endswith('expanddatetuple'):
                argtxt = [path_of(x) or show(x) for x in ex.a[2]][-2:]
                ok = (len(argtxt) == 2 and argtxt[0].split('.')[0] == who and 'offset' in argtxt[0].lower()
                      and argtxt[1].split('.')[0] == who and 'delta' in argtxt[1].lower())
        if not ok:
            R.violation('R8', construct, fobj.loc, 'the date tuple is not expanded with the offset and delta of `%s`' % who)

    # ---- C++
    cf = lib.fn(XP + 'generateStartUntilTimes')
    loops = loops_c = [s for s in cf.body if s.k == 'loop']
    cc = 'generateStartUntilTimes:iteration'
    R.instance('R8', cc, cf.loc)
    if len(loops) != 1:
        R.violation('R8', cc, cf.loc, 'expected one loop over the transitions')
    else:
        lp = loops[0]
        sx = SymExec(fold_global=lib.global_value)
        summ = sx.run(cf.name, lp.a[4], {})
        cur = None
        base = 'iter'
        for s in lp.a[4]:
            if s.k == 'decl' and s.a[2] is not None and s.a[2].k == 'deref':
                cur = s.a[0]
                base = path_of(s.a[2]) or base
        alias = '%s.startDateTime' % base
        for s in lp.a[4]:
            if s.k == 'decl' and s.a[2] is not None and (path_of(s.a[2]) or '').endswith('.startDateTime'):
                alias = s.a[0]
        want_start = {"%s.transitionTime.minutes" % base: 1, 'prev.offsetMinutes': -1, 'prev.deltaMinutes': -1,
                      '%s.offsetMinutes' % base: 1, '%s.deltaMinutes' % base: 1}
        problems = []
        until_paths = 0
        for g, kind, res, eff in summ.paths:
            e = effects_final(eff)
            st = e.get('%s.startDateTime' % base)
            a = _atom(_P(st)) if st is not None else None
            if a is None or a[0] != 'init' or len(a[2]) != 5:
                problems.append('startDateTime is not built from five components')
                continue
            l = lin(_P(a[2][3]))
            if l is None or l[1] != 0 or l[0] != want_start:
                problems.append('start minutes are %r, expected tt.minutes - prev.offset - prev.delta + t.offset + t.delta' % _P(a[2][3]))
            ep = e.get('%s.startEpochSeconds' % base)
            l = lin(_P(ep)) if ep is not None else None
            if l is None:
                problems.append('startEpochSeconds is not a linear form')
            else:
                rest = {k: v for k, v in l[0].items() if 'toEpochSeconds' not in k}
                eps = [k for k in l[0] if 'toEpochSeconds' in k]
                want_ep = {'%s.minutes' % alias: 60, '%s.offsetMinutes' % base: -60, '%s.deltaMinutes' % base: -60}
                if len(eps) != 1 or l[0][eps[0]] != 1 or rest != want_ep or l[1] != 0 \
                        or not all('%s.%s' % (alias, f_) in eps[0] for f_ in ('yearTiny', 'month', 'day')):
                    problems.append('startEpochSeconds is %r, expected toEpochSeconds(start date) + 60 * (start minutes - t.offset - t.delta)' % _P(ep))
            if 'prev.untilDateTime' in e:
                until_paths += 1
                if _P(e['prev.untilDateTime']) != Poly.atom(('sym', '%s.transitionTime' % base)):
                    problems.append('prev.untilDateTime is set to %r, not to the transition time of the current transition' % _P(e['prev.untilDateTime']))
                problems.extend(guard_set_in_loop(g, lp))
            norm = [i for i, (t_, v) in enumerate(eff)
                    if t_ == 'call' and any(x[0] == 'fn' and x[1].endswith('normalizeDateTuple') for x in _P(v).atoms())]
            i_st = [i for i, (t_, v) in enumerate(eff) if t_ == '%s.startDateTime' % base]
            i_ep = [i for i, (t_, v) in enumerate(eff) if t_ == '%s.startEpochSeconds' % base]
            if not (norm and i_st and i_ep and i_st[-1] < norm[0] < i_ep[0]):
                problems.append('startDateTime is not normalised between its assignment and the computation of startEpochSeconds')
        if until_paths == 0:
            problems.append('no path writes prev.untilDateTime')
        if problems:
            R.violation('R8', cc, lp.loc, '; '.join(sorted(set(problems))))
        nxt = [s for s in lp.a[4] if s.k == 'assign' and s.a[0].k == 'var' and s.a[0].a[0] == 'prev']
        R.instance('R8', 'generateStartUntilTimes:prev-advances', lp.loc)
        if not (nxt and path_of(nxt[-1].a[1]) == cur):
            R.violation('R8', 'generateStartUntilTimes:prev-advances', lp.loc, 'the loop does not end with prev = <current transition>')
    # ---- Python
    pf = zs.fn('ZoneSpecifier._generate_start_until_times')
    pc = 'ZoneSpecifier._generate_start_until_times:iteration'
    R.instance('R8', pc, pf.loc)
    loops = [s for s in pf.body if s.k == 'loop']
    if len(loops) != 1:
        R.violation('R8', pc, pf.loc, 'expected one loop over the transitions')
        return
    lp = loops[0]
    var = lp.a[1][0].a[0].a[0] if lp.a[1] and lp.a[1][0].a[0].k == 'var' else 'transition'
    summ = SymExec(lang='py').run(pf.name, lp.a[4], {})
    want_start = {'%s.transitionTime.ss' % var: 1, 'prev.offsetSeconds': -1, 'prev.deltaSeconds': -1, '%s.offsetSeconds' % var: 1, '%s.deltaSeconds' % var: 1}
    problems = []
    until_paths = 0
    for g, kind, res, eff in summ.paths:
        e = effects_final(eff)
        st = e.get('%s.startDateTime' % var)
        if st is None:
            problems.append('startDateTime is not assigned')
            continue
        ep = e.get('%s.startEpochSecond' % var)
        tzs = fn_atoms_in(_P(ep), 'timezone') if ep is not None else []
        inner = set()
        for a in tzs:
            inner.update(fn_atoms_in(Poly.atom(a), 'timedelta'))
        tds = [a for a in (fn_atoms_in(_P(ep), 'timedelta') if ep is not None else []) if a not in inner]
        secs = None
        for a in tds:
            for x in a[2]:
                if isinstance(x, tuple) and x and x[0] == 'kw' and x[1] == 'seconds':
                    secs = _P(x[2])
        l = lin(secs) if secs is not None else None
        if l is None or l[1] != 0 or l[0] != want_start:
            problems.append('the shift applied to the transition time is %r, expected tt.ss - prev.offset - prev.delta + t.offset + t.delta' % secs)
        sta = _atom(_P(st))
        if not (sta and sta[0] == 'fn' and sta[1].endswith('DateTuple')
                and {x[1] for x in sta[2] if isinstance(x, tuple) and x and x[0] == 'kw'} == {'y', 'M', 'd', 'ss', 'f'}
                and all(repr(_P(x[2])).count('st.') >= 1 for x in sta[2] if x[1] != 'f')):
            problems.append('startDateTime is not the date tuple of the shifted time')
        off = None
        for a in tzs:
            for b in fn_atoms_in(Poly.atom(a), 'timedelta'):
                for x in b[2]:
                    if isinstance(x, tuple) and x and x[0] == 'kw' and x[1] == 'seconds':
                        off = _P(x[2])
        l = lin(off) if off is not None else None
        if l is None or l[1] != 0 or l[0] != {'%s.offsetSeconds' % var: 1, '%s.deltaSeconds' % var: 1}:
            problems.append('the start instant is taken in the offset %r, expected the current transition\'s offset + delta' % off)
        if 'prev.untilDateTime' in e:
            until_paths += 1
            if _P(e['prev.untilDateTime']) != Poly.atom(('sym', '%s.transitionTime' % var)):
                problems.append('prev.untilDateTime is set to %r, not to the transition time of the current transition' % _P(e['prev.untilDateTime']))
            problems.extend(guard_set_in_loop(g, lp))
    if until_paths == 0:
        problems.append('no path writes prev.untilDateTime')
    if problems:
        R.violation('R8', pc, lp.loc, '; '.join(sorted(set(problems))))
    nxt = [s for s in lp.a[4] if s.k == 'assign' and s.a[0].k == 'var' and s.a[0].a[0] == 'prev']
    R.instance('R8', 'ZoneSpecifier._generate_start_until_times:prev-advances', lp.loc)
    if not (nxt and path_of(nxt[-1].a[1]) == var):
        R.violation('R8', 'ZoneSpecifier._generate_start_until_times:prev-advances', lp.loc, 'the loop does not end with prev = <current transition>')
    # fix_transition_times on both sides: expand with the *previous* transition's offsets, then advance prev
    for side, fobj in (('C++', lib.fn(XP + 'fixTransitionTimes')), ('Python', zs.fn('ZoneSpecifier._fix_transition_times'))):
        name = 'fixTransitionTimes' if side == 'C++' else 'ZoneSpecifier._fix_transition_times'
        lps = [s for s in fobj.body if s.k == 'loop']
        if len(lps) != 1:
            R.instance('R8', name + ':previous-offsets', fobj.loc)
            R.violation('R8', name + ':previous-offsets', fobj.loc, 'expected one loop over the transitions')
            continue
        expand_uses(fobj, lps[0].a[4], 'prev', name + ':previous-offsets')
        adv = [s for s in lps[0].a[4] if s.k == 'assign' and s.a[0].k == 'var' and s.a[0].a[0] == 'prev']
        R.instance('R8', name + ':prev-advances', fobj.loc)
        if not adv or lps[0].a[4][-1] is not adv[-1]:
            R.violation('R8', name + ':prev-advances', fobj.loc, 'the loop does not end with prev = <current transition>')
    # the last transition's until time is expanded with that transition's own offsets
    tail = cf.body[cf.body.index(loops_c[0]) + 1:] if loops_c else []
    expand_uses(cf, tail, 'prev', 'generateStartUntilTimes:last-until')
    tail = pf.body[pf.body.index(lp) + 1:]
    expand_uses(pf, tail, var, 'ZoneSpecifier._generate_start_until_times:last-until')


def _fmt_sel(x):
    if x[0] != 'ok':
        return '%s(%s)' % x
    return '[' + ', '.join('%s@%s' % p for p in x[1]) + ']'


# -- recycled transition slots --------------------------------------------------------------------------------------------

def reserved_slot_rule(R, lib):
    """TransitionStorage::init() resets only the indices: a slot handed out by reservePrior() still holds the fields of an
    earlier query.  Its `active` flag is the "no prior yet" sentinel of the reference (prior = None), so it has to be
    cleared before anything reads it - directly or through getPrior()."""
    from .paths import Engine, Rule
    R.rule('R4', 'the slot returned by reservePrior() has its active flag cleared before it is read (directly or through getPrior())', floor=1)
    memo = {}

    def reads_prior(q, depth=0):
        if q in memo:
            return memo[q]
        memo[q] = False
        fs = lib.fns(q)
        if not fs or depth > 3:
            return False
        for e in all_exprs(fs[0].body):
            if e.k == 'call':
                if e.a[0].endswith('::getPrior') or reads_prior(e.a[0], depth + 1):
                    memo[q] = True
                    break
        return memo[q]

    sites = 0
    for q, fs in sorted(lib.funcs.items()):
        for f in fs[:1]:
            if not any(e.k == 'call' and e.a[0].endswith('::reservePrior') for e in all_exprs(f.body)):
                continue
            if q.endswith('::reservePrior'):
                continue
            sites += 1
            c = '%s:reservePrior' % f.name

            class SR(Rule):
                def initial(self_):
                    return [('none', None)]

                def assign(self_, s, st, tr):
                    if s.k == 'decl' and s.a[2] is not None:
                        v = s.a[2]
                        while v.k == 'cast':
                            v = v.a[2]
                        if v.k == 'call' and v.a[0].endswith('::reservePrior'):
                            return ('uninit', s.a[0])
                    if s.k == 'assign' and st[0] == 'uninit':
                        tgt = s.a[0]
                        if tgt.k == 'field' and tgt.a[1] == 'active' and path_of(tgt.a[0]) == st[1]:
                            v = s.a[1]
                            while v.k == 'cast':
                                v = v.a[2]
                            if v.k == 'const' and not v.a[0]:
                                return ('clear', st[1])
                            return ('set', st[1])
                    return st

                def event(self_, e, st, tr):
                    if st[0] != 'uninit':
                        return st
                    if e.k == 'field' and e.a[1] == 'active' and path_of(e.a[0]) == st[1]:
                        R.violation('R4', c, e.loc, 'reads %s->active of the slot taken with reservePrior() before it was cleared: the flag still '
                                    'holds whatever an earlier query left there, so a stale "prior found" admits a wrong prior transition' % st[1], detail=list(tr))
                        return ('reported', st[1])
                    if e.k == 'call' and reads_prior(e.a[0]):
                        R.violation('R4', c, e.loc, '%s() consults getPrior()->active, but the slot taken with reservePrior() has not been cleared on this path: '
                                    'whether a candidate replaces the prior then depends on the previous query' % e.a[0].split('::')[-1], detail=list(tr))
                        return ('reported', st[1])
                    return st

                def at_exit(self_, kind, stmt, st, tr):
                    R.instance('R4', c, stmt.loc if stmt is not None else f.loc, 'exit in state %s' % st[0])
            Engine(SR()).run(f.body)
    if not sites:
        raise AnalysisError('anchor vanished: no caller of TransitionStorage::reservePrior()')


# -- match window ------------------------------------------------------------------------------------------------------------

def window_rule(R, lib, zs):
    """ExtendedZoneProcessor::init keys its cache on the UTC year of the query but matches eras and transitions in local
    time, so it needs the 14-month window of the reference (previous December .. next January); both windows are read
    as (year offset, month) pairs relative to the cache key."""
    R.rule('R3', 'ExtendedZoneProcessor::init and ZoneSpecifier.init_for_year use the same match window [December before, February after) '
                 'around the cache-key year', floor=3)
    f = [x for x in lib.fns('ace_time::ExtendedZoneProcessor::init') if x.params and 'LocalDate' in (x.params[0][1] or '')][0]
    s = SymExec(fold_global=lib.global_value).run(f.name, f.body, {})
    epoch = lib.const('ace_time::LocalDate::kEpochYear')
    cwin = None
    key = None
    for g, kind, res, eff in s.paths:
        for n, v in eff:
            if n == 'this.mYear':
                key = _P(v)
        for n, v in eff:
            if n == 'call':
                continue
            for a in _P(v).atoms():
                if a[0] == 'fn' and a[1].endswith('::findMatches') and len(a[2]) >= 3:
                    tup = []
                    for k in (a[2][-4], a[2][-3]):
                        t = _atom(_P(k))
                        if t is None or t[0] != 'init' or len(t[2]) != 2:
                            tup = None
                            break
                        tup.append((_P(t[2][0]), _P(t[2][1])))
                    if tup:
                        cwin = tup
    c = 'ExtendedZoneProcessor::init~ZoneSpecifier.init_for_year:window'
    R.instance('R3', c, f.loc)
    if cwin is None or key is None:
        R.violation('R3', c, f.loc, 'init() does not pass two {year, month} tuples built from the cache-key year to findMatches()')
        return
    cw = []
    for y, m in cwin:
        d = y + Poly.const(epoch) - key
        if not (d.is_const() and m.is_const()):
            R.violation('R3', c, f.loc, 'window bound {%r, %r} is not (cache-key year + constant, constant month)' % (y, m))
            return
        cw.append((d.const_value(), m.const_value()))
    # Python: the arm of init_for_year selected by the default viewing_months
    pf = zs.fn('ZoneSpecifier.init_for_year')
    ctor = zs.fn('ZoneSpecifier.__init__')
    default = None
    args = ctor.node.args
    names = [a.arg for a in args.args]
    if 'viewing_months' in names:
        i = names.index('viewing_months') - (len(names) - len(args.defaults))
        if i >= 0 and isinstance(args.defaults[i], ast.Constant):
            default = args.defaults[i].value
    R.instance('R3', 'ZoneSpecifier.__init__:viewing_months', ctor.loc, 'default %r' % default)
    # the window the reference works with: ZoneSpecifier (built with its default arguments) is interpreted (E-SEQ over the
    # Python ast) on a zone of one unbounded era; the single match it finds is that era clipped to [start_ym, until_ym)
    from .pyeval import PyEval, Raised as PRaised
    pw = None
    YEAR = 2005
    era = {'offsetSeconds': 3600, 'zonePolicy': '-', 'rulesDeltaSeconds': 0, 'format': 'ONE', 'untilYear': 10000, 'untilMonth': 1, 'untilDay': 1,
           'untilSeconds': 0, 'untilTimeSuffix': 'w'}
    pev = PyEval(R.cfg, max_steps=2000000)
    first = [p_ for p_ in ctor.params if p_ != 'self'][:1]
    try:
        z = pev.instantiate(zs, 'ZoneSpecifier', kwargs={first[0]: {'name': 'Model/One', 'eras': [era]}} if first else {})
        pev.call(zs, 'ZoneSpecifier.init_for_year', [YEAR], recv=z)
        ms = z.attrs.get('matches')
        if isinstance(ms, list) and len(ms) == 1:
            s_, u_ = ms[0].attrs.get('startDateTime'), ms[0].attrs.get('untilDateTime')
            if (s_.d, s_.ss, u_.d, u_.ss) == (1, 0, 1, 0):
                pw = [(s_.y - YEAR, s_.M), (u_.y - YEAR, u_.M)]
    except PRaised as x_:
        R.violation('R3', c, pf.loc, 'init_for_year(%d) on a zone of one unbounded era raises %s' % (YEAR, x_.what))
        return
    except AttributeError:
        pw = None
    R.instance('R3', 'ZoneSpecifier.init_for_year:window', pf.loc, 'window %r' % (pw,))
    if pw is None:
        R.violation('R3', c, pf.loc, 'init_for_year(%d) with the default viewing_months=%r does not leave one match running from the first of a month to the first of a month for a zone of one unbounded era' % (YEAR, default))
        return
    if cw != pw:
        R.violation('R3', c, f.loc, 'the C++ window is [year%+d month %d, year%+d month %d) but the reference uses [year%+d month %d, year%+d month %d): '
                    'instants of the key year that fall in the uncovered local months find no transition (error offset) or a stale one'
                    % (cw[0][0], cw[0][1], cw[1][0], cw[1][1], pw[0][0], pw[0][1], pw[1][0], pw[1][1]))
    # independent of the reference: the key is the UTC year, local time is within 16 h of UTC on both sides
    if not (cw[0] <= (-1, 12) and cw[1] >= (1, 2)):
        R.violation('R3', c + ':cover', f.loc, 'the window [year%+d month %d, year%+d month %d) does not reach one month beyond both ends of the key year, '
                    'but the key year is a UTC year and the matches are in local time' % (cw[0][0], cw[0][1], cw[1][0], cw[1][1]))


def _o(o):
    kind, res, eff = o
    r = poly_key_str(res) if isinstance(res, tuple) else res
    e = ', '.join('%s:=%s' % (t, poly_key_str(v) if isinstance(v, tuple) else v) for t, v in (eff if isinstance(eff, tuple) else ()))
    return '%s %s%s' % (kind, r, (' {' + e + '}') if e else '')


# -- (h) processActiveTransition / _process_transition ---------------------------------------------------------------

def process_pair(R, lib, zs, sv):
    """processActiveTransition (C++) and ActiveSelectorInPlace._process_transition (Python) are interpreted (E-SEQ) on
    every combination of the comparison status {-1, 0, 1, 2} (compareTransitionToMatch is replaced by a stub that
    answers it), a prior that is absent / earlier / at the same time / later than the transition, and both initial
    values of the active flags.  Compared: the transition's flag, the prior's flag and which object is the prior
    afterwards."""
    from .aeval import AEval, AObj, CxxModule, Raised, Ref, cxx_object
    from .pyeval import PyEval, PObj, Raised as PRaised
    NS = 'ace_time::extended::'
    cf = lib.fn(XP + 'processActiveTransition')
    pf = zs.fn('ActiveSelectorInPlace._process_transition')
    c = 'processActiveTransition~ActiveSelectorInPlace._process_transition'
    mod = CxxModule(lib, ['ace_time::'])
    pev = PyEval(R.cfg)
    DT = pev.global_name(zs, 'DateTuple', zs.rel)
    n = 0
    diffs = []
    for status in (-1, 0, 1, 2):
        for prior_case in ('none', 'earlier', 'same', 'later'):
            for flag0 in (False, True):
                day = {'none': None, 'earlier': 5, 'same': 10, 'later': 15}[prior_case]
                # C++
                tr = cxx_object(lib, NS + 'Transition')
                tr.attrs['transitionTime'].attrs.update({'yearTiny': 1, 'month': 3, 'day': 10, 'minutes': 120, 'suffix': sv['w']})
                tr.attrs['active'] = flag0
                pr = None
                if day is not None:
                    pr = cxx_object(lib, NS + 'Transition')
                    pr.attrs['transitionTime'].attrs.update({'yearTiny': 1, 'month': 3, 'day': day, 'minutes': 120, 'suffix': sv['w']})
                    pr.attrs['active'] = True
                box = [pr]
                match = cxx_object(lib, NS + 'ZoneMatch')
                try:
                    ev = AEval(module=mod, intrinsics={XP + 'compareTransitionToMatch': (lambda e_, r_, a_, s_=status: s_)}, typed=True, max_steps=20000)
                    args = []
                    for (pn_, pt_) in cf.params:
                        args.append(match if 'ZoneMatch' in (pt_ or '') else Ref(box, 0) if (pt_ or '').count('*') == 2 else tr)
                    ev.call_function(cf.name, args, chosen=CxxModule._Fn(cf))
                    oc = (bool(tr.attrs['active']), None if pr is None else bool(pr.attrs['active']),
                          'transition' if box[0] is tr else 'prior' if (box[0] is pr and pr is not None) else 'none' if box[0] is None else '?')
                except Raised as x_:
                    oc = ('raises', x_.what)
                # Python
                ptr = PObj(zs, 'Transition', {'transitionTime': pev.apply(DT, [], dict(y=2001, M=3, d=10, ss=7200, f='w')), 'isActive': flag0})
                ppr = None
                if day is not None:
                    ppr = PObj(zs, 'Transition', {'transitionTime': pev.apply(DT, [], dict(y=2001, M=3, d=day, ss=7200, f='w')), 'isActive': True})
                pev._modenv[(zs.rel, '_compare_transition_to_match')] = (lambda a_, b_, s_=status: s_)
                try:
                    vals = {'match': PObj(zs, 'ZoneMatch', {}), 'transition': ptr, 'prior': ppr}
                    if sorted(pf.params) != sorted(vals):
                        raise AnalysisError('%s: parameters %s are not (match, transition, prior)' % (pf.loc, pf.params))
                    r = pev.call(zs, pf.name, [vals[x] for x in pf.params])
                    op = (bool(ptr.attrs['isActive']), None if ppr is None else bool(ppr.attrs['isActive']),
                          'transition' if r is ptr else 'prior' if (r is ppr and ppr is not None) else 'none' if r is None else '?')
                except PRaised as x_:
                    op = ('raises', x_.what)
                finally:
                    pev._modenv.pop((zs.rel, '_compare_transition_to_match'), None)
                n += 1
                if oc != op:
                    diffs.append(('status %d, prior %s, active flag initially %s' % (status, prior_case, flag0), oc, op))
    R.instance('R1', c, cf.loc, '%d interpreted cases' % n)
    if diffs:
        d = diffs[0]
        R.violation('R1', c, cf.loc, 'the two implementations differ when %s: C++ -> (transition active, prior active, prior is) = %s, Python -> %s' % (d[0], d[1], d[2]),
                    detail=['%d differing cases of %d' % (len(diffs), n), 'Python side: %s' % pf.loc])


def transition_match_pair(R, lib, zs, sv):
    """compareTransitionToMatch (C++) and _compare_transition_to_match (Python), interpreted (E-SEQ) on a match [start 10th,
    until 20th) whose bounds carry every pair of suffixes w/s/u, and a transition whose w, s and u times range
    independently over before / at the start / inside / at the end / after: 1125 cases, the four results compared."""
    from .aeval import AEval, CxxModule, Raised, cxx_object
    from .pyeval import PyEval, PObj, Raised as PRaised
    NS = 'ace_time::extended::'
    cf = lib.fn(XP + 'compareTransitionToMatch')
    pf = zs.fn('_compare_transition_to_match')
    c = 'compareTransitionToMatch~_compare_transition_to_match'
    mod = CxxModule(lib, ['ace_time::'])
    pev = PyEval(R.cfg)
    DT = pev.global_name(zs, 'DateTuple', zs.rel)
    days = (5, 10, 15, 20, 25)
    n = 0
    diffs = []
    import itertools
    for fs, fu in itertools.product('wsu', repeat=2):
        for dw, ds, du in itertools.product(days, repeat=3):
            tr = cxx_object(lib, NS + 'Transition')
            for fld, d_, f_ in (('transitionTime', dw, 'w'), ('transitionTimeS', ds, 's'), ('transitionTimeU', du, 'u')):
                tr.attrs[fld].attrs.update({'yearTiny': 1, 'month': 3, 'day': d_, 'minutes': 120, 'suffix': sv[f_]})
            m = cxx_object(lib, NS + 'ZoneMatch')
            m.attrs['startDateTime'].attrs.update({'yearTiny': 1, 'month': 3, 'day': 10, 'minutes': 120, 'suffix': sv[fs]})
            m.attrs['untilDateTime'].attrs.update({'yearTiny': 1, 'month': 3, 'day': 20, 'minutes': 120, 'suffix': sv[fu]})
            try:
                ev = AEval(module=mod, typed=True, max_steps=20000)
                args = [m if 'ZoneMatch' in (pt_ or '') else tr for (_pn, pt_) in cf.params]
                oc = ev.call_function(cf.name, args, chosen=CxxModule._Fn(cf))
            except Raised as x_:
                oc = 'raises %s' % x_.what
            mk = lambda d_, f_: pev.apply(DT, [], dict(y=2001, M=3, d=d_, ss=7200, f=f_))
            ptr = PObj(zs, 'Transition', {'transitionTime': mk(dw, 'w'), 'transitionTimeS': mk(ds, 's'), 'transitionTimeU': mk(du, 'u')})
            pm = PObj(zs, 'ZoneMatch', {'startDateTime': mk(10, fs), 'untilDateTime': mk(20, fu)})
            try:
                vals = {'transition': ptr, 'match': pm}
                if sorted(pf.params) != sorted(vals):
                    raise AnalysisError('%s: parameters %s are not (transition, match)' % (pf.loc, pf.params))
                pev.steps = 0
                op = pev.call(zs, pf.name, [vals[x] for x in pf.params])
            except PRaised as x_:
                op = 'raises %s' % x_.what
            n += 1
            if oc != op:
                diffs.append(('match [10th %s, 20th %s), transition at day %d (w) / %d (s) / %d (u)' % (fs, fu, dw, ds, du), oc, op))
    R.instance('R1', c, cf.loc, '%d interpreted cases' % n)
    if diffs:
        d = diffs[0]
        R.violation('R1', c, cf.loc, 'the two implementations differ when %s: C++ -> %s, Python -> %s' % (d[0], d[1], d[2]),
                    detail=['%d differing cases of %d' % (len(diffs), n), 'Python side: %s' % pf.loc])


# -- look-up loops -------------------------------------------------------------------------------------------------------------

def loop_rules(R, lib, zs):
    """the two look-ups on both sides: interpreted on the same abstract pools (rules_C07.lookup_eval)"""
    from .rules_C07 import lookup_eval
    pnames = {'findTransition': 'ZoneSpecifier._find_transition_for_seconds', 'findTransitionForDateTime': 'ZoneSpecifier._find_transition_for_datetime'}
    for cname, res in lookup_eval(R.cfg, lib).items():
        cf, cbad, cn = res['c']
        pf, pbad, pn = res['py']
        c = '%s~%s' % (cname, pnames[cname])
        R.instance('R1-loop', c, cf.loc, '%d + %d interpreted look-ups' % (cn, pn))
        if cbad:
            R.violation('R1-loop', c, cf.loc, 'C++ side: ' + cbad)
        elif pbad:
            R.violation('R1-loop', c, pf.loc, 'Python side: ' + pbad)


# -- normal form ----------------------------------------------------------------------------------------------------------------

def normal_form_rules(R, lib, zs):
    # C++: the interval obligation of C07-R1 on the current tree
    from . import rules_C07
    from .absint import AbsInt, DBM
    lo, hi, amax, worst = rules_C07.table_ranges(R.cfg, lib)
    f = lib.fn('ace_time::ExtendedZoneProcessor::normalizeDateTuple')
    var = f.params[0][0] + '.minutes'
    ai = AbsInt(fold_global=lib.global_value)
    st = DBM()
    ai.types[var] = (16, True)
    st.add(var, '0', hi)
    st.add('0', var, -lo)
    out = ai.run(f.body, st)
    exits = [s_ for _r, s_ in ai.ret_states] + ([] if out.bottom else [out])
    glo = min(e.bounds(var)[0] for e in exits)
    ghi = max(e.bounds(var)[1] for e in exits)
    R.instance('R2', f.name, f.loc, 'minutes in [%s, %s] after normalisation' % (glo, ghi))
    if not (glo >= 0 and ghi <= 1439):
        R.violation('R2', f.name, f.loc, 'C++ leaves minutes in [%s, %s] while the Python reference always canonicalises to [0, 86399] s: the two '
                    'implementations order date tuples differently around local midnight' % (glo, ghi))
    # Python: _normalize_date_tuple interpreted (E-SEQ) on date tuples whose seconds run from two days before to two days after the
    # date, at month, year and leap-day boundaries: the result is the same instant with 0 <= seconds < 86400 and the suffix kept
    import datetime as _dtm
    from .pyeval import PyEval, Raised as PRaised
    pf = zs.fn('ZoneSpecifier._normalize_date_tuple')
    pev = PyEval(R.cfg, max_steps=2000000)
    DT = pev.global_name(zs, 'DateTuple', pf.loc)
    bad, n = None, 0
    for (y, m, d) in ((2000, 12, 31), (2001, 1, 1), (2001, 2, 28), (2004, 2, 29), (2004, 3, 1), (2001, 6, 15)):
        for ss in (-172800, -90000, -86400, -3600, -1, 0, 1, 43200, 86399, 86400, 90000, 172805):
            for sfx in ('w', 'u'):
                try:
                    got = pev.call(zs, 'ZoneSpecifier._normalize_date_tuple', [pev.apply(DT, [], dict(y=y, M=m, d=d, ss=ss, f=sfx))])
                    got = tuple(got) if isinstance(got, tuple) else got
                except PRaised as r_:
                    got = 'raises %s' % r_.what
                n += 1
                w = _dtm.datetime(y, m, d) + _dtm.timedelta(seconds=ss)
                want = (w.year, w.month, w.day, w.hour * 3600 + w.minute * 60 + w.second, sfx)
                if got != want and bad is None:
                    bad = '(%d-%02d-%02d, %d s, %s) is normalised to %s, expected %s (the same instant with 0 <= seconds < 86400)' % (y, m, d, ss, sfx, got, want)
    R.instance('R2', 'ZoneSpecifier._normalize_date_tuple', pf.loc, '%d date tuples interpreted' % n)
    if bad:
        R.violation('R2', 'ZoneSpecifier._normalize_date_tuple', pf.loc, 'the Python side does not canonicalise date tuples: ' + bad)


SELFTEST = [
    dict(id='second-fix-pass-over-the-active-transitions-dropped', file='src/ace_time/ExtendedZoneProcessor.h',
         find='      fixTransitionTimes(begin, end);\n      if (ACE_TIME_EXTENDED_ZONE_PROCESSOR_DEBUG) { log(); }\n      generateStartUntilTimes(begin, end);',
         replace='      if (ACE_TIME_EXTENDED_ZONE_PROCESSOR_DEBUG) { log(); }\n      generateStartUntilTimes(begin, end);', rule='R11'),
    dict(id='thirteen-month-window-ends-in-january', file='tools/zonedb/zone_specifier.py',
         find='        elif self.viewing_months == 13:\n            start_ym = YearMonthTuple(year, 1)\n            until_ym = YearMonthTuple(year + 1, 2)',
         replace='        elif self.viewing_months == 13:\n            start_ym = YearMonthTuple(year, 1)\n            until_ym = YearMonthTuple(year + 1, 1)', rule='R10'),
    dict(id='cpp-era-compare-drops-day', file='src/ace_time/ExtendedZoneProcessor.h', find='      if (era.untilDay() > 1) return 1;\n', replace='', rule='R1', construct='compareEraToYearMonth'),
    dict(id='python-era-compare-month-sign', file='tools/zonedb/zone_specifier.py',
         find='        if era.untilMonth < month:\n            return -1', replace='        if era.untilMonth <= month:\n            return -1', rule='R1', construct='compareEraToYearMonth'),
    dict(id='cpp-overlap-uses-era-twice', file='src/ace_time/ExtendedZoneProcessor.h',
         find='      return compareEraToYearMonth(prev, untilYm.yearTiny, untilYm.month) < 0', replace='      return compareEraToYearMonth(era, untilYm.yearTiny, untilYm.month) < 0', rule='R1', construct='eraOverlapsInterval'),
    dict(id='cpp-prior-year-off-by-one', file='src/ace_time/ExtendedZoneProcessor.h', find='          return startYear - 1;', replace='          return startYear;', rule='R1', construct='getMostRecentPriorYear'),
    dict(id='python-fuzzy-window', file='tools/zonedb/zone_specifier.py', find='    if match_until + 2 <= transition_time:', replace='    if match_until + 1 <= transition_time:', rule='R1', construct='compareTransitionToMatchFuzzy'),
    dict(id='cpp-exact-compare-uses-wall-time-for-s', file='src/ace_time/ExtendedZoneProcessor.h', unique=False, nth=0,
         find='        transitionTime = &transition->transitionTimeS;', replace='        transitionTime = &transition->transitionTime;', rule='R1', construct='compareTransitionToMatch~'),
    dict(id='cpp-until-bound-inclusive', file='src/ace_time/ExtendedZoneProcessor.h',
         find='      if (*transitionTime < matchUntil) return 1;\n      return 2;', replace='      if (*transitionTime <= matchUntil) return 1;\n      return 2;', rule='R1', construct='compareTransitionToMatch~'),
    dict(id='cpp-prior-not-deactivated', file='src/ace_time/ExtendedZoneProcessor.h',
         find='        if (*prior) {\n          (*prior)->active = false;\n        }\n        transition->active = true;\n        (*prior) = transition;',
         replace='        transition->active = true;\n        (*prior) = transition;', rule='R1', construct='processActiveTransition'),
    dict(id='python-prior-comparison-reversed', file='tools/zonedb/zone_specifier.py',
         find='                if transition.transitionTime > prior.transitionTime:', replace='                if transition.transitionTime < prior.transitionTime:', rule='R1', construct='processActiveTransition'),
    dict(id='cpp-expand-sign', file='src/ace_time/ExtendedZoneProcessor.h', find='            (int16_t) (tt->minutes - offsetMinutes),', replace='            (int16_t) (tt->minutes + offsetMinutes),', rule='R1', construct='expandDateTuple'),
    dict(id='python-expand-drops-delta', file='tools/zonedb/zone_specifier.py', find='            ss = dtu.ss + delta_seconds + offset_seconds', replace='            ss = dtu.ss + offset_seconds', rule='R1', construct='expandDateTuple'),
    dict(id='cpp-match-upper-bound-not-clipped', file='src/ace_time/ExtendedZoneProcessor.h',
         find='      if (upperBound < untilDate) {\n        untilDate = upperBound;\n      }', replace='', rule='R1', construct='createMatch'),
    dict(id='python-abbrev-half-nonpositive', file='tools/zonedb/zone_specifier.py', find='                if delta_seconds == 0:\n                    abbrev = format[:index]',
         replace='                if delta_seconds <= 0:\n                    abbrev = format[:index]', rule='R7'),
    dict(id='cpp-abbrev-half-positive-only', file='src/ace_time/ExtendedZoneProcessor.h', find='          if (deltaMinutes == 0) {\n            uint8_t headLength',
         replace='          if (deltaMinutes == 0 || deltaMinutes > 32767) {\n            uint8_t headLength', rule='R7'),
    dict(id='python-abbrev-branches-swapped-silent', file='tools/zonedb/zone_specifier.py',
         find='                if delta_seconds == 0:\n                    abbrev = format[:index]\n                else:\n                    abbrev = format[index + 1:]',
         replace='                if delta_seconds != 0:\n                    abbrev = format[index + 1:]\n                else:\n                    abbrev = format[:index]', expect='silent'),
    dict(id='python-lookup-wrong-field', file='tools/zonedb/zone_specifier.py', find='            start_time = transition.startDateTime', replace='            start_time = transition.transitionTime', rule='R1-loop'),
    dict(id='python-lookup-stops-on-equal', file='tools/zonedb/zone_specifier.py', find='            if start_time > dt_time:\n                break', replace='            if start_time >= dt_time:\n                break', rule='R1-loop'),
    dict(id='cpp-normalise-only-whole-days', file='src/ace_time/ExtendedZoneProcessor.h', find='      while (dt->minutes < 0) {', replace='      while (dt->minutes <= -kOneDayAsMinutes) {', rule='R2'),
    dict(id='python-normalise-by-divmod-silent', file='tools/zonedb/zone_specifier.py',
         find='            st = datetime(tt.y, tt.M, tt.d, 0, 0, 0)\n            delta = timedelta(seconds=tt.ss)\n            st += delta\n            secs = hms_to_seconds(st.hour, st.minute, st.second)\n            return DateTuple(y=st.year, M=st.month, d=st.day, ss=secs, f=tt.f)\n',
         replace='            days, secs = divmod(tt.ss, 86400)\n            st = datetime(tt.y, tt.M, tt.d, 0, 0, 0) + timedelta(days=days)\n            return tt._replace(y=st.year, M=st.month, d=st.day, ss=secs)\n', expect='silent'),
    dict(id='python-normalise-by-divmod-forgets-the-year', file='tools/zonedb/zone_specifier.py',
         find='            st = datetime(tt.y, tt.M, tt.d, 0, 0, 0)\n            delta = timedelta(seconds=tt.ss)\n            st += delta\n            secs = hms_to_seconds(st.hour, st.minute, st.second)\n            return DateTuple(y=st.year, M=st.month, d=st.day, ss=secs, f=tt.f)\n',
         replace='            days, secs = divmod(tt.ss, 86400)\n            st = datetime(tt.y, tt.M, tt.d, 0, 0, 0) + timedelta(days=days)\n            return tt._replace(M=st.month, d=st.day, ss=secs)\n', rule='R2'),
    dict(id='python-basic-selector-adds-prior-despite-start', file='tools/zonedb/zone_specifier.py',
         find="        if not results.get('startTransitionFound'):\n            prior_transition = results.get('latestPriorTransition')\n            if not prior_transition:\n                raise Exception(\n                    'Prior transition not found; should not happen')\n",
         replace="        prior_transition = results.get('latestPriorTransition')\n        if prior_transition:\n", rule='R5'),
    dict(id='python-inplace-selector-keeps-old-prior', file='tools/zonedb/zone_specifier.py',
         find='            transition.isActive = True\n            if prior:\n                prior.isActive = False\n            prior = transition\n',
         replace='            transition.isActive = True\n            prior = transition\n', rule='R5'),
    dict(id='python-inplace-selector-shifts-start', file='tools/zonedb/zone_specifier.py',
         find='        if prior and prior.transitionTime < match.startDateTime:', replace='        if prior:', expect='silent'),
    dict(id='python-basic-selector-latest-is-earliest', file='tools/zonedb/zone_specifier.py',
         find='                if transition_time > latest_prior_transition.transitionTime:', replace='                if transition_time < latest_prior_transition.transitionTime:', rule='R5'),
    dict(id='python-inplace-selector-elif-order-silent', file='tools/zonedb/zone_specifier.py',
         find='        if transition_compared_to_match == 2:\n            transition.isActive = False\n        elif transition_compared_to_match == 1:\n            transition.isActive = True\n        elif transition_compared_to_match == 0:',
         replace='        if transition_compared_to_match == 1:\n            transition.isActive = True\n        elif transition_compared_to_match == 2:\n            transition.isActive = False\n        elif transition_compared_to_match == 0:', expect='silent'),
    dict(id='python-optimized-finder-keeps-earliest-prior', file='tools/zonedb/zone_specifier.py',
         find='            if transition.transitionTime > prior_transition.transitionTime:\n                return transition\n            else:\n                return prior_transition',
         replace='            if transition.transitionTime < prior_transition.transitionTime:\n                return transition\n            else:\n                return prior_transition', rule='R6'),
    dict(id='python-optimized-finder-forgets-prior-year', file='tools/zonedb/zone_specifier.py',
         find='            if prior_year >= 0:\n                transition = _create_transition_for_year(\n                    prior_year, rule, match)',
         replace='            if prior_year > 0:\n                transition = _create_transition_for_year(\n                    prior_year, rule, match)', rule='R6'),
    dict(id='python-optimized-finder-drops-fuzzy-prior', file='tools/zonedb/zone_specifier.py',
         find='                if comp < 0:\n                    prior_transition = self._calc_prior_transition(\n                        prior_transition, transition)\n                elif comp == 1:',
         replace='                if comp < 0:\n                    pass\n                elif comp == 1:', rule='R6'),
    dict(id='python-basic-finder-end-year', file='tools/zonedb/zone_specifier.py', unique=False, nth=0,
         find='        if until.M == 1 and until.d == 1 and until.ss == 0:\n            end_y = until.y - 1\n        else:\n            end_y = until.y',
         replace='        if until.M == 1 and until.d == 1 and until.ss == 0:\n            end_y = until.y - 2\n        else:\n            end_y = until.y', rule='R6'),
    dict(id='python-optimized-finder-keeps-far-future-silent', file='tools/zonedb/zone_specifier.py',
         find='                elif comp == 1:\n                    _add_transition_sorted(transitions, transition)', replace='                elif comp >= 1:\n                    _add_transition_sorted(transitions, transition)', expect='silent'),
    dict(id='cpp-reserved-prior-not-cleared', file='src/ace_time/ExtendedZoneProcessor.h',
         find='      (*prior)->active = false; // indicates "no prior transition"\n', replace='', rule='R4'),
    dict(id='cpp-reserved-prior-cleared-inside-loop', file='src/ace_time/ExtendedZoneProcessor.h', regex=True,
         find=r'      \(\*prior\)->active = false; // indicates "no prior transition"\n(      for \(uint8_t r = 0; r < numRules; r\+\+\) \{\n        const extended::ZoneRuleBroker rule = policy.rule\(r\);\n)',
         replace=r'\1        (*prior)->active = false;\n', rule='R4'),
    dict(id='cpp-reserved-prior-set-true', file='src/ace_time/ExtendedZoneProcessor.h',
         find='      (*prior)->active = false; // indicates "no prior transition"\n', replace='      if (numRules == 0) (*prior)->active = false;\n', rule='R4'),
    dict(id='cpp-reserved-prior-renamed-silent', file='src/ace_time/ExtendedZoneProcessor.h', regex=True,
         find=r'(      extended::Transition\*\* )prior( = transitionStorage.reservePrior\(\);\n      \(\*)prior(\)->active = false;.*?      if \(\(\*)prior(\)->active\) \{)',
         replace=r'\1slot\2slot\3slot\4', expect='silent'),
    dict(id='cpp-window-starts-in-january', file='src/ace_time/ExtendedZoneProcessor.h',
         find='        (int8_t) (year - LocalDate::kEpochYear - 1), 12 };', replace='        (int8_t) (year - LocalDate::kEpochYear), 1 };', rule='R3'),
    dict(id='cpp-window-ends-in-january', file='src/ace_time/ExtendedZoneProcessor.h',
         find='        (int8_t) (year - LocalDate::kEpochYear + 1), 2 };', replace='        (int8_t) (year - LocalDate::kEpochYear + 1), 1 };', rule='R3'),
    dict(id='python-default-window-13', file='tools/zonedb/zone_specifier.py', find='            viewing_months: int = 14,', replace='            viewing_months: int = 13,', rule='R3'),
    dict(id='cpp-window-year-spelling-silent', file='src/ace_time/ExtendedZoneProcessor.h',
         find='        (int8_t) (year - LocalDate::kEpochYear - 1), 12 };', replace='        (int8_t) (year - 1 - LocalDate::kEpochYear), 12 };', expect='silent'),
    dict(id='cpp-insertion-before-equal-times', file='src/ace_time/ExtendedZoneProcessor.h',
         find='        if (curr->transitionTime >= prev->transitionTime) break;', replace='        if (curr->transitionTime > prev->transitionTime) break;', rule='R9', construct='addFreeAgentToCandidatePool'),
    dict(id='cpp-insertion-skips-first-candidate', file='src/ace_time/ExtendedZoneProcessor.h',
         find='      for (uint8_t i = mIndexFree; i > mIndexCandidates; i--) {', replace='      for (uint8_t i = mIndexFree; i > mIndexCandidates + 1; i--) {', rule='R9', construct='addFreeAgentToCandidatePool'),
    dict(id='python-insertion-before-equal-times', file='tools/zonedb/zone_specifier.py',
         find='        if _compare_date_tuple(curr.transitionTime, prev.transitionTime) < 0:', replace='        if _compare_date_tuple(curr.transitionTime, prev.transitionTime) <= 0:', rule='R9'),
    dict(id='cpp-compaction-copies-instead-of-swapping', file='src/ace_time/ExtendedZoneProcessor.h',
         find='            swap(&mTransitions[iActive], &mTransitions[iCandidate]);', replace='            mTransitions[iActive] = mTransitions[iCandidate];', rule='R9', construct='addActiveCandidatesToActivePool'),
    dict(id='cpp-compaction-leaves-free-index', file='src/ace_time/ExtendedZoneProcessor.h',
         find='      mIndexPrior = iActive;\n      mIndexCandidates = iActive;\n      mIndexFree = iActive;', replace='      mIndexPrior = iActive;\n      mIndexCandidates = iActive;', rule='R9', construct='addActiveCandidatesToActivePool'),
    dict(id='cpp-insertion-loop-as-while-silent', file='src/ace_time/ExtendedZoneProcessor.h',
         find='      for (uint8_t i = mIndexFree; i > mIndexCandidates; i--) {\n        Transition* curr = mTransitions[i];\n        Transition* prev = mTransitions[i - 1];\n        if (curr->transitionTime >= prev->transitionTime) break;\n        mTransitions[i] = prev;\n        mTransitions[i - 1] = curr;\n      }',
         replace='      uint8_t i = mIndexFree;\n      while (i > mIndexCandidates && mTransitions[i]->transitionTime < mTransitions[i - 1]->transitionTime) {\n        swap(&mTransitions[i], &mTransitions[i - 1]);\n        i--;\n      }', expect='silent'),
    dict(id='cpp-compaction-unconditional-swap-silent', file='src/ace_time/ExtendedZoneProcessor.h',
         find='          if (iActive != iCandidate) {\n            swap(&mTransitions[iActive], &mTransitions[iCandidate]);\n          }', replace='          swap(&mTransitions[iActive], &mTransitions[iCandidate]);', expect='silent'),
    dict(id='cpp-start-ignores-previous-offsets', file='src/ace_time/ExtendedZoneProcessor.h',
         find='            - prev->offsetMinutes - prev->deltaMinutes\n            + t->offsetMinutes + t->deltaMinutes);', replace='            + t->deltaMinutes);', rule='R1'),
    dict(id='python-start-delta-sign', file='tools/zonedb/zone_specifier.py',
         find='                    + transition.offsetSeconds + transition.deltaSeconds)', replace='                    + transition.offsetSeconds - transition.deltaSeconds)', rule='R1'),
    dict(id='cpp-start-epoch-in-previous-offset', file='src/ace_time/ExtendedZoneProcessor.h',
         find='            * (st.minutes - (t->offsetMinutes + t->deltaMinutes));', replace='            * (st.minutes - (prev->offsetMinutes + prev->deltaMinutes));', rule='R1'),
    dict(id='python-start-epoch-without-delta', file='tools/zonedb/zone_specifier.py',
         find='            utc_offset_seconds = transition.offsetSeconds \\\n                + transition.deltaSeconds', replace='            utc_offset_seconds = transition.offsetSeconds', rule='R1'),
    dict(id='cpp-prev-never-advances', file='src/ace_time/ExtendedZoneProcessor.h', find='        prev = t;\n        isAfterFirst = true;', replace='        isAfterFirst = true;', rule='R1'),
    dict(id='cpp-after-first-never-set', file='src/ace_time/ExtendedZoneProcessor.h', find='        prev = t;\n        isAfterFirst = true;', replace='        prev = t;', rule='R1'),
    dict(id='cpp-start-not-normalised', file='src/ace_time/ExtendedZoneProcessor.h', find='        normalizeDateTuple(&t->startDateTime);\n', replace='', rule='R1'),
    dict(id='python-fix-times-with-own-offsets', file='tools/zonedb/zone_specifier.py',
         find='                prev.offsetSeconds,\n                prev.deltaSeconds,\n            )', replace='                transition.offsetSeconds,\n                transition.deltaSeconds,\n            )', rule='R1'),
    dict(id='cpp-fix-times-prev-stuck', file='src/ace_time/ExtendedZoneProcessor.h', regex=True,
         find=r'(            prev->offsetMinutes, prev->deltaMinutes\);\n)        prev = curr;\n', replace=r'\1', rule='R1'),
    dict(id='cpp-last-until-without-delta', file='src/ace_time/ExtendedZoneProcessor.h',
         find='      expandDateTuple(&untilTime, &untilTimeS, &untilTimeU,\n          prev->offsetMinutes, prev->deltaMinutes);',
         replace='      expandDateTuple(&untilTime, &untilTimeS, &untilTimeU,\n          prev->offsetMinutes, 0);', rule='R1'),
    dict(id='cpp-start-regrouped-silent', file='src/ace_time/ExtendedZoneProcessor.h',
         find='        int16_t minutes = tt.minutes + (\n            - prev->offsetMinutes - prev->deltaMinutes\n            + t->offsetMinutes + t->deltaMinutes);',
         replace='        int16_t minutes = tt.minutes - (prev->offsetMinutes + prev->deltaMinutes)\n            + (t->offsetMinutes + t->deltaMinutes);', expect='silent'),
    dict(id='cpp-until-unconditional-silent', file='src/ace_time/ExtendedZoneProcessor.h',
         find='        if (isAfterFirst) {\n          prev->untilDateTime = tt;\n        }', replace='        prev->untilDateTime = tt;', expect='silent'),
    dict(id='python-start-inlined-silent', file='tools/zonedb/zone_specifier.py',
         find='            z = timezone(timedelta(seconds=utc_offset_seconds))\n            dt = st.replace(tzinfo=z)',
         replace='            dt = st.replace(tzinfo=timezone(timedelta(seconds=utc_offset_seconds)))', expect='silent'),
    dict(id='python-compare-rewritten-silent', file='tools/zonedb/zone_specifier.py',
         find='    if match_until <= transition_time:\n        return 2\n\n    return 1', replace='    if transition_time < match_until:\n        return 1\n    return 2', expect='silent'),
    dict(id='cpp-era-compare-reordered-silent', file='src/ace_time/ExtendedZoneProcessor.h',
         find='      if (era.untilYearTiny() < yearTiny) return -1;\n      if (era.untilYearTiny() > yearTiny) return 1;',
         replace='      if (era.untilYearTiny() > yearTiny) return 1;\n      if (yearTiny > era.untilYearTiny()) return -1;', expect='silent'),
]
