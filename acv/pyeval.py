"""E-SEQ for the Python tools: an evaluator over the `ast` of tools/*.py on abstract (tagged, small) inputs.

Nothing of /repo is imported or executed: the functions are read as syntax trees and their statements are interpreted
here, with the values the checker supplies (marker names, tiny maps).  Library calls that leave the program (logging,
files, sys.exit, re) are modelled by the table INTRINSICS or refused (AnalysisError): the evaluation then says which
call it could not follow instead of guessing.  The evaluator is deliberately a subset: what the TZ compiler's
transformer / generators use."""
import ast
import datetime as _datetime
import os
import re as _re

from .common import AnalysisError
from . import py as _py


class Raised(Exception):
    def __init__(self, what, loc):
        Exception.__init__(self, what)
        self.what, self.loc = what, loc


class _Return(Exception):
    def __init__(self, v):
        self.v = v


class _Break(Exception):
    pass


class _Continue(Exception):
    pass


_ACTIVE = []        # the evaluator in use (str() of a program object runs the __str__ the program wrote for it)


class PObj:
    """an instance of a class of the program"""

    def __init__(self, mod, cls, attrs=None):
        self.mod, self.cls, self.attrs = mod, cls, dict(attrs or {})

    def __repr__(self):
        return '<%s object>' % self.cls

    def __str__(self):
        ev = _ACTIVE[-1] if _ACTIVE else None
        if ev is not None and self.mod is not None:
            for name in ('__str__', '__repr__'):
                ok, f = ev.class_attr(self.mod, self.cls, name)
                if ok and isinstance(f, PFunc):
                    return ev.apply(f.bind(self), [], {})
        return '<%s object>' % self.cls

    def __format__(self, spec):
        return format(str(self), spec)


class _CtxGen:
    """a call of a generator function decorated with @contextmanager, not yet entered: the `with` statement runs it"""

    def __init__(self, f, args, kwargs):
        self.f, self.args, self.kwargs = f, args, kwargs


class _CtxFrame:
    """the frame of a context-manager generator while its `with` statement runs: the body of the statement runs where the
    generator yields"""

    def __init__(self, body):
        self.body, self.entered = body, False


_KNOWN_DECORATORS = {'staticmethod', 'classmethod', 'property', 'contextmanager', 'lru_cache', 'cache', 'wraps', 'dataclass', 'total_ordering', 'abstractmethod', 'no_type_check', 'overload', 'final'}


def _decorators(node):
    out = set()
    for d in getattr(node, 'decorator_list', []):
        if isinstance(d, ast.Call):
            d = d.func
        if isinstance(d, ast.Name):
            out.add(d.id)
        elif isinstance(d, ast.Attribute):
            out.add(d.attr)
    return out


class PClass:
    def __init__(self, mod, node):
        self.mod, self.node, self.name = mod, node, node.name


class PMod:
    """a library module the program imports (logging, re, sys, ...) - only INTRINSICS give it a meaning"""

    def __init__(self, dotted):
        self.dotted = dotted

    def __repr__(self):
        return '<module %s>' % self.dotted


class PFunc:
    """a function / method / lambda of the program with the environment it closes over"""

    def __init__(self, ev, mod, node, cls=None, closure=None, recv=None):
        self.ev, self.mod, self.node, self.cls, self.closure, self.recv = ev, mod, node, cls, closure, recv

    def bind(self, recv):
        return PFunc(self.ev, self.mod, self.node, self.cls, self.closure, recv)

    def __call__(self, *args, **kwargs):        # so that sorted(key=...), map(...) can use it
        return self.ev.apply(self, list(args), dict(kwargs))

    def __repr__(self):
        return '<function %s>' % getattr(self.node, 'name', 'lambda')


class Env:
    def __init__(self, parent=None):
        self.vars, self.parent = {}, parent

    def lookup(self, name):
        e = self
        while e is not None:
            if name in e.vars:
                return True, e.vars[name]
            e = e.parent
        return False, None


class _ClassBodyEnv(Env):
    """names visible while a class-level constant is evaluated: the class-level names bound in the body (an initialiser may use
    an earlier one), looked up on demand"""

    def __init__(self, ev, mod, cls):
        Env.__init__(self)
        self.ev, self.mod, self.cls = ev, mod, cls

    def lookup(self, name):
        if name in self.vars:
            return True, self.vars[name]
        q = self.cls + '.' + name
        if q in self.mod.class_consts or q in self.mod.funcs:
            ok, v = self.ev.class_attr(self.mod, self.cls, name)
            if ok:
                return True, v
        return False, None


def _quiet(*a, **k):
    return None


def _print(*a, sep=' ', end='\n', file=None, flush=False):
    """print(): text sent to an in-memory buffer or to a file object of the checker is written there; the console is not modelled"""
    import io
    if file is not None and (isinstance(file, io.StringIO) or 'write' in getattr(file, 'pyeval_native', ())):
        file.write(sep.join(str(x) for x in a) + end)
    return None


_GEN_CACHE = {}


def _is_generator(node):
    """does this def contain a yield of its own (not one of a nested def or lambda)?"""
    k = id(node)
    if k not in _GEN_CACHE:
        found = False
        todo = list(getattr(node, 'body', []))
        while todo and not found:
            x = todo.pop()
            if isinstance(x, (ast.Yield, ast.YieldFrom)):
                found = True
            elif not isinstance(x, (ast.FunctionDef, ast.AsyncFunctionDef, ast.Lambda, ast.ClassDef)):
                todo.extend(ast.iter_child_nodes(x))
        _GEN_CACHE[k] = found
    return _GEN_CACHE[k]


INTRINSICS = {
    'logging.info': _quiet, 'logging.error': _quiet, 'logging.warning': _quiet, 'logging.debug': _quiet, 'logging.basicConfig': _quiet,
    're.sub': _re.sub, 're.match': _re.match, 're.search': _re.search, 're.split': _re.split, 're.fullmatch': _re.fullmatch,
    're.compile': _re.compile, 're.findall': _re.findall, 're.escape': _re.escape,
    'io.StringIO': __import__('io').StringIO,
    'os.path.join': os.path.join, 'os.path.basename': os.path.basename,
    'collections.OrderedDict': dict, 'OrderedDict': dict,
    'datetime.datetime': _datetime.datetime, 'datetime.timedelta': _datetime.timedelta, 'datetime.date': _datetime.date,
    'datetime.timezone': _datetime.timezone, 'logging.exception': _quiet,
    'typing.cast': lambda t, v: v,
    'dataclasses.asdict': lambda o: dict(o.attrs),
    'dataclasses.astuple': lambda o: tuple(o.attrs.values()),
    'dataclasses.replace': lambda o, **kw: PObj(o.mod, o.cls, dict(o.attrs, **kw)),
    'dataclasses.field': lambda **kw: _DField(kw),
    'dataclasses.dataclass': lambda *a, **k: (a[0] if a else (lambda c: c)),
}


class _DField:
    """dataclasses.field(default=..., default_factory=...) as the initialiser of a field"""

    def __init__(self, kw):
        self.kw = kw


def _pure_library():
    import bisect
    import functools
    import itertools
    import operator
    out = {}
    for modname, mod, names in (('itertools', itertools, ('takewhile', 'dropwhile', 'chain', 'islice', 'accumulate', 'product', 'zip_longest', 'groupby',
                                                         'repeat', 'count', 'starmap', 'filterfalse', 'permutations', 'combinations', 'tee')),
                                ('functools', functools, ('reduce', 'partial')),
                                ('bisect', bisect, ('bisect', 'bisect_left', 'bisect_right', 'insort', 'insort_left', 'insort_right')),
                                ('operator', operator, ('itemgetter', 'add', 'sub', 'mul', 'lt', 'le', 'gt', 'ge', 'eq', 'ne', 'neg', 'not_'))):
        for n in names:
            out['%s.%s' % (modname, n)] = getattr(mod, n)
    return out


INTRINSICS.update(_pure_library())

# library modules whose functions only compute on their arguments (no files, clock, environment, randomness): a call into them is
# performed on the abstract values as it stands
_PURE_MODULES = ('collections', 'calendar', 'math', 'itertools', 'functools', 'operator', 'bisect', 'string', 'copy', 'textwrap', 'heapq', 'fractions',
                 'statistics', 'enum', 'dataclasses')
_NOT_PURE = {'calendar.setfirstweekday', 'calendar.firstweekday'}


def _pure_object(dotted):
    parts = dotted.split('.')
    if parts[0] not in _PURE_MODULES or len(parts) < 2 or dotted in _NOT_PURE or any(p.startswith('_') for p in parts[1:]):
        return None
    import importlib
    try:
        obj = importlib.import_module(parts[0])
    except ImportError:
        return None
    for p in parts[1:]:
        obj = getattr(obj, p, None)
        if obj is None:
            return None
    return obj

_SAFE_TYPES = (str, list, dict, set, tuple, int, bool, frozenset, bytes, float, _datetime.datetime, _datetime.date, _datetime.timedelta, _datetime.timezone)
_BUILTINS = {'len': len, 'range': range, 'min': min, 'max': max, 'sum': sum, 'any': any, 'all': all, 'enumerate': enumerate, 'zip': zip,
             'reversed': reversed, 'list': list, 'tuple': tuple, 'set': set, 'dict': dict, 'str': str, 'int': int, 'bool': bool, 'abs': abs,
             'ord': ord, 'chr': chr, 'divmod': divmod, 'round': round, 'repr': repr, 'sorted': sorted, 'map': map, 'filter': filter,
             'frozenset': frozenset, 'hex': hex, 'float': float, 'iter': iter, 'next': next, 'print': _print, 'bytes': bytes}
_TYPES = {'str': str, 'int': int, 'list': list, 'dict': dict, 'tuple': tuple, 'set': set, 'bool': bool, 'float': float}


class PyEval:
    def __init__(self, cfg, intrinsics=None, max_steps=400000, max_depth=40):
        self.cfg = cfg
        self.intr = dict(INTRINSICS)
        self.intr.update(intrinsics or {})
        self.steps, self.max_steps, self.max_depth = 0, max_steps, max_depth
        self._modenv = {}
        self.cov = None          # set((module, line)) of the statements interpreted, when a rule asks for it
        _ACTIVE[:] = [self]

    # -- program structure --------------------------------------------------------------------
    def module(self, rel):
        return _py.load(self.cfg, rel)

    def _find_module(self, mod, dotted, level=0):
        here = os.path.dirname(mod.rel)
        parts = dotted.split('.') if dotted else []
        bases = [here]
        b = here
        for _ in range(4):
            b = os.path.dirname(b)
            bases.append(b)
        for base in bases:
            rel = os.path.join(base, *parts) + '.py'
            if os.path.exists(os.path.join(self.cfg.repo, rel)):
                return self.module(rel)
        return None

    def global_name(self, mod, name, loc):
        """value of a module-level name: function, class, constant, imported symbol"""
        key = (mod.rel, name)
        if key in self._modenv:
            return self._modenv[key]
        v = None
        found = True
        if name in mod.funcs and mod.funcs[name].cls is None:
            v = PFunc(self, mod, mod.funcs[name].node)
        elif name in mod.classes:
            v = PClass(mod, mod.classes[name])
        elif name in mod.consts:
            v = self.expr(mod.consts[name], Env(), mod, None, 0)
        elif name in mod.imports:
            org = mod.imports[name]
            if org in self.intr:
                v = self.intr[org]
            elif org == name or ('.' not in org):                      # import logging / import os
                v = PMod(org)
            else:
                modn, _, attr = org.rpartition('.')
                other = self._find_module(mod, modn)
                if other is not None:
                    v = self.global_name(other, attr, loc)
                else:
                    sub = self._find_module(mod, org)              # from pkg import module
                    v = ('module', sub) if sub is not None else PMod(org)
        else:
            found = False
        if not found:
            raise AnalysisError('abstract evaluation: unbound name %s at %s' % (name, loc))
        self._modenv[key] = v
        return v

    def class_attr(self, mod, cls, name):
        """(found, value) of a class-level constant or method, through the bases declared in the same module"""
        seen = set()
        todo = [cls]
        while todo:
            c = todo.pop(0)
            if c in seen or c not in mod.classes:
                continue
            seen.add(c)
            q = c + '.' + name
            if q in mod.funcs:
                return True, PFunc(self, mod, mod.funcs[q].node, cls=c)
            if q in mod.class_consts:
                key = (mod.rel, q)
                if key not in self._modenv:
                    self._modenv[key] = self.expr(mod.class_consts[q], _ClassBodyEnv(self, mod, c), mod, None, 0)
                return True, self._modenv[key]
            for b in mod.classes[c].bases:
                if isinstance(b, ast.Name):
                    todo.append(b.id)
        return False, None

    def enum_of(self, pc):
        """the enum a class of the program declares (class X(Enum): A = 1 ...): built with the functional API of the enum
        module from the class-level constants, in their order; None for other classes"""
        kinds = {'Enum': 'Enum', 'IntEnum': 'IntEnum', 'Flag': 'Flag', 'IntFlag': 'IntFlag'}
        kind = None
        for b in pc.node.bases:
            nm = b.id if isinstance(b, ast.Name) else (b.attr if isinstance(b, ast.Attribute) else None)
            if nm in kinds:
                kind = kinds[nm]
        if kind is None:
            return None
        key = (pc.mod.rel, 'enum:' + pc.name)
        if key not in self._modenv:
            import enum
            members = []
            env = Env()
            for m in pc.node.body:
                if isinstance(m, ast.Assign) and len(m.targets) == 1 and isinstance(m.targets[0], ast.Name):
                    v = self.expr(m.value, env, pc.mod, pc.name, 0)
                    env.vars[m.targets[0].id] = v
                    if not m.targets[0].id.startswith('_'):
                        members.append((m.targets[0].id, v))
            self._modenv[key] = getattr(enum, kind)(pc.name, members)
        return self._modenv[key]

    # -- calls --------------------------------------------------------------------------------
    def instantiate(self, mod, cls, args=(), kwargs=None, attrs=None):
        o = PObj(mod, cls, attrs)
        ok, init = self.class_attr(mod, cls, '__init__')
        if ok and attrs is None:
            self.apply(init.bind(o), list(args), dict(kwargs or {}))
        return o

    def call(self, mod, qname, args=(), kwargs=None, recv=None):
        """entry point: function `f` or method `Class.m` of module `mod`"""
        if '.' in qname:
            cls, name = qname.split('.', 1)
            ok, f = self.class_attr(mod, cls, name)
            if not ok:
                raise AnalysisError('anchor vanished: no method %s in %s' % (qname, mod.rel))
            if recv is not None:
                f = f.bind(recv)
        else:
            f = self.global_name(mod, qname, mod.rel)
        return self.apply(f, list(args), dict(kwargs or {}))

    def apply(self, f, args, kwargs, depth=0):
        if isinstance(f, PFunc):
            if depth > self.max_depth:
                raise AnalysisError('abstract evaluation: call depth exceeded at %s' % f)
            node = f.node
            a = node.args
            params = [x.arg for x in a.posonlyargs + a.args]
            env = Env(f.closure)
            pos = list(args)
            decos = _decorators(node)
            is_static = 'staticmethod' in decos
            unknown = decos - _KNOWN_DECORATORS
            if unknown:
                # a decorator replaces the function by whatever it returns: one the evaluator has no meaning for is a gap of the analysis
                raise AnalysisError('abstract evaluation: decorator @%s of %s is outside the abstraction' % (sorted(unknown)[0], f))
            if decos & {'lru_cache', 'cache'} and not getattr(f, 'memo_inner', False):
                # functools.lru_cache / cache: one result per distinct argument tuple (equality and hash of the arguments are those of the
                # values - two aware datetimes of one instant are one key), kept for the life of the function
                memo = self.__dict__.setdefault('_memo', {})
                try:
                    key = (id(node), f.recv if not is_static else None, tuple(args), tuple(sorted(kwargs.items())))
                    hash(key)
                except TypeError as x_:
                    raise Raised('TypeError: %s' % x_, self.L(f.mod, node))
                if key in memo:
                    return memo[key]
                g_ = PFunc(self, f.mod, f.node, f.cls, f.closure, f.recv)
                g_.memo_inner = True
                memo[key] = self.apply(g_, args, kwargs, depth)
                return memo[key]
            if 'contextmanager' in decos and _is_generator(node) and not getattr(f, 'entering', False):
                return _CtxGen(f, list(args), dict(kwargs))          # runs when the `with` statement enters it
            if f.recv is not None and not is_static:
                recv_ = f.recv
                if 'classmethod' in decos and isinstance(recv_, PObj):
                    recv_ = PClass(recv_.mod, recv_.mod.classes[recv_.cls])       # called through an instance: the class of it
                pos = [recv_] + pos
            defaults = list(a.defaults)
            first_default = len(params) - len(defaults)
            for i, p in enumerate(params):
                if i < len(pos):
                    env.vars[p] = pos[i]
                elif p in kwargs:
                    env.vars[p] = kwargs.pop(p)
                elif i >= first_default:
                    env.vars[p] = self.expr(defaults[i - first_default], Env(), f.mod, f.cls, depth)
                else:
                    raise AnalysisError('abstract evaluation: %s is called without its parameter %s' % (f, p))
            if len(pos) > len(params):
                if a.vararg is None:
                    raise AnalysisError('abstract evaluation: %s takes %d arguments, %d given' % (f, len(params), len(pos)))
                env.vars[a.vararg.arg] = tuple(pos[len(params):])
            elif a.vararg is not None:
                env.vars[a.vararg.arg] = ()
            for kw, d in zip(a.kwonlyargs, a.kw_defaults):
                if kw.arg in kwargs:
                    env.vars[kw.arg] = kwargs.pop(kw.arg)
                elif d is not None:
                    env.vars[kw.arg] = self.expr(d, Env(), f.mod, f.cls, depth)
                else:
                    raise AnalysisError('abstract evaluation: %s is called without %s' % (f, kw.arg))
            if a.kwarg is not None:
                env.vars[a.kwarg.arg] = dict(kwargs)
            elif kwargs:
                raise AnalysisError('abstract evaluation: %s has no parameter %s' % (f, sorted(kwargs)))
            if isinstance(node, ast.Lambda):
                return self.expr(node.body, env, f.mod, f.cls, depth + 1)
            if _is_generator(node) and getattr(f, 'entering', False):
                # the generator behind a `with` statement: the statement's body runs at its yield
                if not hasattr(self, '_yields'):
                    self._yields = []
                frame = f.entering
                self._yields.append(frame)
                try:
                    self.block(node.body, env, f.mod, f.cls, depth + 1)
                except _Return as r_:
                    if not frame.entered:
                        raise Raised("RuntimeError: generator didn't yield", self.L(f.mod, node))
                finally:
                    self._yields.pop()
                if not frame.entered:
                    raise Raised("RuntimeError: generator didn't yield", self.L(f.mod, node))
                return None
            if _is_generator(node):
                # a generator function: its body is run to the end and what it yields is handed out afterwards, in order (the
                # interleaving with the consumer is not modelled; a generator that never ends exhausts the step budget)
                if not hasattr(self, '_yields'):
                    self._yields = []
                self._yields.append([])
                try:
                    self.block(node.body, env, f.mod, f.cls, depth + 1)
                except _Return:
                    pass
                finally:
                    out = self._yields.pop()
                return iter(out)
            try:
                self.block(node.body, env, f.mod, f.cls, depth + 1)
            except _Return as r:
                return r.v
            return None
        if isinstance(f, PClass):
            en_ = self.enum_of(f)
            if en_ is not None:
                try:
                    return en_(*args, **kwargs)
                except (ValueError, TypeError, KeyError) as x:
                    raise Raised('%s: %s' % (type(x).__name__, x), '?')
            if any(isinstance(b, ast.Name) and b.id == 'NamedTuple' for b in f.node.bases):
                # a real named tuple: ordered comparison, unpacking, _replace and field access behave as in the program
                key = (f.mod.rel, 'namedtuple:' + f.name)
                if key not in self._modenv:
                    import collections
                    fields = [m.target.id for m in f.node.body if isinstance(m, ast.AnnAssign) and isinstance(m.target, ast.Name)]
                    dflt = [self.expr(m.value, Env(), f.mod, f.name, depth) for m in f.node.body
                            if isinstance(m, ast.AnnAssign) and isinstance(m.target, ast.Name) and m.value is not None]
                    self._modenv[key] = collections.namedtuple(f.name, fields, defaults=dflt or None)
                try:
                    return self._modenv[key](*args, **kwargs)
                except TypeError as x:
                    raise Raised('TypeError: %s' % x, '?')
            if any(isinstance(b, ast.Name) and b.id == 'TypedDict' for b in f.node.bases):
                try:
                    return dict(*args, **kwargs)         # calling a TypedDict class builds a plain dict
                except (TypeError, ValueError) as x:
                    raise Raised('%s: %s' % (type(x).__name__, x), '?')
            if not self.class_attr(f.mod, f.name, '__init__')[0]:
                # a record class (dataclass): its annotated names are the fields, in declaration order
                decl = [m for m in f.node.body if isinstance(m, ast.AnnAssign) and isinstance(m.target, ast.Name)
                        and not (isinstance(m.annotation, ast.Subscript) and getattr(m.annotation.value, 'id', getattr(m.annotation.value, 'attr', '')) == 'ClassVar')]
                fields = [m.target.id for m in decl]
                if len(args) > len(fields):
                    raise Raised('TypeError: %s takes %d positional arguments but %d were given' % (f.name, len(fields), len(args)), '?')
                given = dict(zip(fields, args))
                for k_, v_ in kwargs.items():
                    if k_ in given:
                        raise Raised('TypeError: %s got multiple values for argument %r' % (f.name, k_), '?')
                    given[k_] = v_
                o = PObj(f.mod, f.name)
                for m in decl:
                    n_ = m.target.id
                    if n_ in given:
                        o.attrs[n_] = given.pop(n_)
                    elif m.value is not None:
                        v_ = self.expr(m.value, Env(), f.mod, f.name, depth)
                        if isinstance(v_, _DField):
                            if 'default_factory' in v_.kw:
                                v_ = self.apply(v_.kw['default_factory'], [], {}, depth)
                            elif 'default' in v_.kw:
                                v_ = v_.kw['default']
                            else:
                                raise Raised('TypeError: %s missing required argument %r' % (f.name, n_), '?')
                        o.attrs[n_] = v_
                    elif 'dataclass' in _decorators(f.node):
                        raise Raised('TypeError: %s missing required argument %r' % (f.name, n_), '?')
                for k_, v_ in given.items():
                    o.attrs[k_] = v_
                ok_, post = self.class_attr(f.mod, f.name, '__post_init__')
                if ok_:
                    self.apply(post.bind(o), [], {}, depth)
                return o
            return self.instantiate(f.mod, f.name, args, kwargs)
        if callable(f):
            try:
                return f(*args, **kwargs)
            except (_Return, _Break, _Continue, Raised, AnalysisError):
                raise
            except Exception as x:       # the library function itself rejects the values: what the program would see
                raise Raised('%s: %s' % (type(x).__name__, x), '?')
        raise AnalysisError('abstract evaluation: %r is not callable' % (f,))

    # -- statements ---------------------------------------------------------------------------
    def block(self, stmts, env, mod, cls, depth):
        for s in stmts:
            self.stmt(s, env, mod, cls, depth)

    def L(self, mod, n):
        return '%s:%d' % (mod.rel, getattr(n, 'lineno', 0))

    def stmt(self, s, env, mod, cls, depth):
        self.steps += 1
        if self.steps > self.max_steps:
            raise AnalysisError('abstract evaluation: step budget exhausted at %s' % self.L(mod, s))
        if self.cov is not None:
            self.cov.add((mod.rel, s.lineno))
        ev = lambda x: self.expr(x, env, mod, cls, depth)
        if isinstance(s, ast.Expr):
            ev(s.value)
        elif isinstance(s, ast.Assign):
            v = ev(s.value)
            for t in s.targets:
                self.store(t, v, env, mod, cls, depth)
        elif isinstance(s, ast.AnnAssign):
            if s.value is not None:
                self.store(s.target, ev(s.value), env, mod, cls, depth)
        elif isinstance(s, ast.AugAssign):
            cur = ev(s.target)
            self.store(s.target, self.binop(s.op, cur, ev(s.value), self.L(mod, s), inplace=True), env, mod, cls, depth)
        elif isinstance(s, ast.If):
            self.block(s.body if self.truth(ev(s.test)) else s.orelse, env, mod, cls, depth)
        elif isinstance(s, ast.For):
            broke = False
            src = self.iterate(ev(s.iter), self.L(mod, s))

            def items():
                # a list is walked by position (items appended meanwhile are visited, as in the program); anything else -
                # an unbounded iterator such as itertools.count() included - is consumed one item at a time
                if isinstance(src, list):
                    i = 0
                    while i < len(src):
                        yield src[i]
                        i += 1
                else:
                    n_ = 0
                    try:
                        for x_ in src:
                            n_ += 1
                            if n_ > 2000000:
                                raise AnalysisError('abstract evaluation: loop at %s does not terminate on the abstract input' % self.L(mod, s))
                            yield x_
                    except RuntimeError as x_:
                        raise Raised('RuntimeError: %s' % x_, self.L(mod, s))
            for item in items():
                self.store(s.target, item, env, mod, cls, depth)
                try:
                    self.block(s.body, env, mod, cls, depth)
                except _Break:
                    broke = True
                    break
                except _Continue:
                    continue
            if not broke:
                self.block(s.orelse, env, mod, cls, depth)
        elif isinstance(s, ast.While):
            n = 0
            broke = False
            while self.truth(ev(s.test)):
                n += 1
                if n > 100000:
                    raise AnalysisError('abstract evaluation: loop at %s does not terminate on the abstract input' % self.L(mod, s))
                try:
                    self.block(s.body, env, mod, cls, depth)
                except _Break:
                    broke = True
                    break
                except _Continue:
                    continue
            if not broke:
                self.block(s.orelse, env, mod, cls, depth)
        elif isinstance(s, ast.Return):
            raise _Return(ev(s.value) if s.value is not None else None)
        elif isinstance(s, ast.Break):
            raise _Break()
        elif isinstance(s, ast.Continue):
            raise _Continue()
        elif isinstance(s, ast.Pass):
            pass
        elif isinstance(s, ast.Nonlocal):
            # assignments to these names go to the enclosing function that holds them
            for nm in s.names:
                e_ = env.parent
                while e_ is not None and nm not in e_.vars:
                    e_ = e_.parent
                if e_ is None:
                    raise AnalysisError('abstract evaluation: nonlocal %s at %s names no variable of an enclosing function' % (nm, self.L(mod, s)))
                if not hasattr(env, 'outer'):
                    env.outer = {}
                env.outer[nm] = e_
        elif isinstance(s, ast.Global):
            for nm in s.names:
                if not hasattr(env, 'outer'):
                    env.outer = {}
                env.outer[nm] = 'global'
        elif isinstance(s, (ast.Import, ast.ImportFrom)):
            for a in s.names:
                nm = a.asname or a.name.split('.')[0]
                env.vars[nm] = PMod(a.name if isinstance(s, ast.Import) else '%s.%s' % (s.module, a.name))
        elif isinstance(s, ast.FunctionDef):
            env.vars[s.name] = PFunc(self, mod, s, cls=cls, closure=env)
        elif isinstance(s, ast.Raise):
            if s.exc is None and getattr(self, '_handling', None):
                raise self._handling[-1]            # a bare raise inside a handler: the exception being handled
            what = ast.unparse(s.exc) if s.exc is not None else 'raise'
            raise Raised(what, self.L(mod, s))
        elif isinstance(s, ast.Assert):
            if not self.truth(ev(s.test)):
                raise Raised('AssertionError: ' + ast.unparse(s.test), self.L(mod, s))
        elif isinstance(s, ast.Try):
            # the handler that takes an exception is the first whose class the raised one is (by the class hierarchy of the built-in
            # exceptions, by the bases of a class of the program, else by name); the finally block runs however the statement is left
            try:
                try:
                    self.block(s.body, env, mod, cls, depth)
                except Raised as r:
                    h = next((h_ for h_ in s.handlers if self._handles(h_, r, env, mod, cls, depth)), None)
                    if h is None:
                        raise
                    if h.name:
                        env.vars[h.name] = r.what
                    if not hasattr(self, '_handling'):
                        self._handling = []
                    self._handling.append(r)
                    try:
                        self.block(h.body, env, mod, cls, depth)
                    finally:
                        self._handling.pop()
                else:
                    self.block(s.orelse, env, mod, cls, depth)
            finally:
                if s.finalbody:
                    self.block(s.finalbody, env, mod, cls, depth)
        elif isinstance(s, ast.With):
            def enter(i):
                if i == len(s.items):
                    self.block(s.body, env, mod, cls, depth)
                    return
                it = s.items[i]
                v = ev(it.context_expr)
                if isinstance(v, _CtxGen):
                    # @contextmanager: the generator runs up to its yield, the rest of the statement runs there, then the
                    # generator runs on (an exception or a return in the body leaves the generator at the yield)
                    def body(value):
                        fr = self._yields.pop()          # a yield in the body belongs to the function the statement is in
                        try:
                            if it.optional_vars is not None:
                                self.store(it.optional_vars, value, env, mod, cls, depth)
                            enter(i + 1)
                        finally:
                            self._yields.append(fr)
                    g = PFunc(self, v.f.mod, v.f.node, v.f.cls, v.f.closure, v.f.recv)
                    g.entering = _CtxFrame(body)
                    self.apply(g, v.args, v.kwargs, depth)
                    return
                if it.optional_vars is not None:
                    self.store(it.optional_vars, v, env, mod, cls, depth)
                enter(i + 1)
            enter(0)
        elif isinstance(s, ast.Delete):
            for t in s.targets:
                if isinstance(t, ast.Subscript):
                    del ev(t.value)[ev(t.slice)]
                elif isinstance(t, ast.Name):
                    env.vars.pop(t.id, None)
                else:
                    raise AnalysisError('abstract evaluation: del %s at %s' % (ast.unparse(t), self.L(mod, s)))
        elif isinstance(s, ast.ClassDef):
            raise AnalysisError('abstract evaluation: nested class at %s' % self.L(mod, s))
        else:
            raise AnalysisError('abstract evaluation: statement kind %s at %s' % (type(s).__name__, self.L(mod, s)))

    def _handles(self, h, r, env, mod, cls, depth):
        """does `except <h.type>` take the raised exception r?"""
        import builtins
        if h.type is None:
            return True
        m = _re.match(r'^([A-Za-z_][\w.]*)', str(r.what))
        rname = m.group(1) if m else ''
        rshort = rname.split('.')[-1]
        rcls = getattr(builtins, rshort, None)
        rcls = rcls if isinstance(rcls, type) and issubclass(rcls, BaseException) else None
        for t in (h.type.elts if isinstance(h.type, ast.Tuple) else [h.type]):
            tname = ast.unparse(t).split('.')[-1]
            try:
                tv = self.expr(t, env, mod, cls, depth)
            except (AnalysisError, Raised):
                tv = None
            if tv is None:
                bc = getattr(builtins, tname, None)
                if isinstance(bc, type) and issubclass(bc, BaseException):
                    tv = bc
            if isinstance(tv, type) and issubclass(tv, BaseException):
                if rcls is not None:
                    if issubclass(rcls, tv):
                        return True
                    continue
                if tv in (Exception, BaseException):
                    return True          # a class of the program or of a library, raised by name: every such class is an Exception
                continue
            if isinstance(tv, PClass):
                # an exception class of the program: the raised class is it, or derives from it through bases of the same module
                seen, todo = set(), [rshort]
                while todo:
                    c_ = todo.pop()
                    if c_ == tv.name:
                        return True
                    if c_ in seen or c_ not in tv.mod.classes:
                        continue
                    seen.add(c_)
                    todo.extend(b.id for b in tv.mod.classes[c_].bases if isinstance(b, ast.Name))
                continue
            if tname == rshort or tname in ('Exception', 'BaseException'):
                return True
        return False

    def store(self, t, v, env, mod, cls, depth):
        if isinstance(t, ast.Name):
            tgt = getattr(env, 'outer', {}).get(t.id) if hasattr(env, 'outer') else None
            if tgt == 'global':
                self._modenv[(mod.rel, t.id)] = v            # `global name`: the module-level binding
            elif tgt is not None:
                tgt.vars[t.id] = v                           # `nonlocal name`
            else:
                env.vars[t.id] = v
        elif isinstance(t, (ast.Tuple, ast.List)):
            vals = list(self.iterate(v, self.L(mod, t)))
            stars = [i for i, x in enumerate(t.elts) if isinstance(x, ast.Starred)]
            if stars:
                i = stars[0]
                after = len(t.elts) - i - 1
                parts = vals[:i] + [vals[i:len(vals) - after]] + vals[len(vals) - after:]
                targets = [x.value if isinstance(x, ast.Starred) else x for x in t.elts]
            else:
                if len(vals) != len(t.elts):
                    raise Raised('ValueError: cannot unpack %d values into %d names' % (len(vals), len(t.elts)), self.L(mod, t))
                parts, targets = vals, t.elts
            for x, y in zip(targets, parts):
                self.store(x, y, env, mod, cls, depth)
        elif isinstance(t, ast.Attribute):
            o = self.expr(t.value, env, mod, cls, depth)
            if not isinstance(o, PObj):
                raise AnalysisError('abstract evaluation: attribute store on %r at %s' % (o, self.L(mod, t)))
            o.attrs[t.attr] = v
        elif isinstance(t, ast.Subscript):
            o = self.expr(t.value, env, mod, cls, depth)
            i = self.expr(t.slice, env, mod, cls, depth)
            try:
                o[i] = v
            except (TypeError, KeyError, IndexError) as x:
                raise Raised('%s: %s' % (type(x).__name__, x), self.L(mod, t))
        else:
            raise AnalysisError('abstract evaluation: store to %s at %s' % (ast.unparse(t), self.L(mod, t)))

    # -- expressions --------------------------------------------------------------------------
    @staticmethod
    def truth(v):
        if isinstance(v, (PObj, PFunc, PClass, PMod)):
            return True
        return bool(v)

    def iterate(self, v, loc):
        if isinstance(v, PClass):
            en_ = self.enum_of(v)
            if en_ is not None:
                return list(en_)
        if isinstance(v, (list, tuple, set, frozenset, str, dict, range)) or hasattr(v, '__next__') or isinstance(v, (zip, enumerate, map, filter, reversed)):
            return v
        if isinstance(v, type({}.items())) or isinstance(v, type({}.keys())) or isinstance(v, type({}.values())):
            return v
        if isinstance(v, PObj):
            ok, f = self.class_attr(v.mod, v.cls, '__iter__')
            if ok and isinstance(f, PFunc):
                return self.iterate(self.apply(f.bind(v), [], {}), loc)
        if isinstance(v, (PObj, PClass, PMod, PFunc)):
            # an object of the program whose iteration the evaluator does not model: a gap of the analysis, not an error of the program
            raise AnalysisError('abstract evaluation: iteration over %r at %s is outside the abstraction' % (v, loc))
        try:
            return iter(v)
        except TypeError:
            raise Raised('TypeError: %r is not iterable' % (v,), loc)

    def binop(self, op, l, r, loc, inplace=False):
        try:
            if isinstance(op, ast.Add):
                if inplace and isinstance(l, list):
                    l.extend(r)
                    return l
                return l + r
            if isinstance(op, ast.Sub):
                return l - r
            if isinstance(op, ast.Mult):
                return l * r
            if isinstance(op, ast.FloorDiv):
                return l // r
            if isinstance(op, ast.Div):
                return l / r
            if isinstance(op, ast.Mod):
                return l % r
            if isinstance(op, ast.Pow):
                return l ** r
            if isinstance(op, ast.LShift):
                return l << r
            if isinstance(op, ast.RShift):
                return l >> r
            if isinstance(op, ast.BitAnd):
                return l & r
            if isinstance(op, ast.BitOr):
                if inplace and isinstance(l, (set, dict)):
                    l.update(r)
                    return l
                return l | r
            if isinstance(op, ast.BitXor):
                return l ^ r
        except (TypeError, ValueError, ZeroDivisionError, KeyError) as x:
            raise Raised('%s: %s' % (type(x).__name__, x), loc)
        raise AnalysisError('abstract evaluation: operator %s at %s' % (type(op).__name__, loc))

    def compare(self, op, l, r, loc):
        try:
            if isinstance(op, ast.Eq):
                return l == r
            if isinstance(op, ast.NotEq):
                return l != r
            if isinstance(op, ast.Lt):
                return l < r
            if isinstance(op, ast.LtE):
                return l <= r
            if isinstance(op, ast.Gt):
                return l > r
            if isinstance(op, ast.GtE):
                return l >= r
            if isinstance(op, ast.In):
                return l in r
            if isinstance(op, ast.NotIn):
                return l not in r
            if isinstance(op, ast.Is):
                return l is r
            if isinstance(op, ast.IsNot):
                return l is not r
        except TypeError as x:
            raise Raised('TypeError: %s' % x, loc)
        raise AnalysisError('abstract evaluation: comparison %s at %s' % (type(op).__name__, loc))

    def comprehension(self, n, env, mod, cls, depth):
        out = []
        inner = Env(env)

        def rec(i):
            if i == len(n.generators):
                if isinstance(n, ast.DictComp):
                    out.append((self.expr(n.key, inner, mod, cls, depth), self.expr(n.value, inner, mod, cls, depth)))
                else:
                    out.append(self.expr(n.elt, inner, mod, cls, depth))
                return
            g = n.generators[i]
            for item in list(self.iterate(self.expr(g.iter, inner, mod, cls, depth), self.L(mod, n))):
                self.steps += 1
                if self.steps > self.max_steps:
                    raise AnalysisError('abstract evaluation: step budget exhausted at %s' % self.L(mod, n))
                self.store(g.target, item, inner, mod, cls, depth)
                if all(self.truth(self.expr(c, inner, mod, cls, depth)) for c in g.ifs):
                    rec(i + 1)
        rec(0)
        if isinstance(n, ast.DictComp):
            return dict(out)
        if isinstance(n, ast.SetComp):
            return set(out)
        if isinstance(n, ast.GeneratorExp):
            return iter(out)         # evaluated eagerly (the interpreted generators are pure), but consumed like a generator
        return out

    def attribute(self, o, name, mod, loc):
        if isinstance(o, PObj):
            if name in o.attrs:
                return o.attrs[name]
            ok, v = self.class_attr(o.mod, o.cls, name)
            if ok:
                if isinstance(v, PFunc) and 'property' in _decorators(v.node):
                    return self.apply(v.bind(o), [], {})          # @property: reading the attribute runs the getter
                return v.bind(o) if isinstance(v, PFunc) else v
            if name == '__class__':
                return PClass(o.mod, o.mod.classes[o.cls])
            if name == '_replace':
                def repl(**kw):
                    c = PObj(o.mod, o.cls, o.attrs)
                    c.attrs.update(kw)
                    return c
                return repl
            raise AnalysisError('abstract evaluation: attribute %s of %r is not part of the abstraction (%s)' % (name, o, loc))
        if isinstance(o, PClass):
            en_ = self.enum_of(o)
            if en_ is not None and name in en_.__members__:
                return en_[name]
            if en_ is not None and name == '__members__':
                return dict(en_.__members__)
            ok, v = self.class_attr(o.mod, o.name, name)
            if ok:
                if isinstance(v, PFunc) and 'classmethod' in _decorators(v.node):
                    return v.bind(o)          # a class method named through the class: bound to that class
                return v
            if name == '__new__':
                return lambda cls_, *a, **k: PObj(cls_.mod, cls_.name)      # an instance whose __init__ has not run
            if name == '__name__':
                return o.name
            raise AnalysisError('abstract evaluation: %s.%s at %s' % (o.name, name, loc))
        if isinstance(o, PMod):
            dotted = o.dotted + '.' + name
            if dotted in self.intr:
                return self.intr[dotted]
            v = _pure_object(dotted)
            if v is not None and not callable(v) and isinstance(v, _SAFE_TYPES):
                return v                      # a constant of a side-effect-free library module (calendar.MONDAY, string.digits)
            return PMod(dotted)
        if isinstance(o, tuple) and len(o) == 2 and o[0] == 'module':
            return self.global_name(o[1], name, loc)
        if isinstance(o, type) and o in (_datetime.datetime, _datetime.timezone, _datetime.timedelta, _datetime.date) and not name.startswith('_'):
            if name in ('now', 'today', 'utcnow'):
                raise AnalysisError('abstract evaluation: %s.%s at %s reads the clock' % (o.__name__, name, loc))
            return getattr(o, name)
        if isinstance(o, tuple) and name in ('_replace', '_asdict', '_fields') and hasattr(o, '_fields'):
            return getattr(o, name)
        if isinstance(o, _SAFE_TYPES) and not name.startswith('_'):
            try:
                return getattr(o, name)
            except AttributeError:
                raise Raised('AttributeError: %s has no attribute %s' % (type(o).__name__, name), loc)
        if o is None:
            raise Raised("AttributeError: 'NoneType' object has no attribute %r" % name, loc)
        import enum as _enum
        if isinstance(o, _enum.Enum) and name in ('name', 'value'):
            return getattr(o, name)
        if isinstance(o, _re.Match) and name in ('group', 'groups', 'start', 'end', 'span', 'groupdict', 'lastindex', 'string'):
            return getattr(o, name)
        if isinstance(o, __import__('io').StringIO) and name in ('write', 'getvalue', 'writelines', 'read', 'readline', 'readlines', 'seek', 'tell', 'close', 'truncate'):
            return getattr(o, name)          # an in-memory text buffer
        if isinstance(o, _re.Pattern) and name in ('sub', 'subn', 'match', 'search', 'fullmatch', 'split', 'findall', 'pattern', 'flags'):
            return getattr(o, name)          # a compiled pattern: its methods are those of the re module
        if name in getattr(o, 'pyeval_native', ()):
            return getattr(o, name)          # an object the checker hands to the program (a file being written, ...)
        raise AnalysisError('abstract evaluation: attribute %s of %r at %s' % (name, o, loc))

    def expr(self, n, env, mod, cls, depth):
        loc = self.L(mod, n)
        ev = lambda x: self.expr(x, env, mod, cls, depth)
        if isinstance(n, ast.Constant):
            return n.value
        if isinstance(n, ast.Name):
            ok, v = env.lookup(n.id)
            if ok:
                return v
            if n.id in ('True', 'False', 'None'):
                return {'True': True, 'False': False, 'None': None}[n.id]
            if n.id in mod.funcs or n.id in mod.classes or n.id in mod.consts or n.id in mod.imports:
                return self.global_name(mod, n.id, loc)
            if n.id in self.intr:
                return self.intr[n.id]
            if n.id in _BUILTINS:
                return _BUILTINS[n.id]
            if n.id in _TYPES:
                return _TYPES[n.id]
            if n.id == 'isinstance':
                return lambda v, t: isinstance(v, t) if isinstance(t, (type, tuple)) else (isinstance(v, PObj) and isinstance(t, PClass) and v.cls == t.name)
            if n.id == 'cast':
                return lambda t, v: v
            if n.id in ('getattr', 'hasattr', 'setattr'):
                def ga(o, name, *d):
                    try:
                        return self.attribute(o, name, mod, loc)
                    except (AnalysisError, Raised):
                        if d:
                            return d[0]
                        raise
                if n.id == 'getattr':
                    return ga
                if n.id == 'hasattr':
                    return lambda o, name: isinstance(o, PObj) and (name in o.attrs or self.class_attr(o.mod, o.cls, name)[0])
                return lambda o, name, v: o.attrs.__setitem__(name, v)
            raise AnalysisError('abstract evaluation: unbound name %s at %s' % (n.id, loc))
        if isinstance(n, ast.Attribute):
            return self.attribute(ev(n.value), n.attr, mod, loc)
        if isinstance(n, ast.Subscript):
            o = ev(n.value)
            if isinstance(o, PMod) and o.dotted.startswith('typing.'):
                return o                 # Tuple[int, int], Optional[X] ... used as a value: a type, nothing to compute
            i = ev(n.slice)
            try:
                return o[i]
            except (KeyError, IndexError, TypeError) as x:
                raise Raised('%s: %s' % (type(x).__name__, x), loc)
        if isinstance(n, ast.Slice):
            return slice(ev(n.lower) if n.lower else None, ev(n.upper) if n.upper else None, ev(n.step) if n.step else None)
        if isinstance(n, ast.UnaryOp):
            v = ev(n.operand)
            if isinstance(n.op, ast.Not):
                return not self.truth(v)
            if isinstance(n.op, ast.USub):
                return -v
            if isinstance(n.op, ast.UAdd):
                return +v
            return ~v
        if isinstance(n, ast.BinOp):
            return self.binop(n.op, ev(n.left), ev(n.right), loc)
        if isinstance(n, ast.BoolOp):
            v = None
            for x in n.values:
                v = ev(x)
                if isinstance(n.op, ast.And) and not self.truth(v):
                    return v
                if isinstance(n.op, ast.Or) and self.truth(v):
                    return v
            return v
        if isinstance(n, ast.Compare):
            l = ev(n.left)
            for op, r_ in zip(n.ops, n.comparators):
                r = ev(r_)
                if not self.compare(op, l, r, loc):
                    return False
                l = r
            return True
        if isinstance(n, ast.IfExp):
            return ev(n.body) if self.truth(ev(n.test)) else ev(n.orelse)
        if isinstance(n, (ast.List, ast.Tuple, ast.Set)):
            vals = []
            for x in n.elts:
                if isinstance(x, ast.Starred):
                    vals.extend(self.iterate(ev(x.value), loc))
                else:
                    vals.append(ev(x))
            return vals if isinstance(n, ast.List) else tuple(vals) if isinstance(n, ast.Tuple) else set(vals)
        if isinstance(n, ast.Dict):
            d = {}
            for k, v in zip(n.keys, n.values):
                if k is None:
                    d.update(ev(v))
                else:
                    d[ev(k)] = ev(v)
            return d
        if isinstance(n, (ast.ListComp, ast.SetComp, ast.GeneratorExp, ast.DictComp)):
            return self.comprehension(n, env, mod, cls, depth)
        if isinstance(n, ast.JoinedStr):
            out = []
            for v in n.values:
                if isinstance(v, ast.Constant):
                    out.append(str(v.value))
                else:
                    val = ev(v.value)
                    if v.conversion == ord('r'):
                        val = repr(val)
                    elif v.conversion == ord('s'):
                        val = str(val)
                    spec = ev(v.format_spec) if v.format_spec is not None else ''
                    try:
                        out.append(format(val, spec))
                    except (TypeError, ValueError) as x:
                        raise Raised('%s: %s' % (type(x).__name__, x), loc)
            return ''.join(out)
        if isinstance(n, ast.Lambda):
            return PFunc(self, mod, n, cls=cls, closure=env)
        if isinstance(n, ast.NamedExpr):
            v = ev(n.value)
            self.store(n.target, v, env, mod, cls, depth)
            return v
        if isinstance(n, ast.Call):
            f = ev(n.func)
            args = []
            for a in n.args:
                if isinstance(a, ast.Starred):
                    args.extend(self.iterate(ev(a.value), loc))
                else:
                    args.append(ev(a))
            kwargs = {}
            for kw in n.keywords:
                if kw.arg is None:
                    kwargs.update(ev(kw.value))
                else:
                    kwargs[kw.arg] = ev(kw.value)
            if isinstance(f, PMod):
                if f.dotted in self.intr:
                    return self.apply(self.intr[f.dotted], args, kwargs, depth)
                if f.dotted.split('.')[-1] == 'NamedTuple' and len(args) == 2 and isinstance(args[0], str):
                    import collections
                    return collections.namedtuple(args[0], [x[0] for x in args[1]])
                if f.dotted.split('.')[-1] == 'TypedDict':
                    return dict
                if f.dotted.split('.')[-1] in ('NamedTuple', 'TypeVar', 'NewType'):
                    return None
                if f.dotted in ('sys.exit', 'exit'):
                    raise Raised('SystemExit', loc)
                pure = _pure_object(f.dotted)
                if pure is not None and callable(pure):
                    self.steps += 1
                    return self.apply(pure, args, kwargs, depth)
                raise AnalysisError('abstract evaluation: call of %s at %s is outside the abstraction' % (f.dotted, loc))
            self.steps += 1
            return self.apply(f, args, kwargs, depth)
        if isinstance(n, ast.Yield):
            if not getattr(self, '_yields', None):
                raise AnalysisError('abstract evaluation: yield outside a generator at %s' % loc)
            if isinstance(self._yields[-1], _CtxFrame):
                frame = self._yields[-1]
                if frame.entered:
                    raise Raised("RuntimeError: generator didn't stop", loc)
                frame.entered = True
                frame.body(ev(n.value) if n.value is not None else None)
                return None
            self._yields[-1].append(ev(n.value) if n.value is not None else None)
            return None
        if isinstance(n, ast.YieldFrom):
            if not getattr(self, '_yields', None):
                raise AnalysisError('abstract evaluation: yield outside a generator at %s' % loc)
            self._yields[-1].extend(self.iterate(ev(n.value), loc))
            return None
        if isinstance(n, ast.Starred):
            raise AnalysisError('abstract evaluation: starred expression at %s' % loc)
        raise AnalysisError('abstract evaluation: expression kind %s at %s' % (type(n).__name__, loc))
