"""E-SEQ: explicit-state abstract evaluation of (Python) IR over a small abstract input alphabet.

The evaluator interprets the shared IR - not the program - over values drawn from a finite abstract domain chosen by the
rule (ranks instead of date tuples, a status symbol instead of a comparison against real zone data).  Calls are
resolved in this order: intrinsics supplied by the rule (the abstraction of an operation whose concrete meaning another
rule decides), functions of the analysed module (interpreted through their own IR, bounded depth), a few container
methods.  Anything else fails closed with AnalysisError: the rule never guesses what unknown code does.

It is used to compare sibling implementations of one interface on every abstract input sequence of a stated family.
"""
from .common import AnalysisError
from .ir import show


class AObj:
    """Abstract heap object: attribute dictionary plus an origin id that survives copy()."""
    _n = 0

    def __init__(self, attrs=None, oid=None, cls=None, ftypes=None):
        AObj._n += 1
        self.attrs = dict(attrs or {})
        self.oid = oid if oid is not None else 'o%d' % AObj._n
        self.cls = cls
        self.ftypes = ftypes      # typed evaluation: field name -> (bits, signed); stores wrap to the field's width

    def copy(self):
        return AObj(self.attrs, self.oid, self.cls, self.ftypes)

    def __repr__(self):
        return '<%s %r>' % (self.oid, self.attrs)


class Ref:
    """Abstract pointer to a storage cell: (container, key) - a list slot, an attribute of an object, a local."""

    def __init__(self, box, key):
        self.box, self.key = box, key

    def get(self):
        if isinstance(self.box, list) and isinstance(self.key, int) and self.key < 0:
            raise IndexError('negative subscript')
        return self.box[self.key]

    def set(self, v):
        if isinstance(self.box, list) and isinstance(self.key, int) and self.key < 0:
            raise IndexError('negative subscript')
        self.box[self.key] = v

    def moved(self, k):
        """pointer arithmetic on a pointer into an array"""
        return Ref(self.box, self.key + k)

    def __eq__(self, o):
        return isinstance(o, Ref) and self.box is o.box and self.key == o.key

    def __ne__(self, o):
        return not self.__eq__(o)

    def __hash__(self):
        return hash((id(self.box), self.key if isinstance(self.key, (int, str)) else id(self.key)))


class FnRef:
    """pointer to a function of the module"""

    def __init__(self, q, nparams=None):
        self.q, self.nparams = q, nparams        # nparams: set for pointers to member functions (picks the overload)

    def __eq__(self, o):
        return isinstance(o, FnRef) and o.q == self.q and o.nparams == self.nparams

    def __hash__(self):
        return hash(('fnref', self.q, self.nparams))

    def __repr__(self):
        return '<&%s>' % self.q


class Text(list):
    """an abstract C string: character codes followed by the terminator; records which positions were read through the
    evaluator (the length scan of strlen does not count)."""

    def __init__(self, s):
        list.__init__(self, [ord(c) for c in s] + [0])
        self.reads = set()

    def __getitem__(self, i):
        if isinstance(i, int):
            self.reads.add(i)
        return list.__getitem__(self, i)

    def length(self):
        n = 0
        while list.__getitem__(self, n) != 0:
            n += 1
        return n


def _mutable_ref(t):
    """the parameter type is a reference through which the callee can assign: `T &`, `const char *&` (a reference to a
    pointer to const), but not `const T &` nor `T *const &`"""
    if not t or not t.rstrip().endswith('&'):
        return False
    base = t.rstrip()[:-1].rstrip()
    if base.endswith('*'):
        return True
    if '*' in base:
        return 'const' not in base[base.rindex('*'):]
    return not (base.startswith('const ') or base.endswith(' const'))


class CxxModule:
    """the functions of the C++ library under the module interface the evaluator expects: qualified name -> body,
    parameter names, parameter types and the indexes of the parameters bound by (non-const) reference.  Overloads are
    kept apart by arity ('name/2'); the plain name is the first overload."""

    class _Fn:
        """one function: parameter names / types, reference parameters, body (lowered on first use)"""

        def __init__(self, f):
            self.f = f
            self.params = [p for p, _t in f.params]
            self.ptypes = [t for _p, t in f.params]
            self.loc = f.loc
            self.byref = tuple(i for i, (_p, t) in enumerate(f.params) if _mutable_ref(t))
            self.defaults = f.defaults

        @property
        def body(self):
            return self.f.body

    def __init__(self, lib, prefixes):
        self.funcs = {}
        self.overloads = {}
        self.lib = lib            # constants of the library are folded through it
        for q in list(lib.funcs) + list(getattr(lib, 'helpers', {})):
            if not q.startswith(tuple(prefixes)):
                continue
            for f in lib.fns(q):                 # instantiations, not the template pattern
                ns = CxxModule._Fn(f)
                self.funcs.setdefault(q, ns)
                self.funcs.setdefault('%s/%d' % (q, len(f.params)), ns)
                self.overloads.setdefault('%s/%d' % (q, len(f.params)), []).append(ns)
                for n_ in range(f.required, len(f.params)):
                    # callable with fewer arguments: the trailing parameters have default values
                    self.funcs.setdefault('%s/%d' % (q, n_), ns)
                    self.overloads.setdefault('%s/%d' % (q, n_), []).append(ns)

    def select(self, qname, nargs, argtypes, raw=None):
        """the overload / instantiation the compiler resolved the call to (the declaration the call expression refers to), else the
        one whose reference parameters have the integer types of the arguments bound to them"""
        from .cxx import int_type
        cands = self.overloads.get('%s/%d' % (qname, nargs), [])
        if raw is not None and len(cands) > 1:
            did = _callee_decl(raw)
            if did is not None:
                for ns in cands:
                    if did in (ns.f.node.get('id'), ns.f.node.get('previousDecl')):
                        return ns           # the definition itself, or the definition of the declaration the call names
        for ns in cands:
            ok = True
            for i in ns.byref:
                if i < len(argtypes) and argtypes[i] is not None:
                    if int_type((ns.ptypes[i] or '').replace('&', '').strip()) != argtypes[i]:
                        ok = False
            if ok:
                return ns
        return cands[0] if cands else None


def _callee_decl(raw):
    """id of the function declaration a clang call expression was resolved to, if it names one"""
    inner = raw.get('inner') or []
    if raw.get('kind') not in ('CallExpr', 'CXXMemberCallExpr', 'CXXOperatorCallExpr') or not inner:
        return None
    c = inner[0]
    while c.get('kind') in ('ImplicitCastExpr', 'ParenExpr') and c.get('inner'):
        c = c['inner'][-1]
    if c.get('kind') == 'DeclRefExpr':
        return (c.get('referencedDecl') or {}).get('id')
    if c.get('kind') == 'MemberExpr':
        return c.get('referencedMemberDecl')
    return None


def _re_word(word, text):
    """does `word` occur in `text` as a whole identifier (TimeZone in `const TimeZone &`, not in `TimeZoneData`)?"""
    import re
    return re.search(r'(?<![A-Za-z0-9_])%s(?![A-Za-z0-9_])' % re.escape(word), text) is not None


def _copy_value(o, depth=0):
    """copy of an object of class type: fields of class type are copied in turn, pointers are shared"""
    c = AObj({}, oid=o.oid, cls=o.cls, ftypes=o.ftypes)
    c.ptrs = getattr(o, 'ptrs', frozenset())
    for k, v in o.attrs.items():
        if isinstance(v, AObj) and depth < 8 and k not in c.ptrs:
            c.attrs[k] = _copy_value(v, depth + 1)
        elif isinstance(v, list) and k not in c.ptrs and depth < 8:
            # an array member is part of the value (char abbrev[7], DateTuple t[2]): its cells are copied, cells that hold pointers
            # keep pointing where they did
            c.attrs[k] = [_copy_value(x, depth + 1) if isinstance(x, AObj) else x for x in v]
        else:
            c.attrs[k] = v
    return c


def _targs_key(text):
    """the template arguments of `Name<a, &ns::b, 3>` (or of the argument list a Func records for its instantiation) as a
    tuple of bare spellings ('a', 'b', '3'): the two sources spell qualified names differently"""
    if text is None:
        return None
    if '<' in text and text.rstrip().endswith('>'):
        text = text[text.index('<') + 1: text.rstrip().rindex('>')]
    parts, cur, d_ = [], [], 0
    for ch in text:
        if ch in '<(':
            d_ += 1
        elif ch in '>)':
            d_ -= 1
        if ch == ',' and d_ == 0:
            parts.append(''.join(cur))
            cur = []
        else:
            cur.append(ch)
    parts.append(''.join(cur))
    out = []
    for p_ in parts:
        p_ = p_.strip().lstrip('&').strip()
        if '<' not in p_ and '(' not in p_:
            p_ = p_.split('::')[-1]
        out.append(p_.replace('const ', '').strip())
    return tuple(out)


class MemPtr:
    """pointer to a data member: the name of the member"""

    def __init__(self, name):
        self.name = name

    def __eq__(self, o):
        return isinstance(o, MemPtr) and o.name == self.name

    def __hash__(self):
        return hash(('memptr', self.name))

    def __repr__(self):
        return '<&::%s>' % self.name


def freeze(v, depth=0):
    """a hashable picture of a value: an object is the values of its members (members of pointer type: the identity of what they
    point to), an array the pictures of its cells"""
    if isinstance(v, AObj):
        ptrs = getattr(v, 'ptrs', frozenset())
        items = []
        for k in sorted(v.attrs, key=str):
            x = v.attrs[k]
            if k in ptrs and x is not None and not isinstance(x, (int, str)):
                items.append((k, ('ptr', x.oid if isinstance(x, AObj) and x.oid else id(x))))
            else:
                items.append((k, freeze(x, depth + 1) if depth < 10 else ('id', id(x))))
        return ('obj', v.cls, tuple(items))
    if isinstance(v, list):
        return ('list',) + tuple(freeze(x, depth + 1) for x in v)
    if isinstance(v, tuple):
        return tuple(freeze(x, depth + 1) for x in v)
    if v is None or isinstance(v, (bool, int, str)):
        return v
    if isinstance(v, Ref):
        return ('ref', id(v.box), freeze(v.key) if not isinstance(v.key, (int, str)) else v.key)
    try:
        hash(v)
        return v
    except TypeError:
        return ('id', id(v))


def cxx_object(lib, cls, depth=0):
    """an abstract object of a C++ class of the library: integer fields 0, pointer fields null, fields of class type
    nested objects of the same kind (their declared integer widths recorded for typed evaluation)"""
    from .cxx import int_type
    attrs, ftypes = {}, {}
    for n, t, _x in lib.fields(cls):
        it = int_type(t)
        if it:
            attrs[n] = 0
            ftypes[n] = it
        elif t and ('*' in t or '&' in t):
            attrs[n] = None
        else:
            sub = (t or '').replace('const ', '').strip()
            attrs[n] = cxx_object(lib, sub, depth + 1) if (depth < 6 and lib.classes.get(sub)) else None
    o = AObj(attrs, cls=cls, ftypes=ftypes)
    o.ptrs = frozenset(n for n, t, _x in lib.fields(cls) if t and '*' in t)
    return o


class Raised(Exception):
    def __init__(self, what, loc):
        Exception.__init__(self, what)
        self.what, self.loc = what, loc


class _Return(Exception):
    def __init__(self, v):
        self.v = v


class _Break(Exception):
    pass


class _Continue(Exception):
    pass


class AEval:
    def __init__(self, module=None, intrinsics=None, max_depth=80, max_steps=200000, typed=False, long_bits=None):
        import sys
        if sys.getrecursionlimit() < 20000:
            sys.setrecursionlimit(20000)          # a loop written as a tail recursion nests one interpreter activation per round
        self.module = module
        # long_bits=32: `long` / `unsigned long` are given the width they have on the 8- and 32-bit targets of the library (the
        # parser runs with the host's LP64 model, where they are 64 bits wide)
        self.long_bits = long_bits
        self.intr = intrinsics or {}
        self.max_depth = max_depth
        self.max_steps = max_steps
        self.steps = 0
        # typed: C++ IR - integer locals, parameters and conversions wrap to their declared width; parameters declared as
        # non-const references are bound to the caller's storage cell
        self.typed = typed

    @staticmethod
    def _wrap(v, it):
        if it is None or isinstance(v, bool) or not isinstance(v, int):
            return v
        bits, signed = it
        v &= (1 << bits) - 1
        if signed and v >= 1 << (bits - 1):
            v -= 1 << bits
        return v

    def _ity(self, ty):
        if not self.typed or not ty:
            return None
        from .cxx import int_type
        it = int_type(ty.replace('&', '').strip())
        if it is not None and self.long_bits and it[0] == 64 and self._is_long(ty):
            it = (self.long_bits, it[1])
        return it

    @staticmethod
    def _is_long(ty):
        t_ = (ty or '').replace('const', '').replace('&', '').replace('volatile', '').strip()
        return t_ in ('long', 'unsigned long', 'long int', 'unsigned long int', 'long unsigned int')

    def ref_of(self, e, env, depth):
        """storage cell of an l-value expression"""
        while e.k == 'cast':
            e = e.a[2]
        if e.k == 'var' and e.a[0] in env:
            cur = env[e.a[0]]
            return cur if isinstance(cur, Ref) and env.get('\x00ref:' + e.a[0]) else Ref(env, e.a[0])
        if e.k == 'index':
            b_, i_ = self.ev(e.a[0], env, depth), self.ev(e.a[1], env, depth)
            if isinstance(b_, Ref) and isinstance(b_.box, list) and isinstance(i_, int):
                return b_.moved(i_)          # p[i] with p a pointer into an array
            return Ref(b_, i_)
        if e.k == 'field':
            o = self.ev(e.a[0], env, depth)
            if isinstance(o, AObj):
                return Ref(o.attrs, e.a[1])
        if e.k == 'deref':
            p = self.ev(e.a[0], env, depth)
            if isinstance(p, Ref):
                return p
            if self.typed and isinstance(p, list):
                return Ref(p, 0)         # *array: its first element
        if e.k == 'memfield':
            o, name = self._memfield(e, env, depth)
            return Ref(o.attrs, name)
        raise AnalysisError('abstract evaluation: %s is passed by reference but is not a storage cell (%s)' % (show(e), e.loc))

    def _global_object(self, q):
        """a constant of class type defined with an initialiser list (`const ZoneEra kAnchorEra = { nullptr, nullptr, 0, ... }`):
        one object per library, its members filled in declaration order with the folded initialisers (nullptr -> null)"""
        lib = getattr(self.module, 'lib', None)
        if lib is None:
            return None
        cache = lib.__dict__.setdefault('_global_objects', {})
        if q in cache:
            return cache[q]
        obj = None
        for d in lib.decls.get(q, []):
            if d.get('kind') != 'VarDecl' or 'init' not in d:
                continue
            il = [x for x in d.get('inner', []) if x.get('kind') == 'InitListExpr']
            from .cxx import nty, int_type
            cls = (nty(d) or '').replace('const ', '').strip()
            try:
                flds = lib.fields(cls)
            except Exception:
                flds = None
            if not il or not flds:
                continue
            vals = il[0].get('inner', [])
            attrs, ftypes = {}, {}
            for i, (n_, t_, _x) in enumerate(flds):
                v_ = lib.fold_node(vals[i]) if i < len(vals) else 0
                if t_ and '*' in t_:
                    v_ = None if not v_ else v_
                attrs[n_] = v_ if v_ is not None or (t_ and '*' in t_) else 0
                if int_type((t_ or '').replace('const ', '').strip()):
                    ftypes[n_] = int_type((t_ or '').replace('const ', '').strip())
            obj = AObj(attrs, oid=q.split('::')[-1], cls=cls, ftypes=ftypes)
            obj.ptrs = frozenset(n_ for n_, t_, _x in flds if t_ and '*' in t_)
            break
        cache[q] = obj
        return obj

    # -- calls --------------------------------------------------------------------------------
    def call_function(self, qname, args, depth=0, recv=None, chosen=None):
        f = chosen
        if f is None and self.module is not None:
            f = self.module.funcs.get('%s/%d' % (qname, len(args))) or self.module.funcs.get(qname)
        if f is None:
            raise AnalysisError('abstract evaluation: no body for %s' % qname)
        if depth > self.max_depth:
            raise AnalysisError('abstract evaluation: call depth exceeded at %s' % qname)
        params = list(f.params)
        env = {}
        if params and params[0] == 'self' and len(args) == len(params) - 1:
            env['self'] = recv if recv is not None else AObj({'debug': False})
            params = params[1:]
        elif recv is not None:
            env['self'] = recv          # C++ member function: `this`
        if len(args) < len(params) and self.typed:
            # trailing arguments left out: the default arguments of the declaration, evaluated at the call
            dfl = getattr(f, 'defaults', None) or []
            lib_ = getattr(self.module, 'lib', None)
            args = list(args)
            while len(args) < len(params) and len(args) < len(dfl) and dfl[len(args)] is not None and lib_ is not None:
                from .cxx import Lowerer
                args.append(self.ev(Lowerer(lib_).expr(dfl[len(args)]), {}, depth + 1))
        if len(params) != len(args):
            raise AnalysisError('abstract evaluation: %s takes %d arguments, %d given' % (qname, len(params), len(args)))
        ptypes = getattr(f, 'ptypes', None) or [None] * len(params)
        for p_, v_, t_ in zip(params, args, ptypes):
            it = self._ity(t_)
            if isinstance(v_, Ref) and _mutable_ref(t_):
                env[p_] = v_
                env['\x00ref:' + p_] = True
            else:
                env[p_] = self._wrap(v_, it)
            if it is not None:
                env['\x00ty:' + p_] = it
            if t_ and '*' in t_:
                env['\x00ptr:' + p_] = True
        try:
            self.block(f.body, env, depth)
        except _Return as r:
            return r.v
        return None

    # -- statements ---------------------------------------------------------------------------
    def block(self, stmts, env, depth):
        dl = env.get('\x00dtors')
        mark = len(dl) if dl else 0
        try:
            for s in stmts:
                self.stmt(s, env, depth)
        except (_Return, _Break, _Continue):
            if env.get('\x00dtors'):
                self._unwind(env, mark, depth)
            raise
        if env.get('\x00dtors'):
            self._unwind(env, mark, depth)

    def _unwind(self, env, mark, depth):
        """leaving a block: the destructors of the objects declared in it run, last declared first (a scope guard writes back
        what it holds)"""
        dl = env['\x00dtors']
        while len(dl) > mark:
            obj, fn = dl.pop()
            self.call_function(fn.f.name if hasattr(fn, 'f') else '~', [], depth + 1, recv=obj, chosen=fn)

    def _dtor_of(self, cls, inst=None):
        """the user-written destructor of a class, if it has one with a body that does something"""
        mod = self.module
        if mod is None or not hasattr(mod, 'funcs') or not cls:
            return None
        cache = mod.__dict__.setdefault('_dtors', {})
        if (cls, inst) in cache:
            return cache[(cls, inst)]
        if inst is not None:
            short = cls.split('::')[-1]
            found = None
            for f_ in mod.overloads.get('%s::~%s/0' % (cls, short), []):
                if _targs_key(f_.f.inst) == inst and f_.body:
                    found = f_
            cache[(cls, inst)] = found
            return found
        bare, d_ = [], 0
        for ch in cls:
            if ch == '<':
                d_ += 1
            elif ch == '>':
                d_ -= 1
            elif d_ == 0:
                bare.append(ch)
        found = None
        for c_ in (cls, ''.join(bare)):
            short = c_.split('::')[-1]
            cands = [mod.funcs.get('%s::~%s/0' % (c_, short))]
            if '::' not in c_:
                # a class named without its scope (a struct local to a function, a nested class named from inside its owner)
                cands += [f_ for q_, f_ in mod.funcs.items() if q_.endswith('::%s::~%s/0' % (short, short))]
            for f_ in cands:
                if f_ is not None and f_.body:
                    found = f_
                    break
            if found:
                break
        cache[(cls, inst)] = found
        return found

    def stmt(self, s, env, depth):
        self.steps += 1
        if self.steps > self.max_steps:
            raise AnalysisError('abstract evaluation: step budget exhausted at %s' % s.loc)
        k, a = s.k, s.a
        if k == 'assign':
            v = self.ev(a[1], env, depth)
            if a[2] != '=':
                cur = self.ev(a[0], env, depth)
                v = self.binop(a[2][:-1], cur, v, s.loc)
            self.store(a[0], v, env, depth)
        elif k == 'decl' and self.typed and a[2] is not None and _mutable_ref(a[1]) and not ((a[1] or '').rstrip().endswith('&&') and self._is_temporary(a[2])):
            # T& x = <lvalue>: the name designates the storage of the initialiser
            it = self._ity((a[1] or '').rstrip()[:-1])
            src_ = a[2]
            while src_.k == 'cast':
                src_ = src_.a[2]
            if src_.k == 'call' and it is None:
                # T& x = f(...): a reference to the object a function hands out (a slot of a pool, a member) - objects are shared by
                # identity in the abstraction, so the name simply designates that object; a reference to an integer cell is not followed
                v_ = self.ev(a[2], env, depth)
                if isinstance(v_, Ref):
                    v_ = v_.get()
                if not isinstance(v_, AObj):
                    raise AnalysisError('abstract evaluation: %s is bound to the result of a call that is not an object (%s)' % (a[0], s.loc))
                env[a[0]] = v_
                env.pop('\x00ref:' + a[0], None)
                env.pop('\x00ptr:' + a[0], None)
                return
            env[a[0]] = self.ref_of(a[2], env, depth)
            env['\x00ref:' + a[0]] = True
            if it is not None:
                env['\x00ty:' + a[0]] = it
            env.pop('\x00ptr:' + a[0], None)
        elif k == 'decl':
            it = self._ity(a[1])
            env[a[0]] = self._wrap(self.ev(a[2], env, depth), it) if a[2] is not None else None
            if self.typed and a[2] is not None and isinstance(env[a[0]], AObj) and env[a[0]].cls and a[1] and '*' not in a[1] and '&' not in a[1]:
                src_ = a[2]
                while src_.k == 'cast':
                    src_ = src_.a[2]
                if src_.k in ('var', 'field', 'index', 'deref'):
                    env[a[0]] = _copy_value(env[a[0]])       # `T x = <lvalue>;` makes a copy (the copy constructor is elided in the IR)
            if a[2] is None and self.typed and a[1] and a[1].rstrip().endswith(']'):
                # `T name[N];` - a local array without initialiser: N cells (objects of class type are default-made)
                import re as _re
                m_ = _re.match(r'^(.*?)\s*\[(\d+)\]\s*$', a[1])
                if m_:
                    elem, n_ = m_.group(1).replace('const ', '').strip(), int(m_.group(2))
                    lib_ = getattr(self.module, 'lib', None)
                    if self._ity(elem) is not None or lib_ is None:
                        env[a[0]] = [0] * n_
                    else:
                        try:
                            env[a[0]] = [cxx_object(lib_, elem if elem.startswith('ace_') else 'ace_time::' + elem) for _ in range(n_)]
                        except Exception:
                            env[a[0]] = [None] * n_
            env.pop('\x00ref:' + a[0], None)
            if it is not None:
                env['\x00ty:' + a[0]] = it
            if self.typed and a[1] and '*' in a[1]:
                env['\x00ptr:' + a[0]] = True
            else:
                env.pop('\x00ptr:' + a[0], None)
                if self.typed and a[1] and not a[1].rstrip().endswith('&') and isinstance(env[a[0]], AObj) and env[a[0]].cls:
                    d_ = self._dtor_of(env[a[0]].cls, getattr(env[a[0]], 'inst', None))
                    if d_ is not None:
                        env.setdefault('\x00dtors', []).append((env[a[0]], d_))     # runs when the enclosing block is left
        elif k == 'expr':
            self.ev(a[0], env, depth)
        elif k == 'if':
            if self.truth(self.ev(a[0], env, depth)):
                self.block(a[1], env, depth)
            else:
                self.block(a[2], env, depth)
        elif k == 'return':
            raise _Return(self.ev(a[0], env, depth) if a[0] is not None else None)
        elif k == 'raise':
            raise Raised(show(a[0]) if a[0] is not None else 'raise', s.loc)
        elif k == 'loop':
            kind, init, cond, step, body = a
            if kind == 'foreach':
                tgt, it = init[0].a[0], init[0].a[1]
                seq = self.ev(it.a[0] if it.k == 'iter' else it, env, depth)
                if isinstance(seq, dict):
                    seq = list(seq.keys())
                for item in list(seq):
                    self.store(tgt, item, env, depth)
                    try:
                        self.block(body, env, depth)
                    except _Break:
                        break
                    except _Continue:
                        continue
            else:
                self.block(init, env, depth)
                n = 0
                while cond is None or self.truth(self.ev(cond, env, depth)):
                    n += 1
                    if n > 10000:
                        raise AnalysisError('abstract evaluation: loop at %s does not terminate on the abstract input' % s.loc)
                    try:
                        self.block(body, env, depth)
                    except _Break:
                        break
                    except _Continue:
                        pass
                    self.block(step, env, depth)
        elif k == 'switch':
            v = self.ev(a[0], env, depth)
            arms = a[1]
            start = None
            for i, (labels, _blk) in enumerate(arms):
                if any(l_ is not None and self.ev(l_, env, depth) == v for l_ in labels):
                    start = i
                    break
            if start is None:
                for i, (labels, _blk) in enumerate(arms):
                    if None in labels:
                        start = i
                        break
            if start is not None:
                try:
                    for _labels, blk in arms[start:]:      # an arm that does not end in break falls into the next one
                        self.block(blk, env, depth)
                except _Break:
                    pass
        elif k == 'break':
            raise _Break()
        elif k == 'continue':
            raise _Continue()
        elif k == 'block':
            self.block(a[0], env, depth)
        elif k == 'pass':
            pass
        elif k == 'try':
            self.block(a[0], env, depth)
            self.block(a[2], env, depth)
        else:
            raise AnalysisError('abstract evaluation: statement kind %s at %s' % (k, s.loc))

    @staticmethod
    def _is_temporary(e):
        while e.k == 'cast':
            e = e.a[2]
        return e.k in ('init', 'call', 'const', 'bin', 'cond', 'un')

    def _memfield(self, e, env, depth):
        """object.*pointer / pointer->*pointer: the object and the name of the member"""
        o = self.ev(e.a[0], env, depth)
        for _ in range(3):
            if isinstance(o, Ref):
                o = o.get()
        if isinstance(o, list) and o and isinstance(o[0], AObj):
            o = o[0]
        p = self.ev(e.a[1], env, depth)
        if o is None:
            raise Raised('a null pointer is dereferenced (->*)', e.loc)
        if not isinstance(o, AObj) or not isinstance(p, MemPtr):
            raise AnalysisError('abstract evaluation: %r .* %r at %s' % (o, p, e.loc))
        if p.name not in o.attrs:
            raise AnalysisError('abstract evaluation: attribute %s of %s is not part of the abstraction (%s)' % (p.name, o.oid, e.loc))
        return o, p.name

    def _construct(self, obj, cls, args, depth, loc):
        """run the constructor of `cls` that takes `args` on `obj`; False when the class has no written constructor of that arity"""
        from .cxx import int_type
        lib = self.module.lib
        ctors = [c for c in lib.fns(cls + '::' + cls.split('::')[-1]) if c.required <= len(args) <= len(c.params)
                 and not (len(c.params) == 1 and cls.split('::')[-1] in (c.params[0][1] or ''))]
        exact_ = [c for c in ctors if len(c.params) == len(args)]
        ctors = exact_ or ctors
        if not ctors:
            return False
        if len(ctors) > 1:
            def fits(c_):
                for (pn_, pt_), v_ in zip(c_.params, args):
                    pt_ = pt_ or ''
                    if isinstance(v_, AObj) and v_.cls:
                        if not _re_word(v_.cls.split('::')[-1].split('<')[0], pt_):
                            return False
                    elif isinstance(v_, bool) or isinstance(v_, int):
                        if int_type(pt_.replace('&', '').strip()) is None:
                            return False
                    elif v_ is None or isinstance(v_, (list, Ref)):
                        if '*' not in pt_:
                            return False
                return True
            good = [c_ for c_ in ctors if fits(c_)]
            if good:
                ctors = good
        from types import SimpleNamespace
        c = ctors[0]
        ns = SimpleNamespace(params=[p for p, _t in c.params], ptypes=[t for _p, t in c.params], body=c.body, loc=c.loc, byref=(), defaults=c.defaults)
        self.call_function(c.name, args, depth + 1, recv=obj, chosen=ns)
        return True

    def store(self, tgt, v, env, depth):
        if tgt.k == 'memfield':
            o, name = self._memfield(tgt, env, depth)
            if self.typed and getattr(o, 'ftypes', None):
                v = self._wrap(v, o.ftypes.get(name))
            o.attrs[name] = self._by_value(tgt, v)
            return
        if tgt.k == 'var':
            v = self._wrap(v, env.get('\x00ty:' + tgt.a[0])) if self.typed else v
            cur = env.get(tgt.a[0])
            if env.get('\x00ref:' + tgt.a[0]) and isinstance(cur, Ref):
                cur_v = cur.get()
                if self.typed and isinstance(cur_v, AObj) and isinstance(v, AObj) and cur_v is not v:
                    nv_ = _copy_value(v).attrs if v.cls else v.attrs
                    cur_v.attrs.clear()
                    cur_v.attrs.update(nv_)          # assignment through a reference to an object copies the value into it
                else:
                    cur.set(v)
            elif self.typed and isinstance(cur, AObj) and isinstance(v, AObj) and cur is not v and not env.get('\x00ptr:' + tgt.a[0]):
                nv_ = _copy_value(v).attrs if v.cls else v.attrs
                cur.attrs.clear()
                cur.attrs.update(nv_)                # C++ value semantics: `obj = Class(...)` assigns into the object the name designates
            else:
                env[tgt.a[0]] = v
        elif tgt.k == 'field':
            o = self.ev(tgt.a[0], env, depth)
            if isinstance(o, Ref):
                o = o.get()
            if not isinstance(o, AObj):
                raise AnalysisError('abstract evaluation: attribute store on %r at %s' % (o, tgt.loc))
            if self.typed and getattr(o, 'ftypes', None):
                v = self._wrap(v, o.ftypes.get(tgt.a[1]))
            o.attrs[tgt.a[1]] = self._by_value(tgt, v)
        elif tgt.k == 'index':
            o = self.ev(tgt.a[0], env, depth)
            i = self.ev(tgt.a[1], env, depth)
            if isinstance(o, Ref) and isinstance(o.box, list) and isinstance(i, int):
                o.moved(i).set(self._by_value(tgt, v))           # p[i] = v with p a pointer into an array
                return
            if self.typed and isinstance(o, list) and isinstance(i, int) and i < 0:
                raise IndexError('negative subscript')
            o[i] = self._by_value(tgt, v)
        elif tgt.k == 'init' and tgt.a[0] in ('tuple', 'list'):
            for t, x in zip(tgt.a[1], v):
                self.store(t, x, env, depth)
        elif tgt.k == 'deref':
            p = self.ev(tgt.a[0], env, depth)
            if self.typed and isinstance(p, list):
                p = Ref(p, 0)            # a pointer that still is the array it was initialised with
            if not isinstance(p, Ref):
                raise AnalysisError('abstract evaluation: store through %r at %s' % (p, tgt.loc))
            p.set(v)
        elif tgt.k == 'cast':
            self.store(tgt.a[2], v, env, depth)
        else:
            raise AnalysisError('abstract evaluation: store to %s at %s' % (show(tgt), tgt.loc))

    def _by_value(self, tgt, v):
        """C++ value semantics: an object stored into a member or an array cell of class type is copied; one stored into a cell
        of pointer or reference type is shared"""
        if self.typed and isinstance(v, AObj) and tgt.ty and '*' not in tgt.ty and '&' not in tgt.ty and v.cls:
            return _copy_value(v)
        return v

    # -- expressions --------------------------------------------------------------------------
    @staticmethod
    def truth(v):
        if isinstance(v, AObj):
            return True
        return bool(v)

    def binop(self, op, l, r, loc):
        try:
            if self.typed and (isinstance(l, list) or isinstance(r, list)) and op in ('+', '-', '<', '<=', '>', '>=', '==', '!='):
                # an array used as a pointer to its first element
                if isinstance(l, list) and (isinstance(r, (int, Ref))) and not isinstance(r, bool):
                    l = Ref(l, 0)
                if isinstance(r, list) and (isinstance(l, (int, Ref))) and not isinstance(l, bool):
                    r = Ref(r, 0)
                if isinstance(l, list) and isinstance(r, list) and op != '+':
                    l, r = Ref(l, 0), Ref(r, 0)          # two pointers that still are the arrays they were initialised with
            if isinstance(l, Ref) or isinstance(r, Ref):
                # pointers into an array: p + k, k + p, p - k, p - q, and the comparisons of two pointers into one array
                if op == '+' and isinstance(l, Ref) and isinstance(r, int):
                    return l.moved(r)
                if op == '+' and isinstance(r, Ref) and isinstance(l, int):
                    return r.moved(l)
                if op == '-' and isinstance(l, Ref) and isinstance(r, int):
                    return l.moved(-r)
                if isinstance(l, Ref) and isinstance(r, Ref) and l.box is r.box:
                    if op == '-':
                        return l.key - r.key
                    if op in ('<', '<=', '>', '>=', '==', '!='):
                        return {'<': l.key < r.key, '<=': l.key <= r.key, '>': l.key > r.key, '>=': l.key >= r.key,
                                '==': l.key == r.key, '!=': l.key != r.key}[op]
                if op in ('==', '!='):
                    return (l == r) if op == '==' else (l != r)
                raise AnalysisError('abstract evaluation: pointer arithmetic %s at %s' % (op, loc))
            if op == '+':
                return l + r
            if op == '-':
                return l - r
            if op == '*':
                return l * r
            if op == '//':
                return l // r
            if self.typed and op in ('/', '%') and isinstance(l, int) and isinstance(r, int):
                if r == 0:
                    raise Raised('division by zero', loc)
                q = abs(l) // abs(r)
                q = q if (l >= 0) == (r >= 0) else -q          # C++: quotient truncated towards zero
                return q if op == '/' else l - q * r
            if op == '%%' or op == '%':
                return l % r
            if op in ('&', '|', '^', '<<', '>>') and isinstance(l, int) and isinstance(r, int):
                return {'&': l & r, '|': l | r, '^': l ^ r, '<<': l << r, '>>': l >> r}[op]
            if op == '==':
                return l is r if isinstance(l, AObj) or isinstance(r, AObj) else l == r
            if op == '!=':
                return l is not r if isinstance(l, AObj) or isinstance(r, AObj) else l != r
            if op == '<':
                return l < r
            if op == '<=':
                return l <= r
            if op == '>':
                return l > r
            if op == '>=':
                return l >= r
            if op == 'in':
                return any((x is l) if isinstance(l, AObj) else (x == l) for x in r)
            if op == 'notin':
                return not any((x is l) if isinstance(l, AObj) else (x == l) for x in r)
            if op == 'is':
                return l is r
            if op == 'isnot':
                return l is not r
        except TypeError as e:
            raise AnalysisError('abstract evaluation: %s %s %s at %s: %s' % (l, op, r, loc, e))
        raise AnalysisError('abstract evaluation: operator %s at %s' % (op, loc))

    def ev(self, e, env, depth):
        k, a = e.k, e.a
        if k == 'const':
            return a[0]
        if k == 'str':
            return a[0]
        if k == 'null':
            return None
        if k == 'var':
            if a[0] in env:
                v = env[a[0]]
                if isinstance(v, Ref) and env.get('\x00ref:' + a[0]):
                    return v.get()
                return v
            if a[0] in ('True', 'False', 'None'):
                return {'True': True, 'False': False, 'None': None}[a[0]]
            if self.typed and self.module is not None and a[0] in self.module.funcs:
                return FnRef(a[0])           # a function used as a value decays to a pointer to it
            if hasattr(self.module, 'const_node'):
                cn = self.module.const_node(a[0])
                if cn is not None:
                    from .py import PyLowerer
                    return self.ev(PyLowerer(cn[0]).expr(cn[1]), {}, depth)      # module-level constant (own or imported)
            lib = getattr(self.module, 'lib', None)
            if lib is not None:
                v = lib.global_value(a[0])
                if v is not None:
                    return v
                try:
                    arr = lib.array_values(a[0])       # a constant table of the library
                except Exception:
                    arr = None
                if arr is not None:
                    return list(arr)
                g_ = self._global_object(a[0]) if self.typed else None
                if g_ is not None:
                    return g_
            raise AnalysisError('abstract evaluation: unbound name %s at %s' % (a[0], e.loc))
        if k == 'this':
            return env['self']
        if k == 'memfn':
            return FnRef(a[0], a[1])             # pointer to a member function (name, number of parameters)
        if k == 'memptr':
            return MemPtr(a[0])                  # pointer to a data member
        if k == 'memfield':
            o, name = self._memfield(e, env, depth)
            return o.attrs[name]
        if k == 'delegate':
            # a delegating constructor: another constructor of the class runs on this object
            args = [self.ev(x, env, depth) for x in a[1]]
            cls = (env['self'].cls or a[0]) if isinstance(env.get('self'), AObj) else a[0]
            if not self._construct(env['self'], cls.replace('const ', '').strip(), args, depth, e.loc):
                raise AnalysisError('abstract evaluation: delegating constructor %s at %s: no constructor with %d parameters' % (a[0], e.loc, len(args)))
            return None
        if k == 'opaque' and a and a[0] == 'countof' and len(a) > 1:
            v = self.ev(a[1], env, depth)        # sizeof(array) / sizeof(array[0]) of an array whose bound is its initialiser list
            if isinstance(v, Ref):
                v = v.get()
            if not isinstance(v, list):
                raise AnalysisError('abstract evaluation: element count of a value that is not an array at %s' % e.loc)
            return len(v)
        if k == 'field':
            o = self.ev(a[0], env, depth)
            for _ in range(3):
                if isinstance(o, Ref):
                    o = o.get()      # p->f with p a pointer to an element of an array (or to a pointer to one)
            if self.typed and isinstance(o, list) and o and isinstance(o[0], AObj):
                o = o[0]             # array->f: the first element
            if isinstance(o, AObj):
                if a[1] not in o.attrs:
                    raise AnalysisError('abstract evaluation: attribute %s of %s is not part of the abstraction (%s)' % (a[1], o.oid, e.loc))
                return o.attrs[a[1]]
            if isinstance(o, tuple) and a[1] in getattr(o, '_fields', ()):
                return getattr(o, a[1])      # record value (named tuple of the abstraction)
            if self.typed and o is None:
                raise Raised('a null pointer is dereferenced (member %s)' % a[1], e.loc)
            raise AnalysisError('abstract evaluation: attribute %s of %r at %s' % (a[1], o, e.loc))
        if k == 'index':
            o = self.ev(a[0], env, depth)
            i = self.ev(a[1], env, depth)
            if isinstance(o, Ref):
                return o.moved(i).get()
            if isinstance(o, list) and isinstance(i, int) and i < 0:
                raise IndexError('negative subscript')
            return o[i]
        if k == 'incdec':
            ref = self.ref_of(a[2], env, depth)
            old = ref.get()
            if self.typed and isinstance(old, list):
                old = Ref(old, 0)        # a pointer initialised with the array itself
            d = 1 if a[0] == '++' else -1
            new = old.moved(d) if isinstance(old, Ref) else old + d
            if self.typed and a[2].k == 'var':
                new = self._wrap(new, env.get('\x00ty:' + a[2].a[0]))
            ref.set(new)
            return old if a[1] else new
        if k == 'assignexpr':
            v = self.ev(a[1], env, depth)
            self.store(a[0], v, env, depth)
            return self.ev(a[0], env, depth) if self.typed else v       # the value as the target holds it (after conversion)
        if k == 'un':
            v = self.ev(a[1], env, depth)
            if a[0] == '!':
                return not self.truth(v)
            if a[0] == '-':
                return -v
            if a[0] == 'bool':
                return self.truth(v)
            raise AnalysisError('abstract evaluation: unary %s at %s' % (a[0], e.loc))
        if k == 'bin':
            if a[0] == '&&':
                l = self.ev(a[1], env, depth)
                return self.ev(a[2], env, depth) if self.truth(l) else l
            if a[0] == '||':
                l = self.ev(a[1], env, depth)
                return l if self.truth(l) else self.ev(a[2], env, depth)
            r = self.binop(a[0], self.ev(a[1], env, depth), self.ev(a[2], env, depth), e.loc)
            if self.typed and a[0] in ('+', '-', '*', '<<') and isinstance(r, int) and not isinstance(r, bool) and e.ty:
                it = self._ity(e.ty)
                if it is not None and not it[1]:
                    r = self._wrap(r, it)        # unsigned arithmetic is modular also when the result is used in place
            return r
        if k == 'cond':
            return self.ev(a[1], env, depth) if self.truth(self.ev(a[0], env, depth)) else self.ev(a[2], env, depth)
        if k == 'cast':
            v = self.ev(a[2], env, depth)
            if self.typed and isinstance(a[0], int):
                bits = self.long_bits if (self.long_bits and a[0] == 64 and self._is_long(e.ty)) else a[0]
                return self._wrap(v, (bits, a[1]))
            return v
        if k == 'ptrcast':
            return self.ev(a[1], env, depth)
        if k == 'addr':
            t = a[0]
            if t.k == 'index':
                b_, i_ = self.ev(t.a[0], env, depth), self.ev(t.a[1], env, depth)
                if isinstance(b_, Ref) and isinstance(b_.box, list) and isinstance(i_, int):
                    return b_.moved(i_)          # &p[i] with p a pointer into an array
                return Ref(b_, i_)
            if t.k == 'field':
                o = self.ev(t.a[0], env, depth)
                if isinstance(o, Ref):
                    o = o.get()
                if isinstance(o, AObj):
                    return Ref(o.attrs, t.a[1])
                if self.typed and o is None:
                    raise Raised('a null pointer is dereferenced (address of its member %s)' % t.a[1], e.loc)
            if t.k == 'var' and t.a[0] in env:
                if env.get('\x00ref:' + t.a[0]) and isinstance(env[t.a[0]], Ref):
                    return env[t.a[0]]       # the address of a reference is the address of what it refers to
                return Ref(env, t.a[0])
            if t.k == 'var' and self.module is not None and t.a[0] in self.module.funcs:
                return FnRef(t.a[0])         # &function
            if t.k == 'var' and self.typed:
                g_ = self._global_object(t.a[0])
                if g_ is not None:
                    return g_                # &global of class type: the abstraction holds the object itself
            raise AnalysisError('abstract evaluation: address of %s at %s' % (show(t), e.loc))
        if k == 'deref':
            p = self.ev(a[0], env, depth)
            if isinstance(p, Ref):
                return p.get()
            if self.typed and isinstance(p, list):
                return p[0]
            if isinstance(p, AObj):
                return p            # *ptr where the abstraction holds the object itself
            raise AnalysisError('abstract evaluation: dereference of %r at %s' % (p, e.loc))
        if k == 'init':
            if a[0] == 'dict':
                d = {}
                for x in a[1]:
                    if x.k != 'kv':
                        raise AnalysisError('abstract evaluation: dict display at %s' % e.loc)
                    d[self.ev(x.a[0], env, depth)] = self.ev(x.a[1], env, depth)
                return d
            if a[0] in ('list', 'tuple', 'set'):
                vals = [self.ev(x, env, depth) for x in a[1]]
                return vals if a[0] == 'list' else tuple(vals)
            if self.typed and isinstance(a[0], str) and a[0].rstrip().endswith(']'):
                # an array with an initialiser list: missing elements are zero
                import re as _re
                m_ = _re.search(r'\[(\d*)\]\s*$', a[0])
                vals = [self.ev(x, env, depth) for x in a[1]]
                n_ = int(m_.group(1)) if m_ and m_.group(1) else len(vals)
                return vals + [0] * (n_ - len(vals))
            if self.typed and isinstance(a[0], str) and getattr(self.module, 'lib', None) is not None:
                # C++: a value of class type built by one of its constructors (member initialisers are stores to this.field)
                lib = self.module.lib
                cls = a[0].replace('const ', '').replace('(anonymous namespace)', '(anon)').strip()
                args = [self.ev(x, env, depth) for x in a[1]]
                try:
                    flds = lib.fields(cls)
                except Exception:
                    flds = None
                if flds == [] and not args and lib.classes.get(cls):
                    return AObj({}, cls=cls)            # a class without data members (a function object)
                if not flds and '<' in cls:
                    # a class nested in a template instantiation is indexed under the name of the template
                    bare, depth_ = [], 0
                    for ch in cls:
                        if ch == '<':
                            depth_ += 1
                        elif ch == '>':
                            depth_ -= 1
                        elif depth_ == 0:
                            bare.append(ch)
                    try:
                        flds = lib.fields(''.join(bare))
                        if flds == [] and not args and lib.classes.get(''.join(bare)):
                            return AObj({}, cls=cls)        # keeps the arguments of the instantiation in its class name
                        inst_key = _targs_key(cls)
                        cls = ''.join(bare)
                        for c_ in lib.classes.get(cls, []):
                            if not c_.get('_primary') and _targs_key(c_.get('_inst')) == inst_key:
                                flds = lib.fields(cls, inst=c_.get('_inst'))     # member types of this instantiation
                                break
                    except Exception:
                        flds = None
                if flds:
                    from .cxx import int_type
                    if len(args) == 1 and isinstance(args[0], AObj) and (args[0].cls or '').replace('const ', '').strip() == cls:
                        return _copy_value(args[0])         # copy construction
                    obj = AObj({n: None for n, _t, _x in flds}, cls=cls, ftypes={n: int_type(t) for n, t, _x in flds if int_type(t)})
                    obj.ptrs = frozenset(n for n, t, _x in flds if t and '*' in t)
                    ctors = [c for c in lib.fns(cls + '::' + cls.split('::')[-1]) if c.required <= len(args) <= len(c.params)
                             and not (len(c.params) == 1 and cls.split('::')[-1] in (c.params[0][1] or ''))]
                    ctors = [c for c in ctors if len(c.params) == len(args)] or ctors
                    if '<' in a[0]:
                        obj.inst = _targs_key(a[0].replace('const ', '').strip())
                        mine = [c for c in ctors if _targs_key(c.inst) == obj.inst]
                        if mine:
                            ctors = mine
                    if ctors:
                        from types import SimpleNamespace
                        if len(ctors) > 1:
                            # overloaded constructors of one arity: the one whose parameter types take the arguments (an object
                            # of class K for a parameter naming K, a number for an integer parameter, null / an array for a pointer)
                            def fits(c_):
                                for (pn_, pt_), v_ in zip(c_.params, args):
                                    pt_ = pt_ or ''
                                    if isinstance(v_, AObj) and v_.cls:
                                        if not _re_word(v_.cls.split('::')[-1].split('<')[0], pt_):
                                            return False
                                    elif isinstance(v_, bool) or isinstance(v_, int):
                                        if int_type(pt_.replace('&', '').strip()) is None:
                                            return False
                                    elif v_ is None or isinstance(v_, (list, Ref)):
                                        if '*' not in pt_:
                                            return False
                                return True
                            good = [c_ for c_ in ctors if fits(c_)]
                            if good:
                                ctors = good
                        c = ctors[0]
                        ns = SimpleNamespace(params=[p for p, _t in c.params], ptypes=[t for _p, t in c.params], body=c.body, loc=c.loc, byref=(), defaults=c.defaults)
                        self.call_function(c.name, args, depth + 1, recv=obj, chosen=ns)
                        return obj
                    if len(flds) == len(args):
                        for (n, t, _x), v in zip(flds, args):
                            obj.attrs[n] = self._wrap(v, int_type(t))
                        return obj
                    if not args:
                        # implicitly default-constructed: members with an initialiser in the class start with it
                        from .cxx import Lowerer
                        for n, t, node in flds:
                            ini = [y for y in node.get('inner', []) if 'Comment' not in y.get('kind', '') and 'Attr' not in y.get('kind', '')]
                            if ini:
                                obj.attrs[n] = self._wrap(self.ev(Lowerer(lib).expr(ini[-1]), {'self': obj}, depth + 1), int_type(t))
                        return obj
            raise AnalysisError('abstract evaluation: display %s at %s' % (a[0], e.loc))
        if k == 'call':
            return self.call(e, env, depth)
        if k == 'fstr':
            return ''.join(str(self.ev(x, env, depth)) for x in a[0])
        if k == 'comp':
            kind, elt, gens = a
            out = []

            def rec(i, env2):
                if i == len(gens):
                    if elt.k == 'kv':
                        out.append((self.ev(elt.a[0], env2, depth), self.ev(elt.a[1], env2, depth)))
                    else:
                        out.append(self.ev(elt, env2, depth))
                    return
                g = gens[i]
                seq = self.ev(g.a[1], env2, depth)
                if isinstance(seq, dict):
                    seq = list(seq.keys())
                for item in list(seq):
                    self.store(g.a[0], item, env2, depth)
                    if all(self.truth(self.ev(c, env2, depth)) for c in g.a[2]):
                        rec(i + 1, env2)
            rec(0, dict(env))        # the targets of a comprehension are local to it
            if kind == 'DictComp':
                return dict(out)
            if kind == 'SetComp':
                return set(out)
            return out
        raise AnalysisError('abstract evaluation: expression kind %s%s at %s' % (k, (' (%s)' % a[0]) if k == 'opaque' and a else '', e.loc))

    def call(self, e, env, depth):
        name, recv_e, args_e = e.a
        short = name.split('.')[-1]
        if name == 'del' and recv_e is None and not self.typed:
            for t in args_e:
                if t.k == 'index':
                    del self.ev(t.a[0], env, depth)[self.ev(t.a[1], env, depth)]
                elif t.k == 'var' and t.a[0] in env:
                    del env[t.a[0]]
                else:
                    raise AnalysisError('abstract evaluation: del %s at %s' % (show(t), e.loc))
            return None
        if self.typed and recv_e is None and isinstance(env.get(name), FnRef):
            name = env[name].q               # a call through a pointer to function held in a local
            short = name.split('.')[-1]
        if self.typed and name == '.*' and recv_e is not None and args_e:
            p = self.ev(args_e[0], env, depth)       # (object.*pointer)(args)
            if not isinstance(p, FnRef):
                raise AnalysisError('abstract evaluation: call through %r, which is not a pointer to member, at %s' % (p, e.loc))
            name, args_e = p.q, list(args_e[1:])
            short = name.split('.')[-1]
        if not self.typed and recv_e is None:
            if name in ('TypedDict', 'NamedTuple', 'TypeVar', 'NewType'):
                return None          # a typing declaration inside a function: no run-time content
            if name == 'cast' and len(args_e) == 2:
                return self.ev(args_e[1], env, depth)
        if name in self.intr or short in self.intr:
            fn = self.intr.get(name) or self.intr[short]
            recv = self.ev(recv_e, env, depth) if recv_e is not None else None
            if self.typed and isinstance(recv, Ref):
                recv = recv.get()
            if self.typed and isinstance(recv, list) and recv and isinstance(recv[0], AObj):
                recv = recv[0]           # array->m(): the first element
            byref = getattr(fn, 'byref', ())
            args = [self.ref_of(x, env, depth) if i in byref else self.ev(x, env, depth) for i, x in enumerate(args_e)]
            if getattr(fn, 'with_exprs', False):
                return fn(self, recv, args, args_e)       # the abstraction looks at the static type of its arguments
            return fn(self, recv, args)
        if recv_e is not None:
            recv = self.ev(recv_e, env, depth)
            if self.typed and isinstance(recv, Ref):
                recv = recv.get()        # p->m() with p a pointer to an element of an array
            if self.typed and isinstance(recv, list) and recv and isinstance(recv[0], AObj):
                recv = recv[0]
            if self.typed and isinstance(recv, AObj) and self.module is not None and hasattr(self.module, 'select'):
                # C++ member function: overload by arity and by the integer types of the reference arguments
                at = []
                for x in args_e:
                    y = x
                    while y.k == 'cast':
                        y = y.a[2]
                    at.append(env.get('\x00ty:' + y.a[0]) if y.k == 'var' else None)
                callee = None
                if recv.cls and '::' in name and name.rsplit('::', 1)[0] != recv.cls:
                    # a call through a pointer to the base class: the member of the object's own class, if it overrides it
                    dyn = '%s::%s' % (recv.cls, name.rsplit('::', 1)[1])
                    if self.module.overloads.get('%s/%d' % (dyn, len(args_e))):
                        callee = self.module.select(dyn, len(args_e), at)
                        if callee is not None:
                            name = dyn
                if callee is None:
                    callee = self.module.select(name, len(args_e), at, raw=getattr(e, 'raw', None))
                if callee is not None:
                    args = [self.ref_of(x, env, depth) if i in callee.byref else self.ev(x, env, depth) for i, x in enumerate(args_e)]
                    return self.call_function(name, args, depth + 1, recv=recv, chosen=callee)
            args = [self.ev(x, env, depth) for x in args_e]
            if isinstance(recv, list):
                if short == 'append':
                    recv.append(args[0])
                    return None
                if short == 'copy':
                    return list(recv)
                if short == 'insert' and len(args) == 2:
                    recv.insert(args[0], args[1])
                    return None
                if short == 'extend' and len(args) == 1:
                    recv.extend(args[0])
                    return None
                if short == 'pop' and len(args) <= 1:
                    return recv.pop(*args)
            if isinstance(recv, dict):
                if short == 'copy':
                    return dict(recv)
                if short == 'setdefault' and len(args) == 2:
                    return recv.setdefault(args[0], args[1])
                if short == 'pop' and 1 <= len(args) <= 2:
                    return recv.pop(*args)
                if short == 'update' and len(args) == 1 and isinstance(args[0], dict):
                    recv.update(args[0])
                    return None
                if short == 'get':
                    return recv.get(args[0], args[1] if len(args) > 1 else None)
                if short == 'items':
                    return list(recv.items())
                if short == 'keys':
                    return list(recv.keys())
                if short == 'values':
                    return list(recv.values())
            if isinstance(recv, AObj):
                if short == 'copy':
                    return recv.copy()
                # a method of the object's class, or a static/instance method named through self
                for q in (name, '%s.%s' % (recv.cls, short) if recv.cls else None):
                    if q and self.module is not None and q in self.module.funcs:
                        return self.call_function(q, args, depth + 1, recv=recv)
            raise AnalysisError('abstract evaluation: method %s on %r at %s' % (name, recv, e.loc))
        callee = None
        if self.typed and self.module is not None:
            if hasattr(self.module, 'select'):
                at = []
                for x in args_e:
                    y = x
                    while y.k == 'cast':
                        y = y.a[2]
                    at.append(env.get('\x00ty:' + y.a[0]) if y.k == 'var' else None)
                callee = self.module.select(name, len(args_e), at, raw=getattr(e, 'raw', None))
                cands = self.module.overloads.get('%s/%d' % (name, len(args_e)), [])
                if callee is not None and len(cands) > 1 and getattr(e, 'raw', None) is not None and _callee_decl(e.raw) is not None and _callee_decl(e.raw) in (callee.f.node.get('id'), callee.f.node.get('previousDecl')):
                    cands = [callee]             # the compiler's own resolution
                if len(cands) > 1 and not any(c_.byref for c_ in cands):
                    # instantiations / overloads that differ in a parameter of class type: the one that takes the class of the argument
                    vals = [self.ev(x, env, depth) for x in args_e]
                    def fits(c_):
                        for v_, t_ in zip(vals, c_.ptypes):
                            if isinstance(v_, AObj) and v_.cls and t_ and not _re_word(v_.cls.split('::')[-1].split('<')[0], t_):
                                return False
                        return True
                    ok_ = [c_ for c_ in cands if fits(c_)]
                    if ok_ and any(isinstance(v_, AObj) and v_.cls for v_ in vals):
                        return self.call_function(name, vals, depth + 1, chosen=ok_[0])
                    if callee is not None and not callee.byref:
                        return self.call_function(name, vals, depth + 1, chosen=callee)     # the arguments are evaluated once
            if callee is None:
                callee = self.module.funcs.get('%s/%d' % (name, len(args_e))) or self.module.funcs.get(name)
            if '::operator' in name and args_e:
                # a member operator written as a call: the object is the first operand
                mem = self.module.funcs.get('%s/%d' % (name, len(args_e) - 1))
                if mem is not None and hasattr(self.module, 'select') and len(self.module.overloads.get('%s/%d' % (name, len(args_e) - 1), [])) > 1:
                    mem = self.module.select(name, len(args_e) - 1, [], raw=getattr(e, 'raw', None)) or mem
                if mem is not None and (callee is None or len(callee.params) != len(args_e)):
                    obj = self.ev(args_e[0], env, depth)
                    if isinstance(obj, Ref):
                        obj = obj.get()
                    rest = [self.ref_of(x, env, depth) if i in mem.byref else self.ev(x, env, depth) for i, x in enumerate(args_e[1:])]
                    return self.call_function(name, rest, depth + 1, recv=obj, chosen=mem)
        byref = getattr(callee, 'byref', ()) if callee is not None else ()
        args = [self.ref_of(x, env, depth) if i in byref else self.ev(x, env, depth) for i, x in enumerate(args_e)]
        if callee is not None:
            return self.call_function(name, args, depth + 1, chosen=callee)
        if name == 'len':
            return len(args[0])
        if name == 'range':
            return list(range(*args))
        if name == 'iter' and len(args) == 1:
            return args[0]
        if name in ('min', 'max') and args and not self.typed:
            f = min if name == 'min' else max
            return f(args[0]) if len(args) == 1 else f(args)
        if name in ('sorted', 'list') and len(args) == 1 and not self.typed:
            x = list(args[0].keys()) if isinstance(args[0], dict) else list(args[0])
            return sorted(x) if name == 'sorted' else x
        if name == 'tuple' and len(args) == 1 and not self.typed:
            return tuple(args[0])
        if name in ('any', 'all', 'sum') and len(args) == 1 and not self.typed:
            if name == 'sum':
                return sum(args[0])
            return (any if name == 'any' else all)(self.truth(x) for x in args[0])
        if name == 'enumerate' and len(args) == 1 and not self.typed:
            return [(i, x) for i, x in enumerate(args[0])]
        if name == 'zip' and not self.typed:
            return [tuple(t) for t in zip(*args)]
        if name == 'reversed' and len(args) == 1 and not self.typed:
            return list(reversed(args[0]))
        if name in ('abs', 'int', 'str', 'bool') and len(args) == 1 and not self.typed:
            return {'abs': abs, 'int': int, 'str': str, 'bool': bool}[name](args[0])
        if name == 'cast':
            return args[1]
        if name == 'setattr' and isinstance(args[0], AObj):
            args[0].attrs[args[1]] = args[2]
            return None
        if name == 'getattr' and isinstance(args[0], AObj) and args[1] in args[0].attrs:
            return args[0].attrs[args[1]]
        if name == 'isinstance':
            raise AnalysisError('abstract evaluation: isinstance at %s' % e.loc)
        if self.module is not None and name in self.module.funcs:
            return self.call_function(name, args, depth + 1)
        raise AnalysisError('abstract evaluation: call of %s at %s is outside the abstraction' % (name, e.loc))
