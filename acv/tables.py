"""E-TAB: model of the generated zone tables, built from the clang AST (zonedb, zonedbx) and from
`ast` (tools/zonedbpy), each entry with its folded cells and the recorded TZ line above it."""
import ast
import os

from .common import AnalysisError
from . import cxx
from .cxx import nty


class Entry:
    """One aggregate element: ordered (field -> cell), recorded comment, location."""
    __slots__ = ('cells', 'comment', 'loc', 'index', 'owner', 'nodes')

    def __init__(self, cells, comment, loc, index, owner, nodes=None):
        self.cells = cells
        self.comment = comment
        self.loc = loc
        self.index = index
        self.owner = owner
        self.nodes = nodes or {}

    def __getitem__(self, k):
        return self.cells[k]

    def get(self, k, d=None):
        return self.cells.get(k, d)


class Ref:
    __slots__ = ('name',)

    def __init__(self, name):
        self.name = name

    def __repr__(self):
        return 'Ref(%s)' % self.name

    def __eq__(self, o):
        return isinstance(o, Ref) and o.name == self.name

    def __hash__(self):
        return hash(('Ref', self.name))


def _strip(n):
    while n.get('kind') in ('ImplicitCastExpr', 'ParenExpr', 'ConstantExpr', 'ExprWithCleanups',
                            'CStyleCastExpr', 'CXXStaticCastExpr') and n.get('inner'):
        if n.get('kind') == 'ImplicitCastExpr' and n.get('castKind') == 'IntegralCast':
            break
        n = n['inner'][-1]
    return n


class CxxTables:
    """Tables of one database (db in {'zonedb','zonedbx'})."""

    def __init__(self, cfg, db):
        self.cfg = cfg
        self.db = db
        self.scope = 'basic' if db == 'zonedb' else 'extended'
        self.ns = 'ace_time::%s::' % db
        self.tu = cxx.load_tables(cfg, db)
        tu = self.tu
        self.struct_fields = {}
        for s in ('ZoneRule', 'ZoneEra', 'ZonePolicy', 'ZoneInfo', 'ZoneContext'):
            q = 'ace_time::%s::%s' % (self.scope, s)
            self.struct_fields[s] = [(n, t) for n, t, _ in tu.fields(q)]
        self.rules = {}      # short name -> [Entry]
        self.rules_len = {}  # short name -> declared/deduced array length
        self.eras = {}
        self.eras_len = {}
        self.policies = {}   # short name -> Entry
        self.letters = {}    # short name -> [str]
        self.letters_len = {}
        self.strings = {}    # short name -> str
        self.infos = {}      # short name -> Entry
        self.links = {}      # short name -> target short name
        self.link_loc = {}
        self.zone_ids = {}   # kZoneIdX -> (value, loc, comment)
        self.registry = None  # [short names]
        self.registry_len = None
        self.registry_loc = None
        self.registry_comments = []
        self.registry_size_const = None
        self.context = None
        self.header_decl_comments = {}  # kZoneX -> trailing comment in zone_infos.h
        self.order = []      # definition order of kZone* infos
        self._load()

    # -- helpers -----------------------------------------------------------------
    def _short(self, q):
        return q[len(self.ns):] if q and q.startswith(self.ns) else q

    def _cell(self, n):
        """Fold one initialiser cell: int | str | Ref | None(nullptr)."""
        v = self.tu.fold_node(n)
        if v is not None:
            return v
        s = _strip(n)
        k = s.get('kind')
        if k == 'CXXNullPtrLiteralExpr' or k == 'GNUNullExpr':
            return None
        if k == 'StringLiteral':
            import json
            try:
                return json.loads(s['value'])
            except ValueError:
                return s['value'].strip('"')
        if k == 'UnaryOperator' and s.get('opcode') == '&':
            return self._cell(s['inner'][0])
        if k == 'DeclRefExpr':
            rd = s.get('referencedDecl', {})
            return Ref(self._short(self.tu.qual.get(rd.get('id')) or rd.get('name')))
        if k == 'ImplicitCastExpr':
            return self._cell(s['inner'][-1])
        raise AnalysisError('%s: table cell of kind %s cannot be folded' % (self.tu.loc(n), k))

    def _comment_above(self, node):
        f = self.tu.file_of(node)
        b = (node.get('range') or {}).get('begin') or {}
        ln = b.get('_l') or self.tu.line_of(node)
        lines = self.tu.text_lines(f)
        i = ln - 2
        if 0 <= i < len(lines):
            t = lines[i].strip()
            if t.startswith('//'):
                return t[2:].strip()
        return None

    def _trailing_comment(self, node, use_end=True):
        f = self.tu.file_of(node)
        ln = self.tu.end_line_of(node) if use_end else self.tu.line_of(node)
        lines = self.tu.text_lines(f)
        if 0 < ln <= len(lines):
            t = lines[ln - 1]
            if '//' in t:
                return t.split('//', 1)[1].strip()
        return None

    def _entries(self, decl, struct, owner):
        init = self._init(decl)
        if init is None or init.get('kind') != 'InitListExpr':
            raise AnalysisError('%s: %s has no aggregate initialiser' % (self.tu.loc(decl), owner))
        fields = self.struct_fields[struct]
        out = []
        for i, el in enumerate(init.get('inner', [])):
            if el.get('kind') != 'InitListExpr':
                raise AnalysisError('%s: element %d of %s is not an aggregate' % (self.tu.loc(el), i, owner))
            cells = el.get('inner', [])
            if len(cells) != len(fields):
                raise AnalysisError('%s: element %d of %s has %d cells for %d fields' %
                                    (self.tu.loc(el), i, owner, len(cells), len(fields)))
            d = {}
            nodes = {}
            for (fn, _ft), c in zip(fields, cells):
                d[fn] = self._cell(c)
                nodes[fn] = c
            b = (el.get('range') or {}).get('begin') or {}
            loc = '%s:%s' % (self.cfg.rel(b.get('_f', '')), b.get('_l', 0))
            out.append(Entry(d, self._comment_above(el), loc, i, owner, nodes))
        return out

    def _init(self, decl):
        if 'init' not in decl:
            return None
        inner = [x for x in decl.get('inner', []) if 'Comment' not in x.get('kind', '') and 'Attr' not in x.get('kind', '')]
        return inner[-1] if inner else None

    @staticmethod
    def _array_len(ty):
        if ty and ty.endswith(']') and '[' in ty:
            try:
                return int(ty[ty.rindex('[') + 1:-1])
            except ValueError:
                return None
        return None

    # -- load ----------------------------------------------------------------------
    def _load(self):
        tu = self.tu
        S = self.scope
        for q, decls in tu.decls.items():
            if not q.startswith(self.ns):
                continue
            short = self._short(q)
            for d in decls:
                if d.get('kind') != 'VarDecl':
                    continue
                ty = (d.get('type') or {}).get('qualType', '')
                dty = nty(d) or ty
                has_init = 'init' in d
                f = tu.file_of(d)
                if f.endswith('zone_infos.h') and short.startswith('kZone') and not short.startswith('kZoneId') \
                        and 'ZoneInfo' in ty:
                    self.header_decl_comments[short] = (self._trailing_comment(d), tu.loc(d))
                if not has_init:
                    continue
                t = dty.replace('ace_time::', '')
                if t.startswith('const %s::ZoneRule[' % S):
                    self.rules[short] = self._entries(d, 'ZoneRule', short)
                    self.rules_len[short] = self._array_len(t)
                elif t.startswith('const %s::ZoneEra[' % S):
                    self.eras[short] = self._entries(d, 'ZoneEra', short)
                    self.eras_len[short] = self._array_len(t)
                elif t == 'const %s::ZonePolicy' % S:
                    self.policies[short] = self._single(d, 'ZonePolicy', short)
                elif t == 'const %s::ZoneInfo' % S:
                    self.infos[short] = self._single(d, 'ZoneInfo', short)
                    self.order.append(short)
                elif t == 'const %s::ZoneContext' % S:
                    self.context = self._single(d, 'ZoneContext', short)
                elif t.startswith('const %s::ZoneInfo &' % S):
                    tgt = self._cell(self._init(d))
                    if not isinstance(tgt, Ref):
                        raise AnalysisError('%s: link %s does not bind to a named zone' % (tu.loc(d), short))
                    self.links[short] = tgt.name
                    self.link_loc[short] = tu.loc(d)
                elif t.startswith('const %s::ZoneInfo *const[' % S):
                    init = self._init(d)
                    self.registry = []
                    self.registry_comments = []
                    for el in init.get('inner', []):
                        c = self._cell(el)
                        self.registry.append(c.name if isinstance(c, Ref) else None)
                        self.registry_comments.append(self._trailing_comment(el, use_end=False))
                    self.registry_len = self._array_len(t)
                    self.registry_loc = tu.loc(d)
                elif t.startswith('const char *const['):
                    init = self._init(d)
                    self.letters[short] = [self._cell(el) for el in init.get('inner', [])]
                    self.letters_len[short] = self._array_len(t)
                elif t.startswith('const char['):
                    self.strings[short] = self._cell(self._init(d))
                elif short.startswith('kZoneId') and cxx.int_type(dty):
                    v = tu.fold_node(self._init(d))
                    self.zone_ids[short] = (cxx.wrap(v, *cxx.int_type(dty)) if v is not None else None,
                                            tu.loc(d), self._trailing_comment(d))
                elif short == 'kZoneRegistrySize':
                    self.registry_size_const = tu.fold_node(self._init(d))
        if self.registry is None:
            raise AnalysisError('anchor vanished: %skZoneRegistry not found' % self.ns)
        if self.context is None:
            raise AnalysisError('anchor vanished: %skZoneContext not found' % self.ns)
        if not self.infos:
            raise AnalysisError('anchor vanished: no ZoneInfo definitions in %s' % self.db)

    def _single(self, decl, struct, owner):
        init = self._init(decl)
        if init is None or init.get('kind') != 'InitListExpr':
            raise AnalysisError('%s: %s has no aggregate initialiser' % (self.tu.loc(decl), owner))
        fields = self.struct_fields[struct]
        cells = init.get('inner', [])
        if len(cells) != len(fields):
            raise AnalysisError('%s: %s has %d cells for %d fields' % (self.tu.loc(decl), owner, len(cells), len(fields)))
        d = {}
        nodes = {}
        for (fn, _ft), c in zip(fields, cells):
            d[fn] = self._cell(c)
            nodes[fn] = c
        return Entry(d, None, self.tu.loc(decl), 0, owner, nodes)

    # -- convenience ------------------------------------------------------------------
    def zone_name(self, info_short):
        e = self.infos[info_short]
        r = e['name']
        if isinstance(r, Ref):
            return self.strings.get(r.name)
        return r

    def zone_eras(self, info_short):
        r = self.infos[info_short]['eras']
        if not isinstance(r, Ref) or r.name not in self.eras:
            raise AnalysisError('%s: eras of %s do not name an era array' % (self.infos[info_short].loc, info_short))
        return self.eras[r.name]

    def policy_rules(self, pol_short):
        r = self.policies[pol_short]['rules']
        if not isinstance(r, Ref) or r.name not in self.rules:
            raise AnalysisError('%s: rules of %s do not name a rule array' % (self.policies[pol_short].loc, pol_short))
        return self.rules[r.name]

    def policy_letters(self, pol_short):
        r = self.policies[pol_short].get('letters')
        if r is None:
            return None
        if not isinstance(r, Ref) or r.name not in self.letters:
            raise AnalysisError('%s: letters of %s do not name a letters array' % (self.policies[pol_short].loc, pol_short))
        return self.letters[r.name]

    def names(self):
        return {self.zone_name(s): s for s in self.infos}


# -- Python tables (tools/zonedbpy) ---------------------------------------------------

class PyTables:
    def __init__(self, cfg, texts=None):
        """texts: {'zone_policies.py': text, 'zone_infos.py': text} - tables rendered by the checker (acv/genrender.py) are
        read with the same reader as the checked-in ones"""
        self.cfg = cfg
        self.texts = texts
        self.rules = {}      # ZONE_RULES_X -> [Entry]
        self.policies = {}   # ZONE_POLICY_X -> {'name':..., 'rules': Ref}
        self.policy_map = {}
        self.eras = {}
        self.infos = {}
        self.info_map = {}
        self.header = {}
        self.tail = {}
        self._load_policies(os.path.join(cfg.tools('zonedbpy'), 'zone_policies.py'))
        self._load_infos(os.path.join(cfg.tools('zonedbpy'), 'zone_infos.py'))

    def _parse(self, path):
        if self.texts is not None:
            text = self.texts.get(os.path.basename(path))
            if text is None:
                raise AnalysisError('rendered tables: %s was not written (files: %s)' % (os.path.basename(path), sorted(self.texts)))
            try:
                return text.split('\n'), ast.parse(text)
            except SyntaxError as e:
                raise AnalysisError('rendered %s does not parse: %s' % (os.path.basename(path), e))
        if not os.path.exists(path):
            raise AnalysisError('anchor vanished: %s' % self.cfg.rel(path))
        text = open(path, encoding='utf-8').read()
        try:
            tree = ast.parse(text)
        except SyntaxError as e:
            raise AnalysisError('%s does not parse: %s' % (self.cfg.rel(path), e))
        return text.split('\n'), tree

    def _val(self, n):
        if isinstance(n, ast.Constant):
            return n.value
        if isinstance(n, ast.UnaryOp) and isinstance(n.op, ast.USub) and isinstance(n.operand, ast.Constant):
            return -n.operand.value
        if isinstance(n, ast.Name):
            return Ref(n.id)
        raise AnalysisError('zonedbpy: cell %s is not a literal or a name' % ast.dump(n)[:80])

    def _dict_entries(self, lst, lines, rel, owner):
        out = []
        for i, el in enumerate(lst.elts):
            if not isinstance(el, ast.Dict):
                raise AnalysisError('%s:%d: element of %s is not a dict literal' % (rel, el.lineno, owner))
            cells = {}
            for k, v in zip(el.keys, el.values):
                cells[self._val(k)] = self._val(v)
            t = lines[el.lineno - 2].strip() if el.lineno >= 2 else ''
            comment = t[1:].strip() if t.startswith('#') else None
            out.append(Entry(cells, comment, '%s:%d' % (rel, el.lineno), i, owner))
        return out

    def _header_counts(self, lines):
        import re
        out = {}
        for ln in lines:
            m = re.match(r'^#\s*(num\w+):\s*(\d+)\s*$', ln)
            if m:
                out.setdefault(m.group(1), []).append(int(m.group(2)))
        return out

    def _load_policies(self, path):
        lines, tree = self._parse(path)
        rel = self.cfg.rel(path)
        self.header.update({'policies:' + k: v for k, v in self._header_counts(lines).items()})
        for n in tree.body:
            if not isinstance(n, ast.Assign) or len(n.targets) != 1 or not isinstance(n.targets[0], ast.Name):
                continue
            name = n.targets[0].id
            if name.startswith('ZONE_RULES_') and isinstance(n.value, ast.List):
                self.rules[name] = self._dict_entries(n.value, lines, rel, name)
            elif name.startswith('ZONE_POLICY_') and name != 'ZONE_POLICY_MAP' and isinstance(n.value, ast.Dict):
                self.policies[name] = Entry({self._val(k): self._val(v) for k, v in zip(n.value.keys, n.value.values)},
                                            None, '%s:%d' % (rel, n.lineno), 0, name)
            elif name == 'ZONE_POLICY_MAP':
                for k, v in zip(n.value.keys, n.value.values):
                    self.policy_map[self._val(k)] = self._val(v)
                self.policy_map_loc = '%s:%d' % (rel, n.lineno)

    def _load_infos(self, path):
        lines, tree = self._parse(path)
        rel = self.cfg.rel(path)
        self.header.update({'infos:' + k: v for k, v in self._header_counts(lines).items()})
        for n in tree.body:
            if not isinstance(n, ast.Assign) or len(n.targets) != 1 or not isinstance(n.targets[0], ast.Name):
                continue
            name = n.targets[0].id
            if name.startswith('ZONE_ERAS_') and isinstance(n.value, ast.List):
                self.eras[name] = self._dict_entries(n.value, lines, rel, name)
            elif name.startswith('ZONE_INFO_') and name != 'ZONE_INFO_MAP' and isinstance(n.value, ast.Dict):
                self.infos[name] = Entry({self._val(k): self._val(v) for k, v in zip(n.value.keys, n.value.values)},
                                         None, '%s:%d' % (rel, n.lineno), 0, name)
            elif name == 'ZONE_INFO_MAP':
                for k, v in zip(n.value.keys, n.value.values):
                    self.info_map[self._val(k)] = self._val(v)
                self.info_map_loc = '%s:%d' % (rel, n.lineno)
        if not self.infos or not self.info_map:
            raise AnalysisError('anchor vanished: zonedbpy ZONE_INFO tables not found')
