"""The TZ compiler interpreted end to end on a sweep TZ file (E-SEQ over the Python ast, acv/pyeval.py), and its output read
back through the C++ accessors.

A small TZ source text is made whose Zone and Rule lines sweep the quantities the tables encode - STDOFF, fixed RULES
offsets, SAVE, AT and UNTIL times with every suffix, values on and off the granularity of the scope, values just inside and
just outside what a field can hold.  The compiler's own code is interpreted on it in the order tzcompiler.main() runs it:
Extractor (the text comes from an in-memory file) -> Transformer.transform() -> TzDbCollector -> ArduinoGenerator (what it
writes is captured, acv/genrender.py).  The captured zone_infos / zone_policies / zone_registry sources are then *parsed*
by clang (written to a scratch directory that is removed at once; nothing is compiled or run) and loaded by the same
table reader as the shipped databases, so that rules written for the shipped tables ("every entry read through its broker
equals its recorded line", C12-R1) apply to them unchanged.  Nothing of /repo is imported or executed."""
import os
import shutil
import tempfile

from .common import AnalysisError
from .pyeval import PyEval, Raised
from . import cxx, genrender, tables

EX = 'tools/tzdb/extractor.py'
TR = 'tools/tzdb/transformer.py'
CO = 'tools/tzdb/tzdbcollector.py'


class TextFile:
    """what open(path) gives the interpreted Extractor: lines of the sweep text"""
    pyeval_native = ('readline', 'close', 'readlines')

    def __init__(self, text):
        self.lines = text.splitlines(True)
        self.i = 0

    def readline(self):
        if self.i >= len(self.lines):
            return ''
        self.i += 1
        return self.lines[self.i - 1]

    def readlines(self):
        out = self.lines[self.i:]
        self.i = len(self.lines)
        return out

    def close(self):
        return None


# ---- the sweep ------------------------------------------------------------------------------------------------------------------

COMMON_OFFSETS = ['-12:00', '-11:30', '-9:30', '-5:00', '-4:30', '-3:30', '-2:00', '0:00', '0:15', '1:00', '5:30', '5:45', '8:45', '12:45', '14:00']
# off the quarter hour (extended keeps the minute; 5:53 and 0:14 leave a minute remainder of 8 and 14), with seconds, and outside
# what an offset code can hold
FINE_OFFSETS = ['0:01', '0:07', '-0:01', '-4:56', '-3:07', '5:53', '0:14', '-5:50:36', '0:00:30']
WIDE_OFFSETS = ['31:45', '-32:00', '32:00', '-32:15', '40:00', '-40:00']
FIXED = ['0:00', '1:00', '0:30', '0:15', '2:00', '2:45', '-1:00', '-0:15', '0:20', '0:01', '3:00', '4:00', '-1:15', '-2:00']
SAVES = ['0', '1:00', '0:30', '0:15', '2:00', '2:45', '-1:00', '-0:45', '1:30', '0:20', '0:10', '3:00', '4:00', '-1:15']
TIMES = ['0:00', '0:01', '0:15', '1:59', '2:00', '2:07', '12:00', '23:45', '23:59', '24:00', '24:15', '25:00', '26:00']
SUFFIXES = ['', 'w', 's', 'u', 'g', 'z']
UNTIL_DAYS = ['1', '11', '31', 'lastSun', 'Sun>=8', 'Sat<=25']
LETTERS = ['D', 'S', '-', 'DD', 'WAT', 'X']


def _suffixes_for(i, t):
    """2:00 with every suffix letter (g and z are alternative spellings of u), 0:01 and 24:00 with the four main ones, every other
    time with two of them in rotation"""
    main = ['', 'w', 's', 'u']
    if t == '2:00':
        return SUFFIXES
    if t in ('0:01', '24:00'):
        return main
    return [main[i % 4], main[(i + 2) % 4]]


def sweep_text(scope):
    """the sweep as TZ source text (tab separated like the IANA files); every zone name says what it sweeps"""
    out = ['# sweep for scope %s' % scope]
    n = [0]

    def zone(tag, eras):
        n[0] += 1
        name = 'Sweep/%s_%02d' % (tag, n[0])
        first = True
        for e in eras:
            out.append(('Zone\t%s\t%s' % (name, e)) if first else ('\t\t\t%s' % e))
            first = False
        return name
    # STDOFF alone
    for off in COMMON_OFFSETS + FINE_OFFSETS + WIDE_OFFSETS:
        zone('Off', ['%s\t-\tO%02dT' % (off, n[0] + 1)])
    # fixed RULES offsets
    for fx in FIXED:
        zone('Fix', ['1:00\t%s\tF%02dT' % (fx, n[0] + 1)])
    for fx, off in (('1:00', '5:45'), ('0:30', '-3:30'), ('1:00', '0:07'), ('2:00', '-4:56')):
        zone('FixOff', ['%s\t%s\tG%02dT' % (off, fx, n[0] + 1)])
    # UNTIL: year only, year+month, +day (number and weekday forms), +time with every suffix
    zone('Unt', ['2:00\t-\tUAT\t2005', '3:00\t-\tUBT'])
    zone('Unt', ['2:00\t-\tUAT\t2005\tMar', '3:00\t-\tUBT'])
    for day in UNTIL_DAYS:
        zone('UntDay', ['2:00\t-\tUAT\t2005\tMar\t%s' % day, '3:00\t-\tUBT'])
    for i, t in enumerate(TIMES):
        for sfx in _suffixes_for(i, t):
            zone('UntTime', ['2:00\t-\tUAT\t2005\tOct\t30\t%s%s' % (t, sfx), '3:00\t-\tUBT'])
    zone('UntSec', ['2:00\t-\tUAT\t2005\tOct\t30\t12:00:30', '3:00\t-\tUBT'])      # seconds: truncated with a note, or removed under --strict
    zone('UntThree', ['2:00\t-\tUAT\t2003\tMar\t9\t2:00', '2:30\t1:00\tUBT\t2007\tNov\tSun>=1\t2:00s', '3:00\t-\tUCT'])
    # policies: SAVE, AT time and suffix, letters
    pol = [0]

    def policy(save, at1, at2, l1, l2, on1='lastSun', on2='lastSun'):
        pol[0] += 1
        name = 'Sw%02d' % pol[0]
        # 'max' in two policies only: the basic transformer walks every year up to 9999 for it, which is slow to interpret
        to = 'max' if pol[0] <= 2 else '2045'
        out.append('Rule\t%s\t1990\t%s\t-\tMar\t%s\t%s\t%s\t%s' % (name, to, on1, at1, save, l1))
        out.append('Rule\t%s\t1990\t%s\t-\tOct\t%s\t%s\t0\t%s' % (name, to, on2, at2, l2))
        zone('Pol', ['-5:00\t%s\tE%%sT' % name])
        return name
    for sv in SAVES:
        policy(sv, '2:00', '2:00', 'D', 'S')
    for i, t in enumerate(TIMES):
        for sfx in _suffixes_for(i + 1, t):
            policy('1:00', '%s%s' % (t, sfx), '2:00s', 'D', 'S')
    for l1 in LETTERS:
        policy('1:00', '2:00', '2:00', l1, 'S' if l1 != 'S' else 'D')
    policy('1:00', '2:00', '3:00', 'D', 'S', on1='Sun>=8', on2='Sun>=1')
    policy('1:00', '1:00u', '1:00u', 'S', '-', on1='Sun<=25', on2='15')
    policy('1:00', '1:30:15', '2:00', 'D', 'S')
    # two zones sharing a policy, a zone that changes policy, a link
    out.append('Rule\tShared\t1995\tmax\t-\tApr\tSun>=1\t2:00\t1:00\tD')
    out.append('Rule\tShared\t1995\tmax\t-\tOct\tlastSun\t2:00\t0\tS')
    a = zone('Share', ['-6:00\tShared\tC%sT'])
    zone('Share', ['-7:00\tShared\tM%sT\t2010', '-7:00\t-\tMST'])
    out.append('Link\t%s\tSweep/Alias_01' % a)
    return '\n'.join(out) + '\n'


def feature_text():
    """a second, small source: one zone per TZ feature that BasicZoneProcessor does not implement (UNTIL finer than a year, an
    UNTIL suffix other than w, two rules of a policy in one month of one year, a transition on January 1, a LETTER longer than a
    character), next to control zones that use none of them.  CONTROLS are the zones a basic compilation has to keep."""
    out = ['# features outside the basic processor']

    def pol(name, a, b):
        out.append('Rule\t%s\t1990\t2045\t-\t%s' % (name, a))
        out.append('Rule\t%s\t1990\t2045\t-\t%s' % (name, b))
    pol('FOk', 'Mar\tlastSun\t2:00\t1:00\tD', 'Oct\tlastSun\t2:00\t0\tS')
    pol('FDec', 'Jun\t1\t0:00\t1:00\tD', 'Dec\t31\t0:00\t0\tS')
    pol('FDup', 'Mar\tSun>=8\t2:00\t1:00\tD', 'Mar\tlastSun\t2:00\t0\tS')
    out.append('Rule\tFDupY\t1990\t2045\t-\tApr\t1\t2:00\t1:00\tD')
    out.append('Rule\tFDupY\t1990\t2045\t-\tOct\t1\t2:00\t0\tS')
    out.append('Rule\tFDupY\t2010\tonly\t-\tOct\t20\t2:00\t1:00\tD')       # a second October rule in one year only
    out.append('Rule\tFDupOld\t1990\tonly\t-\tApr\t1\t2:00\t1:00\tD')        # two rules in one month of a year long before the
    out.append('Rule\tFDupOld\t1990\tonly\t-\tApr\t20\t2:00\t0\tS')         # generated years, nothing after: both are 'the latest rule before'
    pol('FJan', 'Jan\t1\t0:00\t1:00\tD', 'Jul\t1\t0:00\t0\tS')
    pol('FJanW', 'Jan\tSun>=1\t0:00\t1:00\tD', 'Jul\t1\t0:00\t0\tS')
    pol('FLong', 'Mar\tlastSun\t2:00\t1:00\tDD', 'Oct\tlastSun\t2:00\t0\tS')
    pol('FLong3', 'Mar\tlastSun\t2:00\t1:00\tD', 'Oct\tlastSun\t2:00\t0\tWAT')
    for z, p in (('Plain', 'FOk'), ('Dec31', 'FDec'), ('Dup', 'FDup'), ('DupYear', 'FDupY'), ('DupOld', 'FDupOld'), ('Jan1', 'FJan'), ('JanSun', 'FJanW'), ('Long', 'FLong'), ('Long3', 'FLong3')):
        out.append('Zone\tFeat/%s\t-5:00\t%s\tE%%sT' % (z, p))
    out.append('Zone\tFeat/Fixed\t5:30\t-\tIST')
    out.append('Zone\tFeat/TwoEras\t2:00\tFOk\tE%sT\t2005')
    out.append('\t\t\t3:00\t-\tUBT')
    for z, until in (('UntMonth', '2005\tMar'), ('UntDay', '2005\tMar\t9'), ('UntWeekday', '2005\tMar\tlastSun'), ('UntTime', '2005\tJan\t1\t2:00'),
                     ('UntSfxS', '2005\tJan\t1\t0:00s'), ('UntSfxU', '2005\tJan\t1\t0:00u'), ('UntDayS', '2005\tOct\t30\t2:00s')):
        out.append('Zone\tFeat/%s\t2:00\t-\tUAT\t%s' % (z, until))
        out.append('\t\t\t3:00\t-\tUBT')
    # one zone, policy or link per reason the transformer can give for a removal or a note that the big sweep does not reach
    for z, until in (('UdBad', '2005\tMar\tFoo'), ('UdPrev', '2005\tJan\tSun<=1'), ('UdNext', '2005\tDec\tSun>=29'), ('UdShift', '2005\tMar\tSun>=29'),
                     ('UtNeg', '2005\tOct\t30\t-1:00')):
        out.append('Zone\tFeat/%s\t2:00\t-\tUAT\t%s' % (z, until))
        out.append('\t\t\t3:00\t-\tUBT')
    out.append('Zone\tFeat/OldOnly\t1:00\t-\tOLD\t1990')
    out.append('Zone\tFeat/FmtPct\t1:00\t-\tE%sT')
    out.append('Zone\tFeat/FmtPlain\t1:00\tFOk\tEST')
    out.append('Zone\tFeat/RulesBad\t1:00\t1:xx\tFOO')
    out.append('Zone\tFeat/NonMono\t2:00\t-\tUAT\t2005')
    out.append('\t\t\t3:00\t-\tUBT\t2003')
    out.append('\t\t\t4:00\t-\tUCT')
    out.append('Zone\tFeat/FinalUntil\t2:00\t-\tUAT\t2005')
    out.append('Zone\tFeat/Du-p\t4:00\t-\tDPA')
    out.append('Zone\tFeat/Du_p\t4:00\t-\tDPB')
    pol('FUnused', 'Mar\tlastSun\t2:00\t1:00\tD', 'Oct\tlastSun\t2:00\t0\tS')
    out.append('Rule\tFOob\t1800\t2200\t-\tMar\tlastSun\t2:00\t1:00\tD')
    out.append('Rule\tFOob\t1800\t2200\t-\tOct\tlastSun\t2:00\t0\tS')
    pol('FOnBad', 'Mar\tFoo\t2:00\t1:00\tD', 'Oct\tlastSun\t2:00\t0\tS')
    pol('FOnPrev', 'Jan\tSun<=3\t2:00\t1:00\tD', 'Oct\tlastSun\t2:00\t0\tS')
    pol('FOnNext', 'Mar\tlastSun\t2:00\t1:00\tD', 'Dec\tSun>=29\t2:00\t0\tS')
    pol('FAtNeg', 'Mar\tlastSun\t-1:00\t1:00\tD', 'Oct\tlastSun\t2:00\t0\tS')
    pol('FSaveBad', 'Mar\tlastSun\t2:00\tabc\tD', 'Oct\tlastSun\t2:00\t0\tS')
    for z, p in (('Oob', 'FOob'), ('OnBad', 'FOnBad'), ('OnPrev', 'FOnPrev'), ('OnNext', 'FOnNext'), ('AtNeg', 'FAtNeg'), ('SaveBad', 'FSaveBad')):
        out.append('Zone\tFeat/%s\t-5:00\t%s\tE%%sT' % (z, p))
    out.append('Link\tFeat/OldOnly\tFeat/LinkGone')
    out.append('Link\tFeat/Plain\tFeat/Li-nk')
    out.append('Link\tFeat/Plain\tFeat/Li_nk')
    out.append('Link\tFeat/Fixed\tFeat/LinkKept')
    return '\n'.join(out) + '\n'


FEATURE_CONTROLS = ('Feat/Plain', 'Feat/Dec31', 'Feat/Fixed', 'Feat/TwoEras')


# ---- the compiler, interpreted --------------------------------------------------------------------------------------------------

def _kwargs(f, vals, what):
    out = {}
    for p in f.params[1:]:
        if p not in vals:
            raise AnalysisError('%s: %s has a parameter %s the pipeline does not know' % (f.loc, what, p))
        out[p] = vals[p]
    return out


def compile_text(cfg, text, scope, strict=False, start_year=2000, until_year=2050):
    """-> (tzdb, raw) : the TzDb record the generators are given, and the Extractor's maps"""
    ev = PyEval(cfg, max_steps=20000000)
    ev.cov = set()
    ex, tr, co = ev.module(EX), ev.module(TR), ev.module(CO)
    gran = 900 if scope == 'basic' else 60
    try:
        e = ev.instantiate(ex, 'Extractor', kwargs=_kwargs(ex.fn('Extractor.__init__'), {'input_dir': 'SWEEP'}, 'Extractor'))
        ev.call(ex, 'Extractor._parse_zone_file', [TextFile(text)], recv=e)
        for step in ('_process_rules', '_process_zones', '_process_links'):
            ev.call(ex, 'Extractor.' + step, recv=e)
        rules_map, zones_map, links_map = ev.call(ex, 'Extractor.get_data', recv=e)
        raw = {'rules_map': {k: [dict(r) for r in v] for k, v in rules_map.items()}, 'zones_map': {k: [dict(r) for r in v] for k, v in zones_map.items()},
               'links_map': dict(links_map),
               'invalid': {k: e.attrs.get(k) for k in ('invalid_rule_lines', 'invalid_zone_lines', 'invalid_link_lines')}}
        vals = dict(zones_map=zones_map, rules_map=rules_map, links_map=links_map, scope=scope, start_year=start_year, until_year=until_year,
                    until_at_granularity=60, offset_granularity=gran, strict=strict)
        t = ev.instantiate(tr, 'Transformer', kwargs=_kwargs(tr.fn('Transformer.__init__'), vals, 'Transformer'))
        ev.call(tr, 'Transformer.transform', recv=t)
        data = ev.call(tr, 'Transformer.get_data', recv=t)
    except Raised as r_:
        raise Raised('the compiler raises %s on the sweep (%s)' % (r_.what, r_.loc), r_.loc)
    names = ('zones_map', 'rules_map', 'links_map', 'removed_zones', 'removed_policies', 'removed_links', 'notable_zones', 'notable_policies',
             'notable_links', 'format_strings', 'zone_strings')
    if not isinstance(data, (tuple, list)) or len(data) != len(names):
        raise AnalysisError('%s: get_data() does not return the %d collections tzcompiler unpacks' % (tr.fn('Transformer.get_data').loc, len(names)))
    vals = dict(zip(names, data))
    vals.update(tz_version='sweep', tz_files=['sweep'], scope=scope, start_year=start_year, until_year=until_year, until_at_granularity=60,
                offset_granularity=gran, strict=strict)
    try:
        c = ev.instantiate(co, 'TzDbCollector', kwargs=_kwargs(co.fn('TzDbCollector.__init__'), vals, 'TzDbCollector'))
        tzdb = ev.call(co, 'TzDbCollector.get_data', recv=c)
    except Raised as r_:
        raise Raised('TzDbCollector raises %s on the sweep (%s)' % (r_.what, r_.loc), r_.loc)
    if not isinstance(tzdb, dict):
        raise AnalysisError('%s: TzDbCollector.get_data() does not return the TzDb record' % co.fn('TzDbCollector.get_data').loc)
    raw['coverage'] = ev.cov
    return tzdb, raw


def render(cfg, tzdb, db):
    """{file name: text} written by ArduinoGenerator for this TzDb (namespace db)"""
    return genrender.generate_files(cfg, 'arduino', tzdb, db_namespace=db, max_steps=50000000)


class RenderedTables(tables.CxxTables):
    """the captured C++ sources, parsed by clang and read like a shipped database"""

    def __init__(self, cfg, db, files):
        self.files = files
        tmp = tempfile.mkdtemp(prefix='acv-sweep-')
        try:
            d = os.path.join(tmp, 'ace_time', db)
            os.makedirs(d)
            for name, text in files.items():
                with open(os.path.join(d, name), 'w') as fh:
                    fh.write(text)
            tu_path = os.path.join(tmp, 'sweep_%s.cpp' % db)
            with open(tu_path, 'w') as fh:
                fh.write('#include <Arduino.h>\n#include "ace_time/common/compat.h"\n')
                for name in ('zone_policies.cpp', 'zone_infos.cpp', 'zone_registry.cpp'):
                    if name not in files:
                        raise AnalysisError('the Arduino generator did not write %s (files: %s)' % (name, sorted(files)))
                    fh.write('#include "ace_time/%s/%s"\n' % (db, name))
            # a constant that does not fit its member is a finding of its own (C12-R5); here the tables are read all the same
            self._tu = cxx.TU(cfg, tu_path, extra_args=['-I' + tmp, '-Wno-c++11-narrowing', '-Wno-narrowing'])
            self._tmp = tmp
            self._load_from(cfg, db)
        finally:
            shutil.rmtree(tmp, ignore_errors=True)

    def _load_from(self, cfg, db):
        self.cfg = cfg
        self.db = db
        self.scope = 'basic' if db == 'zonedb' else 'extended'
        self.ns = 'ace_time::%s::' % db
        self.tu = self._tu
        tu = self.tu
        self.struct_fields = {}
        for s in ('ZoneRule', 'ZoneEra', 'ZonePolicy', 'ZoneInfo', 'ZoneContext'):
            self.struct_fields[s] = [(n, t) for n, t, _ in tu.fields('ace_time::%s::%s' % (self.scope, s))]
        self.rules, self.rules_len, self.eras, self.eras_len, self.policies = {}, {}, {}, {}, {}
        self.letters, self.letters_len, self.strings, self.infos, self.links, self.link_loc = {}, {}, {}, {}, {}, {}
        self.zone_ids = {}
        self.registry = self.registry_len = self.registry_loc = self.registry_size_const = self.context = None
        self.registry_comments = []
        self.header_decl_comments = {}
        self.order = []
        self._load()
        # locations name the rendered file, not the scratch directory
        pre = self.cfg.rel(self._tmp) if hasattr(self.cfg, 'rel') else self._tmp
        for coll in (self.rules, self.eras):
            for arr in coll.values():
                for e in arr:
                    e.loc = self._nice(e.loc)
        for coll in (self.policies, self.infos):
            for e in coll.values():
                e.loc = self._nice(e.loc)

    def _nice(self, loc):
        s = str(loc)
        i = s.find('ace_time/%s/' % self.db)
        return ('rendered:' + s[i:]) if i >= 0 else s


# ---- one sweep, compiled, rendered and loaded -----------------------------------------------------------------------------------

def parse_source(text):
    """the checker's own reading of the sweep text (TZ source syntax): {'zones': {name: [era text]}, 'rules': {policy: [line]},
    'links': {link: target}}"""
    zones, rules, links = {}, {}, {}
    cur = None
    for raw in text.split('\n'):
        line = raw.split('#', 1)[0].rstrip()
        if not line.strip():
            continue
        t = line.split()
        if line.startswith('Rule'):
            rules.setdefault(t[1], []).append(' '.join(t))
            cur = None
        elif line.startswith('Link'):
            links[t[2]] = t[1]
            cur = None
        elif line.startswith('Zone'):
            cur = t[1]
            zones.setdefault(cur, []).append(' '.join(t[2:]))
        elif line[0] in '\t ' and cur is not None:
            zones[cur].append(' '.join(t))
    return {'zones': zones, 'rules': rules, 'links': links}


_SWEEPS = {}


class Sweep:
    """sweep text -> TzDb (interpreted compiler) -> rendered C++ sources -> tables read back"""

    def __init__(self, cfg, scope, strict=False, text=None, tag='main'):
        self.scope, self.strict, self.tag = scope, strict, tag
        self.db = 'zonedb' if scope == 'basic' else 'zonedbx'
        self.text = text if text is not None else sweep_text(scope)
        self.source = parse_source(self.text)
        self.tzdb, self.raw = compile_text(cfg, self.text, scope, strict=strict)
        self.files = render(cfg, self.tzdb, self.db)
        try:
            self.T = RenderedTables(cfg, self.db, self.files)
        except AnalysisError as ex:
            if 'clang could not parse' in str(ex):
                # what the generator wrote is not C++ the library's headers accept: a finding about the generator, not about the checker
                tail = [ln for ln in str(ex).split('\n') if 'error:' in ln][:3]
                raise Raised('the sources generated for the sweep do not compile: %s' % ' | '.join(x.strip()[-200:] for x in tail), 'tools/zonedb/argenerator.py')
            raise

    @property
    def label(self):
        return '%s%s%s' % (self.scope, ',strict' if self.strict else '', '' if self.tag == 'main' else ',' + self.tag)


def sweep(cfg, scope, strict=False, text=None, tag='main'):
    key = (cfg.repo, scope, strict, tag, hash(text))
    if key not in _SWEEPS:
        _SWEEPS[key] = Sweep(cfg, scope, strict, text, tag)
    return _SWEEPS[key]


def field_sweep_text(scope, field):
    """thorough tier: one encoded field over its whole admissible range (C12 quantifies over the full product per field)"""
    out = ['# %s sweep of %s' % (scope, field)]
    if field == 'at':
        # AT 00:00..25:00 to the minute (basic: to the quarter hour) with the three suffixes, as rules of policies of 60 rules
        step = 1 if scope == 'extended' else 15
        vals = [(m, s) for m in range(0, 25 * 60 + 1, step) for s in 'wsu']
        for i, (m, s) in enumerate(vals):
            pol = 'At%03d' % (i // 40)
            out.append('Rule\t%s\t%d\tonly\t-\t%s\t%d\t%d:%02d%s\t%s\t%s' % (pol, 2001 + (i % 40), ('Mar', 'Oct')[i % 2], 1 + i % 28, m // 60, m % 60, s,
                                                                    ('1:00', '0')[i % 2], ('D', 'S')[i % 2]))
        for k in range((len(vals) + 39) // 40):
            out.append('Zone\tSweep/At_%03d\t1:00\tAt%03d\tA%%sT' % (k, k))
    elif field == 'until':
        step = 1 if scope == 'extended' else 15
        i = 0
        for m in range(0, 25 * 60 + 1, step):
            for s in ('wsu' if scope == 'extended' else 'w'):
                i += 1
                out.append('Zone\tSweep/Un_%04d\t1:00\t-\tUAT\t2010\tJun\t15\t%d:%02d%s' % (i, m // 60, m % 60, s))
                out.append('\t\t\t2:00\t-\tUBT')
    elif field == 'offset':
        step = 1 if scope == 'extended' else 15
        i = 0
        for m in range(-16 * 60, 16 * 60 + 1, step):
            i += 1
            sign = '-' if m < 0 else ''
            out.append('Zone\tSweep/Of_%04d\t%s%d:%02d\t-\tOFT' % (i, sign, abs(m) // 60, abs(m) % 60))
    elif field == 'save':
        i = 0
        for q in range(-4, 12):
            m = 15 * q
            sign = '-' if m < 0 else ''
            sv = '%s%d:%02d' % (sign, abs(m) // 60, abs(m) % 60)
            for off in ('1:00', '-3:30', '5:45') + (('0:07', '-4:56') if scope == 'extended' else ()):
                i += 1
                out.append('Rule\tSv%03d\t1990\t2045\t-\tMar\tlastSun\t2:00\t%s\tD' % (i, sv))
                out.append('Rule\tSv%03d\t1990\t2045\t-\tOct\tlastSun\t2:00\t0\tS' % i)
                out.append('Zone\tSweep/Sv_%03d\t%s\tSv%03d\tS%%sT' % (i, off, i))
                if scope == 'extended' and m != 0:
                    out.append('Zone\tSweep/Fx_%03d\t%s\t%s\tFXT' % (i, off, sv))
    else:
        raise AnalysisError('no field sweep %r' % field)
    return '\n'.join(out) + '\n'
