"""C04, third part: the two complete algorithms on model zones.

A handful of small zones is written as TZ source text - an era change at New Year, a rule on 1 January, ordinary DST, an era
that ends at a `u` time followed by an era with a fixed RULES offset that ends at an `s` time, a policy that starts after the
first generated year (anchor rule), a "STD/DST" FORMAT - and compiled by the interpreted compiler (acv/pipeline.py).  From the
one compilation come the Python tables (InlineGenerator, interpreted) and the C++ tables (rendered, parsed by clang).

R10  the Python reference, interpreted in full (ZoneSpecifier.init_for_year and the look-up, acv/pyeval.py), answers every
     instant of the family the same under all eight combinations of its tuning options (13- / 14-month window, basic /
     optimized candidate finder, basic / in-place selector).
R11  ExtendedZoneProcessor, interpreted in full (acv/aeval.py, typed: init(), the match and transition search, the transition
     pool, the brokers over the rendered tables), gives the same total offset, DST offset and abbreviation as the reference
     for every instant of the family.
R12  the same two interpreters on shipped data: the extended processor on the shipped zonedbx tables of a sample of zones, the
     reference on the TZ lines recorded beside those entries (compiled again by the interpreted compiler).
The instants: every hour of the two days around each New Year and around every transition the reference itself reports,
plus the middle of every month, for the years 2003..2007."""
import datetime as _dt
import itertools

from .common import AnalysisError

MODEL_TEXT = """# model zones for C04
Rule\tMDst\t1990\tmax\t-\tMar\tlastSun\t2:00\t1:00\tD
Rule\tMDst\t1990\tmax\t-\tOct\tlastSun\t3:00\t0\tS
Rule\tMJan\t1990\tmax\t-\tJan\t1\t0:00\t1:00\tD
Rule\tMJan\t1990\tmax\t-\tJul\t1\t0:00\t0\tS
Rule\tMLate\t2004\tmax\t-\tApr\tSun>=1\t2:00s\t1:00\tD
Rule\tMLate\t2004\tmax\t-\tOct\tlastSun\t2:00s\t0\tS
Rule\tMNeg\t1990\tmax\t-\tMar\tlastSun\t1:00u\t0\tIST
Rule\tMNeg\t1990\tmax\t-\tOct\tlastSun\t1:00u\t-1:00\tGMT
Zone\tModel/NewYearEra\t1:00\t-\tAAT\t2005
\t\t\t2:00\t-\tBBT
Zone\tModel/JanRule\t0:00\tMJan\tJ%sT
Zone\tModel/Dst\t-5:00\tMDst\tE%sT
Zone\tModel/Mixed\t2:00\tMDst\tE%sT\t2005\tOct\t30\t1:00u
\t\t\t3:00\t1:00\tMSD\t2006\tMar\t1\t2:00s
\t\t\t3:00\t-\tMSK
Zone\tModel/Late\t1:00\tMLate\tC%sT
Zone\tModel/Slash\t0:00\tMDst\tGMT/BST
Zone\tModel/NegSave\t1:00\tMNeg\tIST/GMT
Zone\tModel/LongAbbrev\t5:30\t-\t+0530
Zone\tModel/PolicyChange\t-5:00\tMDst\tE%sT\t2005
\t\t\t-6:00\tMLate\tC%sT
Zone\tModel/FixedThenDst\t1:00\t-\tAAT\t2004
\t\t\t1:00\tMDst\tC%sT\t2006
\t\t\t2:00\t-\tBBT
"""
YEARS = (2003, 2004, 2005, 2006, 2007)
# C02 is stated about the shipped basic database.  These two model zones change to an era *with a named policy* at a New Year and
# change offset or abbreviation there; no shipped basic zone does (rule G covers every era change of the shipped ones).  On them the
# real BasicZoneProcessor places the change at the day and time of the new era's latest prior rule in January instead of at
# 1 January 00:00 (triage/model_zone_probe.py runs the real processors: 26 and 32 of 305 hourly instants around the New Years
# differ).  Reported in DESIGN.md 10.2 as an observation, not a finding against C02.
BASIC_OUTSIDE = {
    'Model/PolicyChange': 'era change to a named policy at New Year with another offset (outside what the shipped basic database contains)',
    'Model/FixedThenDst': 'era change from a fixed era to a named policy at New Year with another abbreviation (outside what the shipped basic database contains)',
}
EPOCH = _dt.datetime(2000, 1, 1)


def _secs(d):
    return int((d - EPOCH).total_seconds())


def compile_models(cfg):
    """-> (zone_infos for the reference, RenderedTables for the C++ side, tzdb)"""
    from . import pipeline
    from .pyeval import PyEval, Raised
    sw = pipeline.sweep(cfg, 'extended', text=MODEL_TEXT, tag='models')
    missing = [z for z in pipeline.parse_source(MODEL_TEXT)['zones'] if z not in sw.tzdb['zones_map']]
    if missing:
        raise AnalysisError('the compiler does not emit the model zone(s) %s (%s)' % (missing, {z: sw.tzdb['removed_zones'].get(z) for z in missing}))
    ev = PyEval(cfg, max_steps=5000000)
    ing = ev.module('tools/zonedb/ingenerator.py')
    init = ing.fn('InlineGenerator.__init__')
    kwargs = {p_: sw.tzdb[p_] for p_ in init.params[1:]}
    try:
        obj = ev.instantiate(ing, 'InlineGenerator', kwargs=kwargs)
        infos, _pols = ev.call(ing, 'InlineGenerator.generate_maps', recv=obj)
    except Raised as r_:
        raise AnalysisError('InlineGenerator raises %s on the model zones' % r_.what)
    return infos, sw.T, sw.tzdb


def base_instants(years=None):
    out = set()
    for y in (years or YEARS):
        ny = _dt.datetime(y, 1, 1)
        for h in range(-30, 31):
            out.add(_secs(ny + _dt.timedelta(hours=h)))
        for m in range(1, 13):
            out.add(_secs(_dt.datetime(y, m, 15, 12, 0)))
    return out


def option_rule(R, cfg, zs, infos, combos_limit=None):
    """R10; also returns {zone: {instant: (total, dst, abbrev)}} of the default options and the instants used per zone"""
    from .pyeval import PyEval, Raised
    R.rule('R10', 'ZoneSpecifier, interpreted in full on the model zones, answers every instant the same under all eight combinations of its tuning options', floor=6)
    ctor = zs.fn('ZoneSpecifier.__init__')
    params = [p_ for p_ in ctor.params if p_ != 'self']
    need = ('viewing_months', 'in_place_transitions', 'optimize_candidates')
    if any(n not in params for n in need):
        raise AnalysisError('%s: the tuning options %s are not all constructor parameters any more (%s)' % (ctor.loc, need, params))
    combos = [dict(viewing_months=v, in_place_transitions=i, optimize_candidates=o) for v in (14, 13) for i in (True, False) for o in (True, False)]
    if combos_limit:
        combos = combos[:combos_limit]
    reference = {}
    instants_of = {}
    thorough = cfg.tier == 'thorough'
    ys = tuple(range(2001, 2010)) if thorough else YEARS          # thorough tier: nine years instead of five
    for zname in sorted(infos):
        pev = PyEval(cfg, max_steps=400000000)
        answers = []
        c = 'ZoneSpecifier[%s]:options' % zname
        loc = zs.fn('ZoneSpecifier.init_for_year').loc
        fault = None
        instants = None
        for k, opt in enumerate(combos):
            if k >= 4 and not thorough and False:
                break
            try:
                z = pev.instantiate(zs, 'ZoneSpecifier', kwargs=dict({params[0]: infos[zname]}, **opt))
                if instants is None:
                    # the family: the hours around New Year, mid-months, and the hours around every transition the reference reports
                    inst = set(base_instants(ys))
                    for y in ys:
                        pev.call(zs, 'ZoneSpecifier.init_for_year', [y], recv=z)
                        for t in z.attrs.get('transitions') or []:
                            s_ = t.attrs.get('startEpochSecond')
                            if isinstance(s_, int):
                                for h in range(-3, 4):
                                    inst.add(s_ + 3600 * h)
                                inst.update((s_ - 1, s_ + 1))
                    lo, hi = _secs(_dt.datetime(ys[0], 1, 2)), _secs(_dt.datetime(ys[-1], 12, 30))
                    instants = sorted(e for e in inst if lo <= e <= hi)
                got = {}
                for e in instants:
                    r = pev.call(zs, 'ZoneSpecifier.get_timezone_info_for_seconds', [e], recv=z)
                    got[e] = (getattr(r, 'total_offset', None), getattr(r, 'dst_offset', None), getattr(r, 'abbrev', None)) if hasattr(r, 'total_offset') else tuple(r)[:1] + tuple(r)[2:]
                answers.append(got)
            except Raised as r_:
                fault = 'with the options %s the reference raises %s' % (opt, r_.what)
                break
        R.instance('R10', c, loc, '%d instants x %d option combinations' % (len(instants or ()), len(answers)))
        if fault:
            R.violation('R10', c, loc, '%s: %s' % (zname, fault))
            continue
        reference[zname] = answers[0]
        instants_of[zname] = instants
        for k in range(1, len(answers)):
            diff = [e for e in instants if answers[k][e] != answers[0][e]]
            if diff:
                e = diff[0]
                R.violation('R10', c, loc, '%s at %s UTC: with the default options the reference answers %s, with %s it answers %s (%d of %d instants differ): the result depends on a tuning option'
                            % (zname, EPOCH + _dt.timedelta(seconds=e), answers[0][e], {k_: v_ for k_, v_ in combos[k].items() if v_ != combos[0][k_]}, answers[k][e], len(diff), len(instants)))
                break
    return reference, instants_of


def _build(lib, ty, depth=0):
    """an object of a C++ type of the library with every member in its zero state: numbers 0, pointers null, arrays lists of
    elements, members of class type nested objects (template arguments are dropped to find the class)"""
    import re
    from .aeval import AObj
    from .cxx import int_type
    ty = (ty or '').replace('const ', '').replace('mutable ', '').strip()
    m = re.match(r'^(.*?)\s*\[(\d+)\]$', ty)
    if m:
        return [_build(lib, m.group(1), depth + 1) for _ in range(int(m.group(2)))]
    if '*' in ty or '&' in ty:
        return None
    if int_type(ty):
        return 0
    bare, d = [], 0
    for ch in ty:
        if ch == '<':
            d += 1
        elif ch == '>':
            d -= 1
        elif d == 0:
            bare.append(ch)
    bare = ''.join(bare).strip()
    for cand in (ty, bare, 'ace_time::' + bare, 'ace_time::' + ty):
        try:
            flds = lib.fields(cand)
        except Exception:
            flds = None
        if flds is not None and (flds or lib.classes.get(cand)):
            attrs, ftypes = {}, {}
            for n, t, _x in flds:
                attrs[n] = _build(lib, t, depth + 1) if depth < 8 else None
                if int_type((t or '').replace('const ', '').strip()):
                    ftypes[n] = int_type((t or '').replace('const ', '').strip())
            o = AObj(attrs, cls=cand, ftypes=ftypes)
            o.ptrs = frozenset(n for n, t, _x in flds if t and '*' in t and '[' not in t)
            return o
    raise AnalysisError('model zones: no class %r in the parsed library' % ty)


def _cstr(s):
    return [ord(ch) for ch in s] + [0]


def _bind(lib, cls, P, info):
    """the processor is bound to its zone the way its users do it: setZoneInfo()"""
    from .aeval import AEval, CxxModule
    from .rules_C04b import _cstring_ops
    f = [g for g in lib.fns(cls + '::setZoneInfo') if len(g.params) == 1]
    if not f:
        raise AnalysisError('anchor vanished: %s::setZoneInfo' % cls)
    AEval(module=CxxModule(lib, ['ace_time::']), intrinsics=_cstring_ops(), typed=True, max_steps=100000).call_function(f[0].name, [info], recv=P, chosen=CxxModule._Fn(f[0]))


def zone_graph(lib, T, scope='extended'):
    """{zone name: ZoneInfo object} over the rendered tables: every table entry becomes an object of its struct with the cells the
    generator wrote, pointers become references to the objects of the arrays they name"""
    from .tables import Ref
    NSX = 'ace_time::%s::' % scope
    ctx = _build(lib, NSX + 'ZoneContext')
    ctx.attrs.update({'startYear': T.context['startYear'], 'untilYear': T.context['untilYear'], 'tzVersion': _cstr(str(T.context.get('tzVersion', '')))})
    pols = {}

    def fill(o, cells):
        for k, v in dict(cells).items():
            if k in o.attrs and isinstance(v, int) and not isinstance(v, bool):
                o.attrs[k] = v
        return o

    def policy(psym):
        if psym not in pols:
            pe = T.policies[psym]
            po = fill(_build(lib, NSX + 'ZonePolicy'), pe.cells)
            po.attrs['rules'] = [fill(_build(lib, NSX + 'ZoneRule'), r.cells) for r in T.policy_rules(psym)]
            letters = T.policy_letters(psym)
            po.attrs['letters'] = [_cstr(s) for s in letters] if letters else None
            pols[psym] = po
        return pols[psym]
    out = {}
    for short, ie in T.infos.items():
        eras = []
        for e in T.zone_eras(short):
            eo = fill(_build(lib, NSX + 'ZoneEra'), e.cells)
            zp = e['zonePolicy']
            eo.attrs['zonePolicy'] = policy(zp.name) if isinstance(zp, Ref) else None
            fmt = e['format']
            eo.attrs['format'] = _cstr(fmt if isinstance(fmt, str) else T.strings.get(getattr(fmt, 'name', None), ''))
            eras.append(eo)
        io = fill(_build(lib, NSX + 'ZoneInfo'), ie.cells)
        io.attrs.update({'name': _cstr(T.zone_name(short)), 'zoneContext': ctx, 'eras': eras})
        out[T.zone_name(short)] = io
    return out


def processor_answers(lib, scope, T, zones, instants_of):
    """{zone: {instant: (total offset, DST offset, abbreviation)} | 'fault text'}: the processor of the scope (ExtendedZoneProcessor /
    BasicZoneProcessor) interpreted in full (E-SEQ, typed) on the rendered tables T, one processor object per zone, the instants in
    ascending order (so the year cache is refilled when the year changes, as in use)"""
    from .aeval import AEval, AObj, CxxModule, Raised, Ref
    from .rules_C04b import _cstring_ops
    cls = 'ace_time::%sZoneProcessor' % ('Extended' if scope == 'extended' else 'Basic')
    mod = CxxModule(lib, ['ace_time::'])
    intr = _cstring_ops()
    fns = {k: lib.fn(cls + '::' + k) for k in ('getUtcOffset', 'getDeltaOffset', 'getAbbrev')}
    tomin = lib.fn('ace_time::TimeOffset::toMinutes')
    iserr = lib.fn('ace_time::TimeOffset::isError')
    graph = zone_graph(lib, T, scope)

    def call(f, args, recv):
        return AEval(module=mod, intrinsics=intr, typed=True, max_steps=3000000).call_function(f.name, list(args), recv=recv, chosen=CxxModule._Fn(f))

    def text(v):
        for _ in range(3):
            if isinstance(v, Ref) and isinstance(v.box, list):
                v = v.box[v.key:] if isinstance(v.key, int) else v.get()
            elif isinstance(v, Ref):
                v = v.get()
        if isinstance(v, list) and 0 in v:
            return ''.join(chr(c_) for c_ in v[:v.index(0)])
        return repr(v)
    out = {}
    for zname in zones:
        if zname not in graph:
            raise AnalysisError('model zone %s is not in the rendered %s tables' % (zname, scope))
        P = _build(lib, cls)
        _bind(lib, cls, P, graph[zname])
        got = {}
        for e in instants_of[zname]:
            try:
                off = call(fns['getUtcOffset'], [e], P)
                dlt = call(fns['getDeltaOffset'], [e], P)
                abb = call(fns['getAbbrev'], [e], P)
                got[e] = (None if call(iserr, [], off) else 60 * call(tomin, [], off), None if call(iserr, [], dlt) else 60 * call(tomin, [], dlt), text(abb))
            except Raised as x_:
                got = 'at %s UTC the processor raises %s' % (EPOCH + _dt.timedelta(seconds=e), x_.what)
                break
            except IndexError as x_:
                got = 'at %s UTC the processor reads or writes outside an array (%s)' % (EPOCH + _dt.timedelta(seconds=e), x_)
                break
        out[zname] = got
    return out, fns['getUtcOffset'].loc


def processor_rule(R, cfg, lib, zs, T, reference, instants_of):
    """R11: ExtendedZoneProcessor interpreted in full on the rendered tables of the model zones against the reference's answers"""
    R.rule('R11', 'ExtendedZoneProcessor, interpreted in full on the model zones, reports the offset, DST offset and abbreviation of the reference at every instant of the family', floor=6)
    answers, loc = processor_answers(lib, 'extended', T, sorted(reference), instants_of)
    for zname in sorted(reference):
        c = 'ExtendedZoneProcessor[%s]~ZoneSpecifier' % zname
        got = answers[zname]
        R.instance('R11', c, loc, '%d instants' % len(instants_of[zname]))
        if isinstance(got, str):
            R.violation('R11', c, loc, '%s: %s' % (zname, got))
            continue
        diffs = [e for e in instants_of[zname] if got[e] != reference[zname][e]]
        if diffs:
            e = diffs[0]
            R.violation('R11', c, loc, '%s at %s UTC: the extended processor answers (total offset, DST offset, abbreviation) = %s, the reference %s (%d of %d instants differ)'
                        % (zname, EPOCH + _dt.timedelta(seconds=e), got[e], reference[zname][e], len(diffs), len(instants_of[zname])))
    return answers


def basic_rule(R, cfg, lib, rid='F'):
    """C02: the model zones the compiler admits to the basic database, through BasicZoneProcessor (interpreted in full on the tables
    rendered for basic scope), against ExtendedZoneProcessor on the tables rendered for extended scope from the same source, at the
    instants of the family: identical offset, DST offset and abbreviation."""
    from . import pipeline, py
    R.rule(rid, 'BasicZoneProcessor and ExtendedZoneProcessor, interpreted in full on the model zones both databases hold, give identical answers at every instant of the family', floor=3)
    zs = py.load(cfg, 'tools/zonedb/zone_specifier.py')
    infos, TX, _tzdb = compile_models(cfg)
    swb = pipeline.sweep(cfg, 'basic', text=MODEL_TEXT, tag='models')
    shared = sorted(z for z in swb.tzdb['zones_map'] if z in infos and z not in BASIC_OUTSIDE)
    for z, why in sorted(BASIC_OUTSIDE.items()):
        if z in swb.tzdb['zones_map']:
            R.note('model zone %s is left out of the basic comparison: %s' % (z, why))
    if len(shared) < 3:
        raise AnalysisError('only %s of the model zones are admitted to the basic database; the comparison needs three' % shared)
    from .common import Report
    scratch = Report('C04', cfg)          # the option rule belongs to C04; here it only supplies the instants
    reference, instants_of = option_rule(scratch, cfg, zs, {z: infos[z] for z in shared}, combos_limit=1)
    ext, loc_x = processor_answers(lib, 'extended', TX, shared, instants_of)
    bas, loc_b = processor_answers(lib, 'basic', swb.T, shared, instants_of)
    for zname in shared:
        c = 'BasicZoneProcessor[%s]~ExtendedZoneProcessor' % zname
        R.instance(rid, c, loc_b, '%d instants' % len(instants_of[zname]))
        if isinstance(bas[zname], str) or isinstance(ext[zname], str):
            R.violation(rid, c, loc_b, '%s: %s' % (zname, bas[zname] if isinstance(bas[zname], str) else 'extended: ' + ext[zname]))
            continue
        diffs = [e for e in instants_of[zname] if bas[zname][e] != ext[zname][e]]
        if diffs:
            e = diffs[0]
            R.violation(rid, c, loc_b, '%s at %s UTC: the basic processor answers (total offset, DST offset, abbreviation) = %s, the extended processor %s (the reference: %s); %d of %d instants differ'
                        % (zname, EPOCH + _dt.timedelta(seconds=e), bas[zname][e], ext[zname][e], reference[zname].get(e), len(diffs), len(instants_of[zname])))


def run_rules(R, cfg, lib, zs):
    infos, T, tzdb = compile_models(cfg)
    reference, instants_of = option_rule(R, cfg, zs, infos)
    processor_rule(R, cfg, lib, zs, T, reference, instants_of)
    shipped_reference_rule(R, cfg, lib, zs)
    return infos, T, reference, instants_of


def shipped_boundary_rule(R, cfg, lib, rid='G'):
    """C02, second sentence, on the shipped databases at the instants where the two algorithms are most unlike: every zone of
    zonedb that has more than one era changes era at a New Year (its UNTIL fields are whole years); BasicZoneProcessor on the
    zonedb tables and ExtendedZoneProcessor on the zonedbx tables are interpreted in full on the hours of the two days around
    each such New Year inside the supported years, and on the middle of every month of the year before and after."""
    from . import tables
    R.rule(rid, 'BasicZoneProcessor (zonedb) and ExtendedZoneProcessor (zonedbx), interpreted in full, give identical answers around every era change of the shipped basic zones', floor=6)
    B = tables.CxxTables(cfg, 'zonedb')
    X = tables.CxxTables(cfg, 'zonedbx')
    start, until = B.context['startYear'], B.context['untilYear']
    xnames = X.names()
    zones, instants_of = [], {}
    for short in B.infos:
        eras = B.zone_eras(short)
        name = B.zone_name(short)
        years = sorted({2000 + e['untilYearTiny'] for e in eras[:-1] if start < 2000 + e['untilYearTiny'] < until})
        if not years or name not in xnames:
            continue
        inst = set()
        for y in years:
            ny = _dt.datetime(y, 1, 1)
            for h in range(-30, 31):
                inst.add(_secs(ny + _dt.timedelta(hours=h)))
            for yy in (y - 1, y):
                for m in range(1, 13):
                    inst.add(_secs(_dt.datetime(yy, m, 15, 12, 0)))
        zones.append(name)
        instants_of[name] = sorted(inst)
    if cfg.tier != 'thorough':
        zones = zones[::2] if len(zones) > 24 else zones
    bas, loc_b = processor_answers(lib, 'basic', B, zones, instants_of)
    ext, _loc = processor_answers(lib, 'extended', X, zones, instants_of)
    for name in zones:
        c = 'zonedb~zonedbx:%s' % name
        R.instance(rid, c, loc_b, '%d instants' % len(instants_of[name]))
        if isinstance(bas[name], str) or isinstance(ext[name], str):
            R.violation(rid, c, loc_b, '%s: %s' % (name, bas[name] if isinstance(bas[name], str) else 'extended: ' + ext[name]))
            continue
        diffs = [e for e in instants_of[name] if bas[name][e] != ext[name][e]]
        if diffs:
            e = diffs[0]
            R.violation(rid, c, loc_b, '%s at %s UTC: the basic processor answers (total offset, DST offset, abbreviation) = %s, the extended processor %s; %d of %d instants differ'
                        % (name, EPOCH + _dt.timedelta(seconds=e), bas[name][e], ext[name][e], len(diffs), len(instants_of[name])))


# shipped zones with the constructs that make the extended algorithm hard: eras ending at s / u times, fixed RULES offsets, negative
# SAVE, several LETTERs, half-hour DST, a skipped day, rules on 1 January, policies that change mid-year
SHIPPED_SAMPLE = ['Europe/Istanbul', 'Asia/Famagusta', 'Europe/Dublin', 'Africa/Casablanca', 'Australia/Lord_Howe', 'Pacific/Apia', 'America/Caracas',
                  'Antarctica/Macquarie', 'Antarctica/Troll', 'America/St_Johns', 'Asia/Gaza', 'Africa/Windhoek', 'America/Los_Angeles', 'Europe/Moscow',
                  'Asia/Almaty', 'America/Argentina/San_Luis', 'Antarctica/Casey', 'Asia/Pyongyang', 'Europe/Volgograd', 'America/Belize']
SHIPPED_YEARS = (2000, 2004, 2008, 2010, 2011, 2012, 2014, 2015, 2016, 2017, 2018, 2019)


def shipped_reference(cfg, zs, X, sample, years_of):
    """the interpreted reference on the recorded lines of shipped zonedbx entries: the lines of the zones in `sample` (and of the
    policies they use) are compiled again by the interpreted compiler, ZoneSpecifier is interpreted on the result.
    -> ({zone: {instant: (total, dst, abbrev)}}, {zone: [instants]}, {zone: fault})  - the instants are the hours around every
    transition the reference reports in years_of(zone), around those New Years, and the middle of every month"""
    from . import pipeline
    from .pyeval import PyEval, Raised
    names = X.names()
    lines, pols = [], set()
    for z in sample:
        eras = X.zone_eras(names[z])
        for i, e in enumerate(eras):
            flds = (e.comment or '').split()
            lines.append(('Zone\t%s\t' % z if i == 0 else '\t\t\t') + '\t'.join(flds))
            zp = e['zonePolicy']
            if zp is not None and hasattr(zp, 'name'):
                pols.add(zp.name)
    rule_lines = []
    for psym in sorted(pols):
        for r in X.policy_rules(psym):
            c = (r.comment or '').split()
            if c[:1] == ['Anchor:']:
                continue
            rule_lines.append('\t'.join(c))
    text = '\n'.join(rule_lines + lines) + '\n'
    try:
        tzdb, _raw = pipeline.compile_text(cfg, text, 'extended', start_year=X.context['startYear'], until_year=X.context['untilYear'])
    except pipeline.Raised as r_:
        raise AnalysisError('the recorded lines of the sample zones do not compile: %s' % r_.what)
    gone = [z for z in sample if z not in tzdb['zones_map']]
    if gone:
        raise AnalysisError('recompiling the recorded lines drops %s (%s)' % (gone, {z: tzdb['removed_zones'].get(z) for z in gone}))
    ev = PyEval(cfg, max_steps=50000000)
    ing = ev.module('tools/zonedb/ingenerator.py')
    init = ing.fn('InlineGenerator.__init__')
    obj = ev.instantiate(ing, 'InlineGenerator', kwargs={p_: tzdb[p_] for p_ in init.params[1:]})
    infos, _p = ev.call(ing, 'InlineGenerator.generate_maps', recv=obj)
    ctor = zs.fn('ZoneSpecifier.__init__')
    first = [p_ for p_ in ctor.params if p_ != 'self'][0]
    reference, instants_of, faults = {}, {}, {}
    for z in sample:
        pev = PyEval(cfg, max_steps=2000000000)
        try:
            spec = pev.instantiate(zs, 'ZoneSpecifier', kwargs={first: infos[z]})
            inst = set()
            years = years_of(z)
            for y in years:
                pev.call(zs, 'ZoneSpecifier.init_for_year', [y], recv=spec)
                for tr in spec.attrs.get('transitions') or []:
                    s_ = tr.attrs.get('startEpochSecond')
                    if isinstance(s_, int):
                        inst.update(s_ + 3600 * h for h in (-2, -1, 0, 1, 2))
                        inst.update((s_ - 1, s_ + 1))
                ny = _dt.datetime(y, 1, 1)
                inst.update(_secs(ny + _dt.timedelta(hours=h)) for h in (-14, -1, 0, 1, 14))
                inst.update(_secs(_dt.datetime(y, m, 15, 12, 0)) for m in range(1, 13))
            lo, hi = _secs(_dt.datetime(years[0], 1, 2)), _secs(_dt.datetime(years[-1], 12, 30))
            instants = sorted(e for e in inst if lo <= e <= hi and (EPOCH + _dt.timedelta(seconds=e)).year in years)
            got = {}
            for e in instants:
                r = pev.call(zs, 'ZoneSpecifier.get_timezone_info_for_seconds', [e], recv=spec)
                got[e] = (r.total_offset, r.dst_offset, r.abbrev)
        except Raised as r_:
            faults[z] = r_.what
            continue
        reference[z], instants_of[z] = got, instants
    return reference, instants_of, faults


def shipped_reference_rule(R, cfg, lib, zs):
    """R12: "given the same zone data": the TZ lines recorded beside the shipped zonedbx entries of a sample of zones (C12-R1 holds the
    tables to those lines) are compiled again by the interpreted compiler and given to the interpreted reference; the shipped
    zonedbx tables themselves go to the interpreted ExtendedZoneProcessor; both are asked about the hours around every transition the
    reference reports in the sample years, around those New Years and about the middle of every month."""
    from . import pipeline, tables
    from .pyeval import PyEval, Raised
    R.rule('R12', 'ExtendedZoneProcessor on the shipped zonedbx tables agrees with the reference on the recorded lines of the same entries (quick tier: a sample of zones; thorough tier: every zone; interpreted in full)', floor=3)
    X = tables.CxxTables(cfg, 'zonedbx')
    names = X.names()
    thorough = cfg.tier == 'thorough'
    sample = [z for z in SHIPPED_SAMPLE if z in names]
    if not thorough:
        sample = sample[:6]
    else:
        # thorough tier: every zone of zonedbx - the sample over twelve years, the rest over five
        sample = sample + sorted(z for z in names if z not in SHIPPED_SAMPLE)
    import os
    if os.environ.get('ACV_R12_ZONES'):
        # exploration outside the registered tiers: 'all', or a comma-separated list of zone names
        want_ = os.environ['ACV_R12_ZONES']
        sample = sorted(names) if want_ == 'all' else [z for z in want_.split(',') if z in names]
    years_quick = SHIPPED_YEARS[3:9]

    def years_of(z):
        if not thorough:
            return years_quick
        return SHIPPED_YEARS if z in SHIPPED_SAMPLE else (2001, 2007, 2011, 2015, 2019)
    if len(sample) < 3:
        raise AnalysisError('fewer than three of the sample zones are in zonedbx (%s)' % sample)
    reference, instants_of, faults = shipped_reference(cfg, zs, X, sample, years_of)
    loc = zs.fn('ZoneSpecifier.init_for_year').loc
    for z, what in sorted(faults.items()):
        R.instance('R12', 'zonedbx~reference:%s' % z, loc)
        R.violation('R12', 'zonedbx~reference:%s' % z, loc, '%s: the reference raises %s on the recorded lines' % (z, what))
    answers, cloc = processor_answers(lib, 'extended', X, sorted(reference), instants_of)
    for z in sorted(reference):
        c = 'zonedbx~reference:%s' % z
        got = answers[z]
        R.instance('R12', c, cloc, '%d instants' % len(instants_of[z]))
        if isinstance(got, str):
            R.violation('R12', c, cloc, '%s: %s' % (z, got))
            continue
        diffs = [e for e in instants_of[z] if got[e] != reference[z][e]]
        if diffs:
            e = diffs[0]
            R.violation('R12', c, cloc, '%s at %s UTC: the extended processor on the shipped tables answers (total offset, DST offset, abbreviation) = %s, the reference on the recorded lines %s '
                        '(%d of %d instants differ)' % (z, EPOCH + _dt.timedelta(seconds=e), got[e], reference[z][e], len(diffs), len(instants_of[z])))


def reference_timeline(cfg, zs, info, years):
    """[(start epoch second, total offset, DST offset, abbreviation)] of the interpreted reference over the years, ascending, without
    repeats: what the zone is at from each start on"""
    from .pyeval import PyEval
    ctor = zs.fn('ZoneSpecifier.__init__')
    first = [p_ for p_ in ctor.params if p_ != 'self'][0]
    pev = PyEval(cfg, max_steps=400000000)
    spec = pev.instantiate(zs, 'ZoneSpecifier', kwargs={first: info})
    out = {}
    for y in years:
        pev.call(zs, 'ZoneSpecifier.init_for_year', [y], recv=spec)
        for tr in spec.attrs.get('transitions') or []:
            s_ = tr.attrs.get('startEpochSecond')
            r = pev.call(zs, 'Transition.to_timezone_tuple', [], recv=tr)
            if isinstance(s_, int):
                out[s_] = (r.total_offset, r.dst_offset, r.abbrev)
    line = []
    for s_ in sorted(out):
        if not line or line[-1][1:] != out[s_]:
            line.append((s_,) + out[s_])
    return line


def local_time_rule(R, cfg, lib, rid='R4'):
    """C07 on the model zones through the real processors (no stand-in for the zone): getOffsetDateTime(local date-time) of
    ExtendedZoneProcessor and BasicZoneProcessor is interpreted in full on the local times one second before / at / inside / at the end
    of / just after every gap and overlap of the years 2004..2006 and on ordinary noons; the timeline of the interpreted reference
    says which local times exist once, twice or not at all.  Once: the same fields with the offset in force.  Twice: one of the two
    readings - the later one for the extended processor.  Not at all: the instant obtained with the offset in force before the gap,
    i.e. the wall time moved forward by the length of the gap.  Always: the offset the result carries is the zone's offset at the
    instant it denotes."""
    from . import pipeline, py
    from .aeval import AEval, AObj, CxxModule, Raised
    from .rules_C04b import _cstring_ops
    R.rule(rid, 'getOffsetDateTime() of both processors, interpreted in full on the model zones, resolves local times that exist once, twice and not at all as the property says', floor=4)
    zs = py.load(cfg, 'tools/zonedb/zone_specifier.py')
    infos, TX, _tzdb = compile_models(cfg)
    swb = pipeline.sweep(cfg, 'basic', text=MODEL_TEXT, tag='models')
    mod = CxxModule(lib, ['ace_time::'])
    intr = _cstring_ops()

    def call(f, args, recv=None):
        return AEval(module=mod, intrinsics=intr, typed=True, max_steps=3000000).call_function(f.name, list(args), recv=recv, chosen=CxxModule._Fn(f))

    def fn(q, n=None):
        fs = [f for f in lib.fns(q) if n is None or len(f.params) == n]
        if not fs:
            raise AnalysisError('anchor vanished: %s' % q)
        return fs[0]
    ldt_for = fn('ace_time::LocalDateTime::forComponents', 6)
    odt_epoch = fn('ace_time::OffsetDateTime::toEpochSeconds', 0)
    odt_err = fn('ace_time::OffsetDateTime::isError', 0)
    odt_off = fn('ace_time::OffsetDateTime::timeOffset', 0)
    to_min = fn('ace_time::TimeOffset::toMinutes', 0)
    getters = [fn('ace_time::OffsetDateTime::' + k, 0) for k in ('year', 'month', 'day', 'hour', 'minute', 'second')]
    years = (2003, 2004, 2005, 2006, 2007)
    for scope, T, cls in (('extended', TX, 'ace_time::ExtendedZoneProcessor'), ('basic', swb.T, 'ace_time::BasicZoneProcessor')):
        f = fn(cls + '::getOffsetDateTime', 1)
        graph = zone_graph(lib, T, scope)
        zones = sorted(z for z in graph if z in infos and (scope == 'extended' or z not in BASIC_OUTSIDE))
        for zname in zones:
            line = reference_timeline(cfg, zs, infos[zname], years)

            def at(e, line=line):
                cur = None
                for s_, tot, _d, _a in line:
                    if s_ <= e:
                        cur = tot
                return cur if cur is not None else line[0][1]
            locals_ = set()
            for i in range(1, len(line)):
                T_, oa = line[i][0], line[i][1]
                ob = line[i - 1][1]
                when = EPOCH + _dt.timedelta(seconds=T_)
                if ob == oa or not (2004 <= when.year <= 2006):
                    continue
                lo, hi = T_ + min(ob, oa), T_ + max(ob, oa)
                for l_ in (lo - 1, lo, (lo + hi) // 2, hi - 1, hi, hi + 3600):
                    locals_.add(l_)
            for y in (2004, 2005, 2006):
                for m in (1, 4, 7, 10):
                    locals_.add(_secs(_dt.datetime(y, m, 15, 12, 0)))
            c = '%s[%s]:local-times' % (f.name, zname)
            bad, n = None, 0
            P = _build(lib, cls)
            _bind(lib, cls, P, graph[zname])
            offs = sorted({x[1] for x in line})
            try:
                for l_ in sorted(locals_):
                    when = EPOCH + _dt.timedelta(seconds=l_)
                    fields = (when.year, when.month, when.day, when.hour, when.minute, when.second)
                    rs = sorted({(l_ - tot, tot) for tot in offs if at(l_ - tot) == tot})
                    odt = call(f, [call(ldt_for, list(fields))], recv=P)
                    n += 1
                    txt = '%s local time %04d-%02d-%02d %02d:%02d:%02d' % ((zname,) + fields)
                    if not isinstance(odt, AObj) or call(odt_err, [], recv=odt):
                        bad = bad or '%s: the result is the error value' % txt
                        continue
                    e = call(odt_epoch, [], recv=odt)
                    tot = 60 * call(to_min, [], recv=call(odt_off, [], recv=odt))
                    out = tuple(call(g, [], recv=odt) for g in getters)
                    if at(e) != tot:
                        bad = bad or '%s: the result denotes the instant %d with a UTC offset of %d s, but the zone is at %d s then: it does not survive a round trip through its own instant' % (txt, e, tot, at(e))
                    elif len(rs) == 1 and (out != fields or (e, tot) != rs[0]):
                        bad = bad or '%s exists exactly once (offset %d s) but comes back as %s with offset %d s' % (txt, rs[0][1], out, tot)
                    elif len(rs) == 2 and (e, tot) not in rs:
                        bad = bad or '%s exists twice and comes back as neither of its readings (%s, offset %d s)' % (txt, out, tot)
                    elif len(rs) == 2 and scope == 'extended' and (e, tot) != rs[-1]:
                        bad = bad or '%s exists twice; the extended processor returns the earlier reading (offset %d s), the property asks for the later one' % (txt, tot)
                    elif len(rs) == 0:
                        # the offset in force before the gap: the gap is the transition whose wall-clock jump contains l_
                        ob_ = next((line[i - 1][1] for i in range(1, len(line)) if line[i][0] + line[i - 1][1] <= l_ < line[i][0] + line[i][1]), None)
                        if ob_ is None:
                            bad = bad or '%s: internal: no gap found around a local time without a reading' % txt
                        elif e != l_ - ob_:
                            bad = bad or '%s falls in a gap; the result denotes the instant %d, the offset in force before the gap (%d s) gives %d' % (txt, e, ob_, l_ - ob_)
            except Raised as x_:
                bad = bad or 'interpretation raises %s' % x_.what
            except IndexError as x_:
                bad = bad or 'a read or write outside an array (%s)' % x_
            R.instance(rid, c, f.loc, '%d local times' % n)
            if bad:
                R.violation(rid, c, f.loc, bad)


def history_rule(R, cfg, lib, rid='R7'):
    """C08 on the model zones through the real TimeZone and processors: two TimeZone values of two different zones share ONE
    processor object (the documented way to save memory); every sequence of up to three (zone, instant) queries is made - offset, DST
    offset and abbreviation through TimeZone, which re-binds the processor - and the answers of the last query must be what a fresh
    processor gives for that zone and instant.  The instants include two years, a New Year, a year outside the zone data (the error
    value), so the sequences cross every kind of cache refill, re-bind and failed fill."""
    from . import pipeline
    from .aeval import AEval, AObj, CxxModule, Raised, Ref
    from .rules_C04b import _cstring_ops
    import itertools
    R.rule(rid, 'through TimeZone values that share one processor, the answer to a query does not depend on the queries made before it (model zones, interpreted in full)', floor=4)
    infos, TX, _tzdb = compile_models(cfg)
    swb = pipeline.sweep(cfg, 'basic', text=MODEL_TEXT, tag='models')
    mod = CxxModule(lib, ['ace_time::'])
    intr = _cstring_ops()
    TZ = 'ace_time::TimeZone'
    fns = {k: [f for f in lib.fns(TZ + '::' + k) if len(f.params) == 1][0] for k in ('getUtcOffset', 'getDeltaOffset', 'getAbbrev')}
    tomin = lib.fn('ace_time::TimeOffset::toMinutes')
    iserr = lib.fn('ace_time::TimeOffset::isError')
    thorough = cfg.tier == 'thorough'

    def call(f, args, recv=None):
        return AEval(module=mod, intrinsics=intr, typed=True, max_steps=3000000).call_function(f.name, list(args), recv=recv, chosen=CxxModule._Fn(f))

    def text(v):
        for _ in range(3):
            if isinstance(v, Ref) and isinstance(v.box, list):
                v = v.box[v.key:] if isinstance(v.key, int) else v.get()
            elif isinstance(v, Ref):
                v = v.get()
        if isinstance(v, list) and 0 in v:
            return ''.join(chr(c_) for c_ in v[:v.index(0)])
        return repr(v)

    def ask(tz, e):
        off = call(fns['getUtcOffset'], [e], tz)
        dlt = call(fns['getDeltaOffset'], [e], tz)
        abb = call(fns['getAbbrev'], [e], tz)
        return (None if call(iserr, [], off) else call(tomin, [], off), None if call(iserr, [], dlt) else call(tomin, [], dlt), text(abb))
    instants = [_secs(_dt.datetime(2004, 7, 15, 12)), _secs(_dt.datetime(2005, 1, 15, 12)), _secs(_dt.datetime(2005, 7, 15, 12)), _secs(_dt.datetime(2005, 1, 1, 0, 30)),
                _secs(_dt.datetime(2005, 10, 30, 0, 30)), _secs(_dt.datetime(2060, 6, 1))]
    # the second pair of each scope differs in the length of the abbreviation (a buffer that keeps the tail of a longer text shows there)
    for scope, T, cls, pair, full in (('extended', TX, 'ace_time::ExtendedZoneProcessor', ('Model/Dst', 'Model/Mixed'), True),
                                      ('extended', TX, 'ace_time::ExtendedZoneProcessor', ('Model/LongAbbrev', 'Model/Slash'), False),
                                      ('basic', swb.T, 'ace_time::BasicZoneProcessor', ('Model/Dst', 'Model/Late'), True),
                                      ('basic', swb.T, 'ace_time::BasicZoneProcessor', ('Model/LongAbbrev', 'Model/Slash'), False)):
        graph = zone_graph(lib, T, scope)
        if any(z not in graph for z in pair):
            raise AnalysisError('model zones %s are not in the %s tables' % (pair, scope))
        mk = [f for f in lib.fns(TZ + '::forZoneInfo') if len(f.params) == 2 and any('%s::ZoneInfo' % scope in (t_ or '') for _p, t_ in f.params)]
        if not mk:
            raise AnalysisError('anchor vanished: TimeZone::forZoneInfo(const %s::ZoneInfo*, processor)' % scope)
        mk = mk[0]

        def zones_on(P):
            return {z: call(mk, [graph[z] if 'ZoneInfo' in (pt_ or '') else P for (_pn, pt_) in mk.params]) for z in pair}
        c = '%s:shared-by-%s' % (cls, '+'.join(z.split('/')[-1] for z in pair))
        bad, n = None, 0
        try:
            fresh = {}
            for z in pair:
                for e in instants:
                    fresh[(z, e)] = ask(zones_on(_build(lib, cls))[z], e)
            short = [(z, e) for z in pair for e in (instants[0], instants[2], instants[5])]
            if full:
                queries = [(z, e) for z in pair for e in instants]
                seqs = list(itertools.product(queries, repeat=2))
                seqs += list(itertools.product(short, repeat=3)) if thorough else [s_ for s_ in itertools.product(short, repeat=3) if s_[0][0] != s_[1][0]]
            else:
                # a winter instant, a summer instant, a year outside the zone data
                seqs = list(itertools.product([(z, e) for z in pair for e in (instants[1], instants[2], instants[5])], repeat=2))
            for seq in seqs:
                P = _build(lib, cls)
                tzs = zones_on(P)
                got = None
                for z, e in seq:
                    got = ask(tzs[z], e)
                n += 1
                z, e = seq[-1]
                if got != fresh[(z, e)] and bad is None:
                    bad = 'after the queries %s on one shared processor, %s at %s UTC answers (offset min, DST min, abbreviation) = %s; a fresh processor answers %s' % (
                        ['%s@%s' % (z_, EPOCH + _dt.timedelta(seconds=e_)) for z_, e_ in seq[:-1]], z, EPOCH + _dt.timedelta(seconds=e), got, fresh[(z, e)])
        except Raised as x_:
            bad = bad or 'interpretation raises %s' % x_.what
        except IndexError as x_:
            bad = bad or 'a read or write outside an array (%s)' % x_
        R.instance(rid, c, fns['getUtcOffset'].loc, '%d query sequences' % n)
        if bad:
            R.violation(rid, c, fns['getUtcOffset'].loc, bad)


def python_history_rule(R, cfg, rid='R8'):
    """C08 for the Python reference: one ZoneSpecifier object answers a query the same whatever was asked of it before - queries by
    epoch seconds and by date-time in the same and in other years (also a year outside the zone data, which raises), init_for_year()
    on its own, and get_buffer_sizes(), which walks the years and leaves the object on the last one.  The answer of the last query of
    every sequence is compared with the answer of a fresh object (model zones, interpreted in full)."""
    from . import py
    from .pyeval import PyEval, Raised
    import itertools
    R.rule(rid, 'ZoneSpecifier: the answer to a query does not depend on what the object was asked before, get_buffer_sizes() included (model zones, interpreted in full)', floor=1)
    zs = py.load(cfg, 'tools/zonedb/zone_specifier.py')
    infos, _TX, _tzdb = compile_models(cfg)
    ctor = zs.fn('ZoneSpecifier.__init__')
    first = [p_ for p_ in ctor.params if p_ != 'self'][0]
    loc = zs.fn('ZoneSpecifier.init_for_year').loc
    has_sizes = 'ZoneSpecifier.get_buffer_sizes' in zs.funcs
    for zname in (('Model/Dst', 'Model/Mixed') if cfg.tier == 'thorough' else ('Model/Dst',)):
        if zname not in infos:
            raise AnalysisError('model zone %s is not among the compiled ones' % zname)
        pev = PyEval(cfg, max_steps=400000000)

        def answer(spec, q):
            kind, arg = q
            try:
                if kind == 'seconds':
                    r = pev.call(zs, 'ZoneSpecifier.get_timezone_info_for_seconds', [arg], recv=spec)
                elif kind == 'datetime':
                    r = pev.call(zs, 'ZoneSpecifier.get_timezone_info_for_datetime', [arg], recv=spec)
                elif kind == 'init':
                    pev.call(zs, 'ZoneSpecifier.init_for_year', [arg], recv=spec)
                    return 'done'
                else:
                    pev.call(zs, 'ZoneSpecifier.get_buffer_sizes', list(arg), recv=spec)
                    return 'done'
            except Raised as r_:
                return 'raises %s' % str(r_.what)[:60]
            if r is None:
                return None
            return (getattr(r, 'total_offset', None), getattr(r, 'dst_offset', None), getattr(r, 'abbrev', None)) if hasattr(r, 'total_offset') else tuple(r)
        queries = [('seconds', _secs(_dt.datetime(2004, 7, 15, 12))), ('seconds', _secs(_dt.datetime(2005, 1, 15, 12))), ('seconds', _secs(_dt.datetime(2005, 7, 15, 12))),
                   ('seconds', _secs(_dt.datetime(2005, 1, 1, 0, 30))), ('seconds', _secs(_dt.datetime(2006, 12, 31, 23, 30))), ('datetime', _dt.datetime(2005, 7, 15, 12)),
                   ('datetime', _dt.datetime(2006, 2, 1, 3)), ('seconds', _secs(_dt.datetime(2006, 7, 1)))]
        if 'ZoneSpecifier.get_timezone_info_for_datetime' not in zs.funcs:
            queries = [q for q in queries if q[0] != 'datetime']
        before = [('init', 2004), ('init', 2006), ('init', 2007)] + ([('sizes', (2000, 2007)), ('sizes', (2004, 2006))] if has_sizes else [])
        c = 'ZoneSpecifier[%s]:history' % zname
        bad, n = None, 0
        fresh = {}
        for q in queries:
            fresh[q] = answer(pev.instantiate(zs, 'ZoneSpecifier', kwargs={first: infos[zname]}), q)
        if cfg.tier == 'thorough':
            seqs = [(a, b) for a in queries + before for b in queries] + [(a, b, c_) for a in before for b in queries[:3] for c_ in queries[2:6]]
        else:
            seqs = [(a, b) for a in [queries[0], queries[2], queries[4]] + before for b in (queries[1], queries[2], queries[5], queries[7]) if b in fresh]
            seqs += [(a, queries[0], b) for a in before[-2:] for b in (queries[2], queries[7])]
        for seq in seqs:
            spec = pev.instantiate(zs, 'ZoneSpecifier', kwargs={first: infos[zname]})
            got = None
            for q in seq:
                got = answer(spec, q)
            n += 1
            if got != fresh[seq[-1]] and bad is None:
                def show_q(q):
                    return '%s(%s)' % ({'seconds': 'at', 'datetime': 'local', 'init': 'init_for_year', 'sizes': 'get_buffer_sizes'}[q[0]],
                                       (EPOCH + _dt.timedelta(seconds=q[1])) if q[0] == 'seconds' else q[1])
                bad = '%s: after %s the query %s answers %s; a fresh ZoneSpecifier answers %s' % (zname, [show_q(q) for q in seq[:-1]], show_q(seq[-1]), got, fresh[seq[-1]])
        R.instance(rid, c, loc, '%d query sequences' % n)
        if bad:
            R.violation(rid, c, loc, bad)


def zoned_roundtrip_rule(R, cfg, lib, rid='R6'):
    """C05 on the model zones through the real TimeZone and processors: ZonedDateTime::forEpochSeconds(e, zone) is interpreted in full
    for the instants around every transition of 2004..2006 (and mid-months); the fields must be the UTC fields shifted by the offset the
    interpreted reference has at e, toEpochSeconds() must give e back, toUnixSeconds() e + 946684800, and convertToTimeZone() to another
    model zone must keep the instant and show that zone's local fields."""
    from . import pipeline, py
    from .aeval import AEval, AObj, CxxModule, Raised
    from .rules_C04b import _cstring_ops
    R.rule(rid, 'ZonedDateTime on the model zones through the real processors: instant -> fields -> instant, Unix variant, conversion to another zone (interpreted in full)', floor=4)
    zs = py.load(cfg, 'tools/zonedb/zone_specifier.py')
    infos, TX, _tzdb = compile_models(cfg)
    swb = pipeline.sweep(cfg, 'basic', text=MODEL_TEXT, tag='models')
    mod = CxxModule(lib, ['ace_time::'])
    intr = _cstring_ops()
    Z = 'ace_time::ZonedDateTime'
    TZ = 'ace_time::TimeZone'

    def call(f, args, recv=None):
        return AEval(module=mod, intrinsics=intr, typed=True, max_steps=3000000).call_function(f.name, list(args), recv=recv, chosen=CxxModule._Fn(f))

    def fn(q, n=None):
        fs = [f for f in lib.fns(q) if n is None or len(f.params) == n]
        if not fs:
            raise AnalysisError('anchor vanished: %s' % q)
        return fs[0]
    f_for = fn(Z + '::forEpochSeconds', 2)
    f_back = fn(Z + '::toEpochSeconds', 0)
    f_unix = fn(Z + '::toUnixSeconds', 0)
    f_conv = fn(Z + '::convertToTimeZone', 1)
    f_err = fn(Z + '::isError', 0)
    getters = [fn(Z + '::' + k, 0) for k in ('year', 'month', 'day', 'hour', 'minute', 'second')]
    unix = lib.const('ace_time::LocalDate::kSecondsSinceUnixEpoch')
    years = (2003, 2004, 2005, 2006, 2007)
    for scope, T, cls in (('extended', TX, 'ace_time::ExtendedZoneProcessor'), ('basic', swb.T, 'ace_time::BasicZoneProcessor')):
        graph = zone_graph(lib, T, scope)
        zones = sorted(z for z in graph if z in infos and (scope == 'extended' or z not in BASIC_OUTSIDE))
        mk = [f for f in lib.fns(TZ + '::forZoneInfo') if len(f.params) == 2 and any('%s::ZoneInfo' % scope in (t_ or '') for _p, t_ in f.params)][0]
        lines = {z: reference_timeline(cfg, zs, infos[z], years) for z in zones}

        def at(z, e):
            cur = None
            for s_, tot, _d, _a in lines[z]:
                if s_ <= e:
                    cur = tot
            return cur if cur is not None else lines[z][0][1]
        tzs = {z: call(mk, [graph[z] if 'ZoneInfo' in (pt_ or '') else _build(lib, cls) for (_pn, pt_) in mk.params]) for z in zones}
        for k, z in enumerate(zones):
            cands_ = [x for x in zones if x != z and x != 'Model/JanRule']
            other = cands_[k % len(cands_)]
            inst = set()
            for i in range(1, len(lines[z])):
                T_ = lines[z][i][0]
                if 2004 <= (EPOCH + _dt.timedelta(seconds=T_)).year <= 2006:
                    inst.update((T_ - 3600, T_ - 1, T_, T_ + 1, T_ + 3600))
            for y in (2004, 2005, 2006):
                inst.update(_secs(_dt.datetime(y, m, 15, 12, 0)) for m in (1, 7))
                inst.update((_secs(_dt.datetime(y, 1, 1)) - 1, _secs(_dt.datetime(y, 1, 1))))
            if z != 'Model/JanRule':
                # the first and the last day of the zone data (a standard-time January / December in every model zone but the one
                # whose rule falls on 1 January)
                lo_, hi_ = _secs(_dt.datetime(T.context['startYear'], 1, 1)), _secs(_dt.datetime(T.context['untilYear'], 1, 1))
                inst.update((lo_, lo_ + 43200, lo_ + 86399, hi_ - 86400, hi_ - 1))
            c = '%s[%s,%s]' % (f_for.name, scope, z)
            bad, n = None, 0
            try:
                for e in sorted(inst):
                    n += 1
                    zdt = call(f_for, [e, tzs[z]])
                    txt = '%s at %s UTC' % (z, EPOCH + _dt.timedelta(seconds=e))
                    if not isinstance(zdt, AObj) or call(f_err, [], recv=zdt):
                        bad = bad or '%s: forEpochSeconds() gives the error value' % txt
                        continue
                    got = tuple(call(g, [], recv=zdt) for g in getters)
                    w = EPOCH + _dt.timedelta(seconds=e + at(z, e))
                    want = (w.year, w.month, w.day, w.hour, w.minute, w.second)
                    back = call(f_back, [], recv=zdt)
                    u = call(f_unix, [], recv=zdt)
                    if got != want or back != e or u != e + unix:
                        bad = bad or '%s: the fields are %s (the zone is at %+d s: %s), toEpochSeconds() gives %r, toUnixSeconds() %r (expected %d)' % (txt, got, at(z, e), want, back, u, e + unix)
                        continue
                    z2 = call(f_conv, [tzs[other]], recv=zdt)
                    if not isinstance(z2, AObj) or call(f_err, [], recv=z2):
                        bad = bad or '%s converted to %s is the error value' % (txt, other)
                        continue
                    got2 = tuple(call(g, [], recv=z2) for g in getters)
                    w2 = EPOCH + _dt.timedelta(seconds=e + at(other, e))
                    if call(f_back, [], recv=z2) != e or got2 != (w2.year, w2.month, w2.day, w2.hour, w2.minute, w2.second):
                        bad = bad or '%s converted to %s: instant %r (expected %d), fields %s (that zone is at %+d s)' % (txt, other, call(f_back, [], recv=z2), e, got2, at(other, e))
            except Raised as x_:
                bad = bad or 'interpretation raises %s' % x_.what
            except IndexError as x_:
                bad = bad or 'a read or write outside an array (%s)' % x_
            R.instance(rid, c, f_for.loc, '%d instants' % n)
            if bad:
                R.violation(rid, c, f_for.loc, bad)


def shipped_pair_rule(R, cfg, lib, rid='H'):
    """C02, second sentence, on every zone both shipped databases hold (thorough tier; the quick tier takes every eighth zone):
    BasicZoneProcessor on the zonedb tables and ExtendedZoneProcessor on the zonedbx tables, interpreted in full, at the hours around
    every transition the interpreted reference reports for the zone in five years, around those New Years and in the middle of every
    month; the reference's own answers are the third column of the report."""
    from . import tables, py
    R.rule(rid, 'BasicZoneProcessor (zonedb) and ExtendedZoneProcessor (zonedbx), interpreted in full, give identical answers around every transition of the zones both databases hold', floor=20)
    zs = py.load(cfg, 'tools/zonedb/zone_specifier.py')
    B = tables.CxxTables(cfg, 'zonedb')
    X = tables.CxxTables(cfg, 'zonedbx')
    bnames, xnames = B.names(), X.names()
    shared = sorted(z for z in bnames if z in xnames)
    if cfg.tier != 'thorough':
        shared = shared[::8]
    years = (2001, 2007, 2011, 2015, 2019) if cfg.tier == 'thorough' else (2007, 2015)
    reference, instants_of, faults = shipped_reference(cfg, zs, X, shared, lambda z: years)
    zones = sorted(reference)
    bas, loc_b = processor_answers(lib, 'basic', B, zones, instants_of)
    ext, _l = processor_answers(lib, 'extended', X, zones, instants_of)
    for z in shared:
        c = 'zonedb~zonedbx:%s' % z
        R.instance(rid, c, loc_b, '%d instants' % len(instants_of.get(z, ())))
        if z in faults:
            R.violation(rid, c, loc_b, '%s: the reference raises %s on the recorded lines' % (z, faults[z]))
            continue
        if isinstance(bas[z], str) or isinstance(ext[z], str):
            R.violation(rid, c, loc_b, '%s: %s' % (z, bas[z] if isinstance(bas[z], str) else 'extended: ' + ext[z]))
            continue
        diffs = [e for e in instants_of[z] if bas[z][e] != ext[z][e]]
        if diffs:
            e = diffs[0]
            R.violation(rid, c, loc_b, '%s at %s UTC: the basic processor answers (total offset, DST offset, abbreviation) = %s, the extended processor %s (the reference: %s); %d of %d instants differ'
                        % (z, EPOCH + _dt.timedelta(seconds=e), bas[z][e], ext[z][e], reference[z].get(e), len(diffs), len(instants_of[z])))

