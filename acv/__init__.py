"""acv - static analysis of seandst/AceTime (see /verif/DESIGN.md)."""
