"""C++ front end: clang JSON AST loader, declaration index, constant folding, lowering to the IR."""
import json
import os
import re
import subprocess
import tempfile

from .common import AnalysisError, VERIF
from .ir import E, S

CLANG = os.environ.get('ACV_CLANG', 'clang++')

INT_TYPES = {
    'bool': (1, False), 'char': (8, True), 'signed char': (8, True), 'unsigned char': (8, False),
    'short': (16, True), 'unsigned short': (16, False), 'int': (32, True), 'unsigned int': (32, False),
    'long': (64, True), 'unsigned long': (64, False), 'long long': (64, True),
    'unsigned long long': (64, False),
    # <stdint.h> names (clang leaves the pointee of a pointer-to-typedef sugared)
    'int8_t': (8, True), 'uint8_t': (8, False), 'int16_t': (16, True), 'uint16_t': (16, False),
    'int32_t': (32, True), 'uint32_t': (32, False), 'int64_t': (64, True), 'uint64_t': (64, False),
}


def int_type(ty):
    """(width, signed) of an integer type string, or None."""
    if ty is None:
        return None
    t = ty.replace('const ', '').replace('volatile ', '').strip()
    if t.endswith(' const'):
        t = t[:-6]
    return INT_TYPES.get(t)


def wrap(v, width, signed):
    if width == 1:
        return 1 if v else 0
    m = 1 << width
    v %= m
    if signed and v >= m >> 1:
        v -= m
    return v


def nty(n):
    t = n.get('type')
    if not t:
        return None
    return t.get('desugaredQualType') or t.get('qualType')


class Func:
    def __init__(self, tu, node, qual, cls, inst):
        self.tu = tu
        self.node = node
        self.name = qual
        self.cls = cls
        self.inst = inst
        self.loc = tu.loc(node)
        self.ret = (nty(node) or '').split('(')[0].strip()
        self.params = [(c.get('name', ''), nty(c)) for c in node.get('inner', []) if c.get('kind') == 'ParmVarDecl']
        self._body = None
        self._raw = None
        self.access = node.get('_access')       # public / protected / private for members, None for free functions
        self.is_static = node.get('storageClass') == 'static'
        self.is_virtual = bool(node.get('virtual'))

    @property
    def defaults(self):
        """per parameter: the clang node of its default argument, or None (the default may stand on an earlier declaration of the
        function - in the class - rather than on its definition)"""
        if getattr(self, '_defaults', None) is None:
            out = [None] * len(self.params)
            node = self.node
            for _ in range(4):
                if node is None:
                    break
                pv = [c for c in node.get('inner', []) if c.get('kind') == 'ParmVarDecl']
                for i, c in enumerate(pv[:len(out)]):
                    sub = [x for x in c.get('inner', []) if 'Comment' not in x.get('kind', '') and 'Attr' not in x.get('kind', '')]
                    if out[i] is None and 'init' in c and sub:
                        out[i] = sub[-1]
                node = self.tu.by_id.get(node.get('previousDecl')) if node.get('previousDecl') else None
            self._defaults = out
        return self._defaults

    @property
    def required(self):
        """number of parameters without a default argument"""
        d = self.defaults
        n = len(d)
        while n > 0 and d[n - 1] is not None:
            n -= 1
        return n

    @property
    def raw_body(self):
        """the normalised body as written (calls to later-extracted helpers still in place)"""
        if self._raw is None:
            from .ir import normalise
            self._raw = normalise(Lowerer(self.tu, self).lower_function())
        return self._raw

    @property
    def body(self):
        """the body every rule analyses: helpers that are not part of the reference vocabulary are inlined"""
        if self._body is None:
            from .ir import normalise
            from .inline import inline_helpers, self_getters
            self._body = normalise(self_getters(inline_helpers(self.raw_body, self.tu, self.name), self.tu, self))
        return self._body

    def __repr__(self):
        return '<Func %s%s @%s>' % (self.name, ('<' + self.inst + '>') if self.inst else '', self.loc)


_VOCAB = None


def load_vocabulary():
    """the qualified names of the library functions of the tree the checker was built against (acv/vocabulary.txt,
    written by tools/mkvocab.py); empty when the file is missing - then nothing is treated as a later-extracted helper"""
    global _VOCAB
    if _VOCAB is None:
        p = os.path.join(os.path.dirname(os.path.abspath(__file__)), 'vocabulary.txt')
        _VOCAB = set()
        if os.path.exists(p):
            with open(p) as fh:
                _VOCAB = {ln.strip() for ln in fh if ln.strip() and not ln.startswith('#')}
    return _VOCAB


class TU:
    """One parsed translation unit."""

    def __init__(self, cfg, tu_path, extra_args=(), src_root=None):
        self.cfg = cfg
        self.tu_path = tu_path
        self.src_root = src_root or cfg.src()
        self.root = self._parse(extra_args)
        self.by_id = {}
        self.qual = {}        # decl id -> qualified name (non-local decls only)
        self.funcs = {}       # qualified name -> [Func] (definitions with bodies)
        self.decls = {}       # qualified name -> [decl nodes] (all non-local named decls)
        self.classes = {}     # qualified name -> [record nodes with definitions]
        self.globals = {}     # qualified name -> VarDecl node with init (prefers definitions)
        self._texts = {}
        self._annotate()
        self._index(self.root, '', None, None)
        # functions that are not part of the reference vocabulary are helpers somebody extracted later (acv/inline.py):
        # their calls are inlined into their callers, and the non-public ones are analysed only there
        self.vocabulary = load_vocabulary()
        self.helpers = {}
        if self.vocabulary:
            for q in list(self.funcs):
                if q.startswith('ace_time::') and q not in self.vocabulary:
                    self.helpers[q] = self.funcs.pop(q)
            if self.helpers:
                self._settle_helpers()

    def _settle_helpers(self):
        """a helper stays hidden (analysed only inside its callers) when it is called from the vocabulary functions and every
        such call could be inlined; one that is never called, or whose call had to be left in place, is analysed on its own"""
        from .ir import all_exprs
        called, remaining = set(), set()
        todo = [f for q, fs in self.funcs.items() if q.startswith('ace_time::') for f in fs if f.inst != 'primary']
        seen = set()
        while todo:
            f = todo.pop()
            if id(f) in seen:
                continue
            seen.add(id(f))
            try:
                raw = f.raw_body
                body = f.body if f.name not in self.helpers else raw
            except AnalysisError:
                continue
            for e in all_exprs(raw):
                if e.k == 'call' and e.a[0] in self.helpers:
                    if e.a[0] not in called:
                        called.add(e.a[0])
                        todo.extend(x for x in self.helpers[e.a[0]] if x.inst != 'primary')
            if f.name not in self.helpers:
                for e in all_exprs(body):
                    if e.k == 'call' and e.a[0] in self.helpers:
                        remaining.add(e.a[0])
        for q in list(self.helpers):
            if q not in called or q in remaining:
                self.funcs[q] = self.helpers.pop(q)

    # -- parsing ---------------------------------------------------------------
    def _parse(self, extra_args):
        fd, out = tempfile.mkstemp(prefix='acv-ast-', suffix='.json')
        os.close(fd)
        try:
            tu_path = self.tu_path
            scratch = None
            renames = {}
            for _attempt in range(6):
                cmd = [CLANG, '-std=c++11', '-DUNIX_HOST_DUINO', '-I' + os.path.join(VERIF, 'shim'),
                       '-I' + self.src_root, '-fsyntax-only', '-Xclang', '-ast-dump=json',
                       '-fno-color-diagnostics'] + list(extra_args) + [tu_path]
                with open(out, 'w') as fh:
                    p = subprocess.run(cmd, stdout=fh, stderr=subprocess.PIPE, text=True)
                if p.returncode == 0:
                    break
                # the translation unit includes several .cpp files of the library one after the other; a file-local name (a
                # constant in an unnamed namespace, a static helper) defined in two of them collides here although the library
                # compiles them apart.  The name is given a per-file spelling (#define around that one #include) and the unit is
                # parsed again.
                import re as _re
                hits = _re.findall(r'([^\s:]+\.cpp):\d+:\d+: error: redefinition of \'(\w+)\'', p.stderr)
                new = False
                for fpath, name in hits:
                    base = os.path.basename(fpath)
                    if name not in renames.setdefault(base, set()):
                        renames[base].add(name)
                        new = True
                if not new:
                    break
                text = open(self.tu_path).read().split('\n')
                outl = []
                for ln in text:
                    m_ = _re.match(r'^\s*#include\s+"([^"]+\.cpp)"', ln)
                    if m_ and os.path.basename(m_.group(1)) in renames:
                        b_ = os.path.basename(m_.group(1))
                        tag = _re.sub(r'\W', '_', b_[:-4])
                        for nm in sorted(renames[b_]):
                            outl.append('#define %s %s__%s' % (nm, nm, tag))
                        outl.append(ln)
                        for nm in sorted(renames[b_]):
                            outl.append('#undef %s' % nm)
                    else:
                        outl.append(ln)
                if scratch is None:
                    fd2, scratch = tempfile.mkstemp(prefix='acv-tu-', suffix='.cpp')
                    os.close(fd2)
                with open(scratch, 'w') as fh:
                    fh.write('\n'.join(outl))
                tu_path = scratch
            if scratch is not None:
                try:
                    os.unlink(scratch)
                except OSError:
                    pass
            if p.returncode != 0:
                raise AnalysisError('clang could not parse %s against %s:\n%s' %
                                    (self.tu_path, self.src_root, p.stderr[-3000:]))
            with open(out) as fh:
                return json.load(fh)
        finally:
            try:
                os.unlink(out)
            except OSError:
                pass

    def _annotate(self):
        """clang prints file/line only when they change: carry them forward in document order."""
        state = ['', 0]
        by_id = self.by_id

        def do_loc(d):
            if 'spellingLoc' in d or 'expansionLoc' in d:
                if 'spellingLoc' in d:
                    do_loc(d['spellingLoc'])
                if 'expansionLoc' in d:
                    do_loc(d['expansionLoc'])
                    e = d['expansionLoc']
                    d['_f'], d['_l'] = e.get('_f', state[0]), e.get('_l', state[1])
                return
            if 'file' in d:
                state[0] = d['file']
            if 'line' in d:
                state[1] = d['line']
            d['_f'], d['_l'] = state[0], state[1]

        stack = [self.root]
        # iterative pre-order in key order; 'inner' last (clang emits it last)
        while stack:
            n = stack.pop()
            if not isinstance(n, dict):
                continue
            i = n.get('id')
            if i is not None and 'kind' in n:
                by_id.setdefault(i, n)
            loc = n.get('loc')
            if isinstance(loc, dict) and loc:
                do_loc(loc)
            rng = n.get('range')
            if isinstance(rng, dict):
                if rng.get('begin'):
                    do_loc(rng['begin'])
                if rng.get('end'):
                    do_loc(rng['end'])
            inner = n.get('inner')
            if inner:
                stack.extend(reversed(inner))

    def loc(self, n):
        """'relative/file:line' of a node (best effort: own loc, else range begin)."""
        for d in (n.get('loc'), (n.get('range') or {}).get('begin')):
            if isinstance(d, dict) and '_f' in d:
                return '%s:%s' % (self.cfg.rel(d['_f']), d['_l'])
        return '?'

    def file_of(self, n):
        for d in (n.get('loc'), (n.get('range') or {}).get('begin')):
            if isinstance(d, dict) and '_f' in d:
                return d['_f']
        return ''

    def line_of(self, n):
        for d in (n.get('loc'), (n.get('range') or {}).get('begin')):
            if isinstance(d, dict) and '_l' in d:
                return d['_l']
        return 0

    def end_line_of(self, n):
        d = (n.get('range') or {}).get('end')
        if isinstance(d, dict) and '_l' in d:
            return d['_l']
        return self.line_of(n)

    def in_repo(self, n):
        return self.file_of(n).startswith(self.src_root)

    def text_lines(self, path):
        if path not in self._texts:
            with open(path, encoding='utf-8', errors='replace') as fh:
                self._texts[path] = fh.read().split('\n')
        return self._texts[path]

    # -- indexing --------------------------------------------------------------
    def _index(self, n, prefix, cls, inst):
        acc = None if cls is None else ('private' if n.get('tagUsed') == 'class' else 'public')
        for c in n.get('inner', []):
            k = c.get('kind')
            name = c.get('name')
            if k == 'AccessSpecDecl':
                acc = c.get('access', acc)
                continue
            if k in ('CXXMethodDecl', 'FunctionTemplateDecl', 'CXXConstructorDecl') and cls is not None:
                c['_access'] = acc
                if k == 'FunctionTemplateDecl':
                    for x in c.get('inner', []):
                        if x.get('kind') in ('CXXMethodDecl', 'FunctionDecl'):
                            x['_access'] = acc
            if k == 'NamespaceDecl':
                self._index(c, prefix + (name or '(anon)') + '::', None, None)
            elif k == 'LinkageSpecDecl':
                self._index(c, prefix, cls, inst)
            elif k in ('CXXRecordDecl', 'ClassTemplateSpecializationDecl', 'ClassTemplatePartialSpecializationDecl'):
                if not name or c.get('isImplicit'):
                    if name:
                        continue
                    # anonymous struct/union: members belong to the enclosing class
                    self._index(c, prefix, cls, inst)
                    continue
                q = prefix + name
                self.qual[c['id']] = q
                self.decls.setdefault(q, []).append(c)
                ci = inst
                if k != 'CXXRecordDecl':
                    ci = self._targs(c)
                c['_inst'] = ci
                if c.get('completeDefinition') or any(x.get('kind') in ('FieldDecl', 'CXXMethodDecl') for x in c.get('inner', [])):
                    self.classes.setdefault(q, []).append(c)
                self._index(c, q + '::', q, ci)
            elif k == 'ClassTemplateDecl':
                q = prefix + name
                self.qual[c['id']] = q
                for x in c.get('inner', []):
                    if x.get('kind') == 'CXXRecordDecl':
                        x['_primary'] = True
                self._index(c, prefix, cls, 'primary')
            elif k == 'FunctionTemplateDecl':
                # the first function inside is the pattern (dependent expressions), the others are its instantiations
                pattern_seen = False
                for x in c.get('inner', []):
                    if x.get('kind') in ('FunctionDecl', 'CXXMethodDecl'):
                        if pattern_seen and inst != 'primary':
                            x['_ftinst'] = self._targs(x) or 'instantiation'
                        pattern_seen = True
                self._index(c, prefix, cls, 'primary')
            elif k in ('FunctionDecl', 'CXXMethodDecl', 'CXXConstructorDecl', 'CXXDestructorDecl', 'CXXConversionDecl'):
                owner = cls
                pfx = prefix
                pid = c.get('parentDeclContextId')
                finst = inst
                if pid and pid in self.qual and k != 'FunctionDecl':
                    owner = self.qual[pid]
                    pfx = owner + '::'
                    finst = self.by_id.get(pid, {}).get('_inst', inst)
                if c.get('_ftinst'):
                    finst = c['_ftinst']
                q = pfx + (name or '?')
                self.qual[c['id']] = q
                self.decls.setdefault(q, []).append(c)
                if any(x.get('kind') == 'CompoundStmt' for x in c.get('inner', [])) and not c.get('isImplicit'):
                    self.funcs.setdefault(q, []).append(Func(self, c, q, owner, finst))
            elif k == 'VarDecl':
                pid = c.get('parentDeclContextId')
                pfx = prefix
                if pid and pid in self.qual:
                    pfx = self.qual[pid] + '::'
                q = pfx + name
                self.qual[c['id']] = q
                c['_cls'] = cls
                self.decls.setdefault(q, []).append(c)
                if 'init' in c or q not in self.globals:
                    if 'init' in c or q not in self.globals:
                        # keep the first declaration with an initialiser
                        if not ('init' in self.globals.get(q, {}) and 'init' not in c):
                            if q not in self.globals or 'init' not in self.globals[q]:
                                self.globals[q] = c
            elif k == 'FieldDecl':
                self.qual[c['id']] = prefix + (name or '')
                c['_cls'] = cls
            elif k == 'EnumDecl':
                q = prefix + name if name else prefix.rstrip(':')
                epfx = (prefix + name + '::') if (name and c.get('scopedEnumTag')) else prefix
                prev = None
                for x in c.get('inner', []):
                    if x.get('kind') == 'EnumConstantDecl':
                        self.qual[x['id']] = epfx + x['name']
                        self.decls.setdefault(epfx + x['name'], []).append(x)
                        x['_prev'] = prev            # an enumerator without an initialiser is its predecessor + 1 (the first: 0)
                        prev = x
            elif k in ('TypedefDecl', 'TypeAliasDecl'):
                self.qual[c['id']] = prefix + (name or '')
                self.decls.setdefault(prefix + (name or ''), []).append(c)

    def _targs(self, c):
        out = []
        for x in c.get('inner', []):
            if x.get('kind') == 'TemplateArgument':
                if 'type' in x:
                    out.append(x['type'].get('qualType', '?'))
                elif 'value' in x:
                    out.append(str(x['value']))
                elif 'decl' in x:
                    out.append(x['decl'].get('name', '?'))
                else:
                    inner = x.get('inner', [])
                    v = self.fold_node(inner[0]) if inner else None
                    out.append(str(v) if v is not None else '?')
        return ', '.join(out)

    # -- look-ups ----------------------------------------------------------------
    def is_helper(self, qual):
        """a function of the library that the reference vocabulary does not know"""
        return bool(self.vocabulary) and qual.startswith('ace_time::') and qual not in self.vocabulary and \
            bool(self.funcs.get(qual) or self.helpers.get(qual))

    def fns(self, qual, inst=None, allow_primary=False):
        fs = self.funcs.get(qual) or self.helpers.get(qual, [])
        real = [f for f in fs if f.inst != 'primary']
        if real:
            fs = real
        elif not allow_primary:
            fs = [f for f in fs if f.inst != 'primary'] or (fs if fs and all(f.inst == 'primary' for f in fs) else fs)
        if inst is not None:
            fs = [f for f in fs if f.inst and inst in f.inst]
        return fs

    def fn(self, qual, inst=None):
        fs = self.fns(qual, inst)
        if not fs:
            raise AnalysisError('anchor vanished: no definition of function %s%s in the parsed library' %
                                (qual, (' [' + inst + ']') if inst else ''))
        return fs[0]

    def has_fn(self, qual):
        return bool(self.funcs.get(qual) or self.helpers.get(qual))

    def cls(self, qual, inst=None):
        cs = self.classes.get(qual, [])
        real = [c for c in cs if not c.get('_primary')]
        cs = real or cs
        if inst is not None:
            cs = [c for c in cs if inst in (c.get('_inst') or '')]
        if not cs and '::' not in qual and inst is None:
            # a struct declared inside a function body (its type is printed without a scope): found by a walk over the bodies, once
            if not hasattr(self, '_local_classes'):
                self._local_classes = {}

                def walk(n):
                    if isinstance(n, dict):
                        if n.get('kind') == 'DeclStmt':
                            for d in n.get('inner', []):
                                if d.get('kind') == 'CXXRecordDecl' and d.get('name') and d.get('completeDefinition'):
                                    self._local_classes.setdefault(d['name'], d)
                        for v in n.get('inner', []) or []:
                            walk(v)
                for fs in self.funcs.values():
                    for f in fs:
                        walk(f.node)
            if qual in self._local_classes:
                return self._local_classes[qual]
        if not cs:
            raise AnalysisError('anchor vanished: no definition of class %s' % qual)
        return cs[0]

    def fields(self, qual, inst=None):
        """[(name, type string, FieldDecl node)] in declaration order (anonymous unions flattened)."""
        out = []

        def rec(c):
            for x in c.get('inner', []):
                if x.get('kind') == 'FieldDecl':
                    if x.get('name'):
                        out.append((x['name'], nty(x), x))
                elif x.get('kind') == 'CXXRecordDecl' and not x.get('name') and not x.get('isImplicit'):
                    rec(x)
        rec(self.cls(qual, inst))
        return out

    def methods(self, qual, inst=None):
        return [x for x in self.cls(qual, inst).get('inner', [])
                if x.get('kind') in ('CXXMethodDecl', 'CXXConstructorDecl')]

    def global_value(self, qual):
        g = self.globals.get(qual)
        if g is None or 'init' not in g:
            return None
        inner = [x for x in g.get('inner', []) if x.get('kind') not in ('FullComment',) and 'Attr' not in x.get('kind', '')]
        if not inner:
            return None
        v = self.fold_node(inner[0])
        if v is None:
            return None
        it = int_type(nty(g))
        return wrap(v, *it) if it else v

    def array_values(self, qual):
        """Folded elements of a constant array definition."""
        for d in self.decls.get(qual, []):
            if d.get('kind') == 'VarDecl' and 'init' in d:
                inner = [x for x in d.get('inner', []) if x.get('kind') == 'InitListExpr']
                if inner:
                    items = inner[0]['array_filler'][1:] if inner[0].get('array_filler') else inner[0].get('inner', [])
                    vals = [self.fold_node(x) for x in items]
                    m_ = re.search(r'\[(\d+)\]\s*$', nty(d) or '')
                    if inner[0].get('array_filler') and m_ and len(vals) < int(m_.group(1)):
                        vals += [0] * (int(m_.group(1)) - len(vals))
                    if all(v is not None for v in vals):
                        return vals
        raise AnalysisError('anchor vanished: constant array %s' % qual)

    def const(self, qual):
        v = self.global_value(qual)
        if v is None:
            raise AnalysisError('anchor vanished: constant %s has no foldable initialiser' % qual)
        return v

    def _enumerator(self, d):
        if not d:
            return None
        for x in d.get('inner', []):
            v = self.fold_node(x)
            if v is not None:
                return v
        if any(x.get('kind') not in ('FullComment',) and 'Attr' not in x.get('kind', '') for x in d.get('inner', [])):
            return None                     # an initialiser that does not fold
        if '_prev' not in d:
            return None
        if d['_prev'] is None:
            return 0
        pv = self._enumerator(d['_prev'])
        return None if pv is None else pv + 1

    # -- constant folding on raw nodes -------------------------------------------
    def fold_node(self, n, env=None):
        k = n.get('kind')
        if k == 'IntegerLiteral':
            return int(n['value'])
        if k == 'CharacterLiteral':
            return int(n['value'])
        if k == 'CXXBoolLiteralExpr':
            return 1 if n['value'] else 0
        if k == 'ConstantExpr' and 'value' in n:
            try:
                return int(n['value'])
            except ValueError:
                pass
        inner = n.get('inner', [])
        if k in ('ParenExpr', 'ConstantExpr', 'ExprWithCleanups', 'MaterializeTemporaryExpr',
                 'SubstNonTypeTemplateParmExpr', 'CXXFunctionalCastExpr', 'CStyleCastExpr',
                 'CXXStaticCastExpr', 'ImplicitCastExpr'):
            sub = [x for x in inner if x.get('kind') not in ('NonTypeTemplateParmDecl',)]
            if not sub:
                return None
            v = self.fold_node(sub[-1], env)
            if v is None:
                return None
            ck = n.get('castKind')
            if ck in ('IntegralCast', 'IntegralToBoolean') or (k != 'ImplicitCastExpr' and ck is None and int_type(nty(n)) and k in ('CStyleCastExpr', 'CXXStaticCastExpr', 'CXXFunctionalCastExpr')):
                it = int_type(nty(n))
                if it:
                    return wrap(v, *it)
            return v
        if k == 'DeclRefExpr':
            rd = n.get('referencedDecl', {})
            if rd.get('kind') == 'EnumConstantDecl':
                return self._enumerator(self.by_id.get(rd['id']))
            if rd.get('kind') == 'VarDecl':
                if env and rd.get('id') in env:
                    return env[rd['id']]
                q = self.qual.get(rd.get('id'))
                if q:
                    t = nty(rd) or ''
                    if 'const' in t:
                        return self.global_value(q)
            return None
        if k == 'UnaryOperator':
            v = self.fold_node(inner[0], env)
            if v is None:
                return None
            op = n['opcode']
            r = {'-': -v, '+': v, '~': ~v, '!': 0 if v else 1}.get(op)
            if r is None:
                return None
            it = int_type(nty(n))
            return wrap(r, *it) if it else r
        if k == 'BinaryOperator':
            a = self.fold_node(inner[0], env)
            b = self.fold_node(inner[1], env)
            if a is None or b is None:
                return None
            r = fold_binop(n['opcode'], a, b)
            if r is None:
                return None
            it = int_type(nty(n))
            return wrap(r, *it) if it else r
        if k == 'ConditionalOperator':
            c = self.fold_node(inner[0], env)
            if c is None:
                return None
            return self.fold_node(inner[1] if c else inner[2], env)
        if k == 'UnaryExprOrTypeTraitExpr' and n.get('name') == 'sizeof':
            t = (n.get('argType') or {}).get('desugaredQualType') or (n.get('argType') or {}).get('qualType')
            if t is None and inner:
                t = nty(inner[0])
            it = int_type(t)
            if it:
                return max(1, it[0] // 8)
            m_ = re.match(r'^(.*?)\s*\[(\d+)\]\s*$', t or '')
            if m_ and int_type(m_.group(1)):
                return int(m_.group(2)) * max(1, int_type(m_.group(1))[0] // 8)       # sizeof of an array of integers
            return None
        return None


def fold_binop(op, a, b):
    try:
        if op == '+':
            return a + b
        if op == '-':
            return a - b
        if op == '*':
            return a * b
        if op == '/':
            if b == 0:
                return None
            q = abs(a) // abs(b)
            return q if (a >= 0) == (b >= 0) else -q
        if op == '%':
            if b == 0:
                return None
            q = abs(a) // abs(b)
            q = q if (a >= 0) == (b >= 0) else -q
            return a - q * b
        if op == '<<':
            return a << b
        if op == '>>':
            return a >> b
        if op == '&':
            return a & b
        if op == '|':
            return a | b
        if op == '^':
            return a ^ b
        if op == '==':
            return int(a == b)
        if op == '!=':
            return int(a != b)
        if op == '<':
            return int(a < b)
        if op == '<=':
            return int(a <= b)
        if op == '>':
            return int(a > b)
        if op == '>=':
            return int(a >= b)
        if op == '&&':
            return int(bool(a) and bool(b))
        if op == '||':
            return int(bool(a) or bool(b))
    except (ValueError, OverflowError):
        return None
    return None


DROP_CASTS = {'LValueToRValue', 'NoOp', 'ArrayToPointerDecay', 'FunctionToPointerDecay', 'DerivedToBase',
              'UncheckedDerivedToBase', 'ConstructorConversion', 'BitCast', 'UserDefinedConversion',
              'BuiltinFnToFnPtr', 'ToVoid', 'Dependent', 'BaseToDerived'}
TRANSPARENT = {'ParenExpr', 'ExprWithCleanups', 'MaterializeTemporaryExpr', 'CXXBindTemporaryExpr',
               'ConstantExpr', 'SubstNonTypeTemplateParmExpr', 'CXXDefaultInitExpr'}


class Lowerer:
    def __init__(self, tu, func=None):
        self.tu = tu
        self.func = func
        self.local_names = {}   # decl id -> unique local name
        self.used_names = {}

    def L(self, n):
        return self.tu.loc(n)

    # -- functions --------------------------------------------------------------
    def lower_function(self):
        node = self.func.node
        for c in node.get('inner', []):
            if c.get('kind') == 'ParmVarDecl':
                self._local(c)
        out = []
        for c in node.get('inner', []):
            if c.get('kind') == 'CXXCtorInitializer' and c.get('baseInit') and c.get('inner'):
                # Base(args...) in the initialiser list: the base constructor runs on this object
                src = c['inner'][0]
                while src.get('kind') in TRANSPARENT and src.get('inner'):
                    src = src['inner'][-1]
                if src.get('kind') == 'CXXConstructExpr':
                    bq = _clean_type((c['baseInit'] or {}).get('qualType', ''))
                    if not bq.startswith('ace_') and '::' in self.func.name:
                        bq = '::'.join(self.func.name.split('::')[:-2] + [bq])       # written relative to the namespace of the derived class
                    bname = '%s::%s' % (bq, bq.split('::')[-1].split('<')[0])
                    args = [self.expr(a) for a in src.get('inner', []) if a.get('kind') != 'CXXDefaultArgExpr']
                    if bname in self.tu.funcs or bname in getattr(self.tu, 'helpers', {}):      # an implicit base constructor does nothing
                        out.append(S('expr', E('call', bname, E('this', loc=self.L(src)), args, loc=self.L(src)), loc=self.L(src)))
                continue
            if c.get('kind') == 'CXXCtorInitializer' and c.get('delegatingInit') and c.get('inner'):
                # Class(args...) in the initialiser list of a constructor of Class: that constructor runs on this object
                src = c['inner'][0]
                while src.get('kind') in TRANSPARENT and src.get('inner'):
                    src = src['inner'][-1]
                if src.get('kind') == 'CXXConstructExpr':
                    args = [self.expr(a) for a in src.get('inner', []) if a.get('kind') != 'CXXDefaultArgExpr']
                    out.append(S('expr', E('delegate', _clean_type((c['delegatingInit'] or {}).get('qualType', '')), args, loc=self.L(src), raw=src), loc=self.L(src)))
                continue
            if c.get('kind') == 'CXXCtorInitializer':
                tgt = c.get('anyInit')
                inner = c.get('inner', [])
                if tgt and inner:
                    src = inner[0]
                    if src.get('kind') == 'CXXDefaultInitExpr' and not src.get('inner'):
                        # `T m = init;` in the class: the initialiser written at the member is what this constructor stores
                        fd = self.tu.by_id.get(tgt.get('id'), {})
                        dflt = [x for x in fd.get('inner', []) if 'Comment' not in x.get('kind', '') and 'Attr' not in x.get('kind', '')]
                        if dflt:
                            src = dflt[-1]
                    out.append(S('assign', E('field', E('this'), tgt.get('name'), loc=self.L(inner[0])),
                                 self.expr(src), '=', loc=self.L(inner[0])))
        for c in node.get('inner', []):
            if c.get('kind') == 'CompoundStmt':
                out.extend(self.block(c))
        return out

    def _local(self, decl):
        i = decl.get('id')
        if i in self.local_names:
            return self.local_names[i]
        nm = decl.get('name') or '_anon'
        k = self.used_names.get(nm, 0)
        self.used_names[nm] = k + 1
        u = nm if k == 0 else '%s#%d' % (nm, k + 1)
        self.local_names[i] = u
        return u

    # -- statements -------------------------------------------------------------
    def block(self, n):
        if n is None or not n:
            return []
        if n.get('kind') == 'CompoundStmt':
            out = []
            for c in n.get('inner', []):
                out.extend(self.stmt(c))
            return out
        return self.stmt(n)

    def stmt(self, n):
        k = n.get('kind')
        loc = self.L(n)
        inner = n.get('inner', [])
        if k == 'CompoundStmt':
            return self.block(n)
        if k == 'NullStmt':
            return []
        if k == 'DeclStmt':
            out = []
            for d in inner:
                if d.get('kind') == 'VarDecl':
                    nm = self._local(d)
                    init = None
                    sub = [x for x in d.get('inner', []) if 'Comment' not in x.get('kind', '') and 'Attr' not in x.get('kind', '')]
                    if 'init' in d and sub:
                        init = self.expr(sub[-1])
                    out.append(S('decl', nm, nty(d), init, loc=self.L(d), raw=d))
            return out
        if k == 'IfStmt':
            if n.get('hasInit') or n.get('hasVar'):
                raise AnalysisError('%s: if-statement with init/condition variable is not a recognised idiom' % loc)
            cond = inner[0]
            cv = self.tu.fold_node(cond)
            then = self.block(inner[1])
            els = self.block(inner[2]) if len(inner) > 2 else []
            if cv is not None and self._is_literal_cond(cond):
                # macro-disabled debug block (`if (0)`) or `if (1)`: dead branch dropped
                return then if cv else els
            mv = self._macro_value(cond)
            if mv is not None:
                return then if mv else els      # `if (DEBUG_MACRO && x)` with the macro 0: the same dead block
            return [S('if', self.expr(cond), then, els, loc=loc, raw=n)]
        if k == 'SwitchStmt':
            if n.get('hasInit') or n.get('hasVar'):
                raise AnalysisError('%s: switch with init is not a recognised idiom' % loc)
            cond = self.expr(inner[0])
            arms = []
            body = inner[1]
            if body.get('kind') != 'CompoundStmt':
                raise AnalysisError('%s: switch body is not a compound statement' % loc)
            for c in body.get('inner', []):
                labels = []
                cur = c
                while cur.get('kind') in ('CaseStmt', 'DefaultStmt'):
                    ci = cur.get('inner', [])
                    if cur['kind'] == 'CaseStmt':
                        labels.append(self.expr(ci[0]))
                        cur = ci[-1]
                    else:
                        labels.append(None)
                        cur = ci[-1]
                if labels:
                    arms.append((labels, self.stmt(cur)))
                else:
                    if not arms:
                        raise AnalysisError('%s: statement before the first case label' % loc)
                    arms[-1][1].extend(self.stmt(c))
            return [S('switch', cond, arms, loc=loc, raw=n)]
        if k == 'ForStmt':
            init = self.stmt(inner[0]) if inner[0] else []
            if inner[1]:
                raise AnalysisError('%s: for-loop condition variable is not a recognised idiom' % loc)
            cond = self.expr(inner[2]) if inner[2] else None
            step = self.stmt(inner[3]) if inner[3] else []
            return [S('loop', 'for', init, cond, step, self.block(inner[4]), loc=loc, raw=n)]
        if k == 'WhileStmt':
            cond = inner[0]
            cv = self.tu.fold_node(cond)
            ce = None if (cv is not None and cv != 0 and self._is_literal_cond(cond)) else self.expr(cond)
            return [S('loop', 'while', [], ce, [], self.block(inner[-1]), loc=loc, raw=n)]
        if k == 'DoStmt':
            return [S('loop', 'do', [], self.expr(inner[1]), [], self.block(inner[0]), loc=loc, raw=n)]
        if k == 'ReturnStmt':
            return [S('return', self.expr(inner[0]) if inner else None, loc=loc, raw=n)]
        if k == 'BreakStmt':
            return [S('break', loc=loc)]
        if k == 'ContinueStmt':
            return [S('continue', loc=loc)]
        if k in ('CaseStmt', 'DefaultStmt'):
            raise AnalysisError('%s: case label outside the top level of a switch body' % loc)
        if k == 'CXXForRangeStmt' and len(inner) == 8:
            # `for (T x : range) body` as the compiler desugars it: { auto&& r = range; auto b = begin(r), e = end(r);
            #   for (; b != e; ++b) { T x = *b; body } }  - the hidden declarations are ordinary declarations in the AST
            pre = []
            for part in inner[0:4]:
                if part and part.get('kind'):
                    pre.extend(self.stmt(part))
            cond = self.expr(inner[4]) if inner[4] and inner[4].get('kind') else None
            step = self.stmt(inner[5]) if inner[5] and inner[5].get('kind') else []
            body = (self.stmt(inner[6]) if inner[6] and inner[6].get('kind') else []) + self.block(inner[7])
            return [S('loop', 'for', pre, cond, step, body, loc=loc, raw=n)]
        if k in ('GotoStmt', 'LabelStmt', 'CXXTryStmt', 'CXXForRangeStmt'):
            raise AnalysisError('%s: %s is not a recognised idiom of this repository' % (loc, k))
        # expression statement
        return self.expr_stmt(n)

    def _is_literal_cond(self, n):
        """True when the condition is built from literals only (macro constants), not from variables."""
        k = n.get('kind')
        if k in ('IntegerLiteral', 'CXXBoolLiteralExpr'):
            return True
        if k in ('ParenExpr', 'ImplicitCastExpr', 'ConstantExpr'):
            return all(self._is_literal_cond(x) for x in n.get('inner', []))
        if k in ('BinaryOperator', 'UnaryOperator'):
            return all(self._is_literal_cond(x) for x in n.get('inner', []))
        return False

    def _macro_value(self, n):
        """truth value of a condition that a literal (macro constant) decides whatever its variables hold: `0 && x`, `1 || x`,
        and `x && 0` / `x || 1` when x has no call or assignment; None otherwise"""
        while n.get('kind') in ('ParenExpr', 'ImplicitCastExpr', 'ConstantExpr') and n.get('inner'):
            n = n['inner'][-1]
        if self._is_literal_cond(n):
            v = self.tu.fold_node(n)
            return None if v is None else bool(v)
        if n.get('kind') == 'BinaryOperator' and n.get('opcode') in ('&&', '||') and len(n.get('inner', [])) == 2:
            l, r = (self._macro_value(x) for x in n['inner'])
            absorbing = (n['opcode'] == '||')          # the value that decides the whole: false for &&, true for ||
            if l is absorbing:
                return absorbing
            if r is absorbing and not self._has_effect(n['inner'][0]):
                return absorbing
            if l is (not absorbing) and r is (not absorbing):
                return not absorbing
        return None

    def _has_effect(self, n):
        k = n.get('kind', '')
        if k in ('CallExpr', 'CXXMemberCallExpr', 'CXXOperatorCallExpr', 'CXXConstructExpr', 'CompoundAssignOperator') or \
                (k == 'BinaryOperator' and n.get('opcode') == '=') or (k == 'UnaryOperator' and n.get('opcode') in ('++', '--')):
            return True
        return any(self._has_effect(x) for x in n.get('inner', []) if isinstance(x, dict))

    def expr_stmt(self, n):
        k = n.get('kind')
        loc = self.L(n)
        inner = n.get('inner', [])
        if k in TRANSPARENT or (k == 'ImplicitCastExpr') or (k == 'CStyleCastExpr' and n.get('castKind') == 'ToVoid'):
            sub = [x for x in inner if x.get('kind') != 'NonTypeTemplateParmDecl']
            if sub:
                return self.expr_stmt(sub[-1])
        if k == 'BinaryOperator' and n.get('opcode') == '=':
            return [S('assign', self.expr(inner[0]), self.expr(inner[1]), '=', loc=loc, raw=n)]
        if k == 'BinaryOperator' and n.get('opcode') == ',':
            return self.expr_stmt(inner[0]) + self.expr_stmt(inner[1])
        if k == 'CompoundAssignOperator':
            return [S('assign', self.expr(inner[0]), self.expr(inner[1]), n['opcode'], loc=loc, raw=n)]
        if k == 'UnaryOperator' and n.get('opcode') in ('++', '--'):
            t = self.expr(inner[0])
            return [S('assign', t, E('const', 1, loc=loc), n['opcode'][0] + '=', loc=loc, raw=n)]
        if k == 'CXXOperatorCallExpr':
            callee = self._callee_name(inner[0])
            if callee.endswith('::operator=') and len(inner) == 3:
                return [S('assign', self.expr(inner[1]), self.expr(inner[2]), '=', loc=loc, raw=n)]
        return [S('expr', self.expr(n), loc=loc, raw=n)]

    # -- expressions --------------------------------------------------------------
    def _callee_name(self, n):
        """Resolved qualified name of the function a callee expression denotes."""
        k = n.get('kind')
        if k == 'DeclRefExpr':
            rd = n.get('referencedDecl', {})
            return self.tu.qual.get(rd.get('id')) or rd.get('name', '?')
        if k == 'MemberExpr':
            return self.tu.qual.get(n.get('referencedMemberDecl')) or n.get('name', '?')
        if k == 'UnaryOperator' and n.get('opcode') in ('&', '*'):
            return self._callee_name(n['inner'][0])
        inner = [x for x in n.get('inner', []) if x.get('kind') != 'NonTypeTemplateParmDecl']
        if inner:
            return self._callee_name(inner[-1])
        return '?'

    def expr(self, n):
        k = n.get('kind')
        loc = self.L(n)
        ty = nty(n)
        inner = n.get('inner', [])
        if k in TRANSPARENT:
            sub = [x for x in inner if x.get('kind') != 'NonTypeTemplateParmDecl']
            if not sub:
                return E('opaque', k, loc=loc, ty=ty)
            return self.expr(sub[-1])
        if k == 'ImplicitCastExpr' or k in ('CStyleCastExpr', 'CXXStaticCastExpr', 'CXXFunctionalCastExpr',
                                           'CXXReinterpretCastExpr', 'CXXConstCastExpr'):
            ck = n.get('castKind')
            sub = self.expr(inner[-1]) if inner else E('opaque', k, loc=loc, ty=ty)
            if ck == 'IntegralCast':
                it = int_type(ty)
                if it:
                    return E('cast', it[0], it[1], sub, loc=loc, ty=ty, raw=n)
                return sub
            if ck == 'NullToPointer':
                return E('null', loc=loc, ty=ty)
            if ck in ('IntegralToBoolean', 'PointerToBoolean'):
                return E('un', 'bool', sub, loc=loc, ty=ty)
            if ck in ('IntegralToFloating', 'FloatingToIntegral', 'FloatingCast'):
                return E('opaque', 'float', loc=loc, ty=ty)
            if k == 'CXXReinterpretCastExpr' or (ck == 'BitCast' and k != 'ImplicitCastExpr'):
                return E('ptrcast', ty, sub, loc=loc, ty=ty)
            return sub
        if k == 'IntegerLiteral':
            return E('const', int(n['value']), loc=loc, ty=ty)
        if k == 'CharacterLiteral':
            return E('const', int(n['value']), loc=loc, ty=ty)
        if k == 'CXXBoolLiteralExpr':
            return E('const', 1 if n['value'] else 0, loc=loc, ty=ty)
        if k == 'StringLiteral':
            v = n.get('value', '""')
            try:
                v = json.loads(v)
            except ValueError:
                v = v.strip('"')
            return E('str', v, loc=loc, ty=ty)
        if k in ('CXXNullPtrLiteralExpr', 'GNUNullExpr'):
            return E('null', loc=loc, ty=ty)
        if k == 'CXXThisExpr':
            return E('this', loc=loc, ty=ty)
        if k == 'DeclRefExpr':
            rd = n.get('referencedDecl', {})
            rk = rd.get('kind')
            if rk == 'EnumConstantDecl':
                v = self.tu.fold_node(n)
                if v is not None:
                    return E('const', v, loc=loc, ty=ty)
            if rk in ('VarDecl', 'ParmVarDecl'):
                q = self.tu.qual.get(rd.get('id'))
                if q is None:
                    d = self.tu.by_id.get(rd.get('id'), rd)
                    return E('var', self._local(d if d.get('id') else rd), loc=loc, ty=ty)
                return E('var', q, loc=loc, ty=ty, raw=n)
            if rk in ('FieldDecl', 'IndirectFieldDecl'):
                # a data member named as a value (&Class::member): the pointer to member is the member's name
                return E('memptr', rd.get('name', '?'), loc=loc, ty=ty, raw=n)
            q = self.tu.qual.get(rd.get('id')) or rd.get('name', '?')
            if rk == 'CXXMethodDecl' and self.tu.by_id.get(rd.get('id'), {}).get('storageClass') != 'static':
                # a non-static member function named as a value (&Class::method; callees of calls do not come this way): the
                # overload is the one whose type this is
                sig = (rd.get('type') or {}).get('qualType', ty or '')
                inside = sig[sig.find('(') + 1: sig.rfind(')')].strip() if '(' in sig else ''
                return E('memfn', q, 0 if inside in ('', 'void') else inside.count(',') + 1, loc=loc, ty=ty, raw=n)
            return E('var', q, loc=loc, ty=ty, raw=n)
        if k == 'MemberExpr':
            base = self.expr(inner[0]) if inner else E('this', loc=loc)
            md = self.tu.by_id.get(n.get('referencedMemberDecl'), {})
            name = n.get('name', md.get('name', '?'))
            if not name:  # member of an anonymous struct/union: transparent
                return base
            if md.get('kind') == 'VarDecl':  # static member accessed through an object
                q = self.tu.qual.get(md.get('id'))
                if q:
                    return E('var', q, loc=loc, ty=ty)
            return E('field', base, name, loc=loc, ty=ty)
        if k == 'ArraySubscriptExpr':
            return E('index', self.expr(inner[0]), self.expr(inner[1]), loc=loc, ty=ty, raw=n)
        if k == 'UnaryOperator':
            op = n['opcode']
            sub = self.expr(inner[0])
            if op == '&':
                if sub.k == 'deref':
                    return sub.a[0]
                if sub.k in ('memfn', 'memptr'):
                    return sub                   # &Class::method / &Class::member is the pointer to member itself
                return E('addr', sub, loc=loc, ty=ty)
            if op == '*':
                if sub.k == 'addr':
                    return sub.a[0]
                return E('deref', sub, loc=loc, ty=ty)
            if op in ('++', '--'):
                return E('incdec', op, bool(n.get('isPostfix')), sub, loc=loc, ty=ty, raw=n)
            if op == '+':
                return sub
            return E('un', op, sub, loc=loc, ty=ty)
        if k == 'BinaryOperator':
            op = n['opcode']
            if op == '=':
                return E('assignexpr', self.expr(inner[0]), self.expr(inner[1]), loc=loc, ty=ty, raw=n)
            if op == '/':
                arr = self._countof(inner[0], inner[1])
                if arr is not None:
                    return arr
            if op in ('.*', '->*'):
                return E('memfield', self.expr(inner[0]), self.expr(inner[1]), loc=loc, ty=ty, raw=n)     # object.*pointer-to-data-member
            return E('bin', op, self.expr(inner[0]), self.expr(inner[1]), loc=loc, ty=ty, raw=n)
        if k == 'CompoundAssignOperator':
            return E('assignexpr', self.expr(inner[0]),
                     E('bin', n['opcode'][:-1], self.expr(inner[0]), self.expr(inner[1]), loc=loc), loc=loc, ty=ty, raw=n)
        if k == 'ConditionalOperator':
            return E('cond', self.expr(inner[0]), self.expr(inner[1]), self.expr(inner[2]), loc=loc, ty=ty, raw=n)
        if k == 'CXXMemberCallExpr':
            callee = inner[0]
            while callee.get('kind') in TRANSPARENT or callee.get('kind') == 'ImplicitCastExpr':
                callee = callee['inner'][-1]
            if callee.get('kind') == 'BinaryOperator' and callee.get('opcode') in ('.*', '->*'):
                # (object.*pointer)(args): a call named '.*' whose first argument is the pointer to member
                obj = self.expr(callee['inner'][0])
                args = [self.expr(callee['inner'][1])] + [self.expr(a) for a in inner[1:] if a.get('kind') != 'CXXDefaultArgExpr']
                return E('call', '.*', obj, args, loc=loc, ty=ty, raw=n)
            name = self._callee_name(callee)
            recv = self.expr(callee['inner'][0]) if callee.get('kind') == 'MemberExpr' and callee.get('inner') else E('this', loc=loc)
            if callee.get('kind') == 'MemberExpr' and callee.get('isArrow'):
                recv = E('deref', recv, loc=recv.loc, ty=None) if False else recv
            args = [self.expr(a) for a in inner[1:] if a.get('kind') != 'CXXDefaultArgExpr']
            return E('call', name, recv, args, loc=loc, ty=ty, raw=n)
        if k == 'CallExpr':
            name = self._callee_name(inner[0])
            args = [self.expr(a) for a in inner[1:] if a.get('kind') != 'CXXDefaultArgExpr']
            return E('call', name, None, args, loc=loc, ty=ty, raw=n)
        if k == 'CXXOperatorCallExpr':
            name = self._callee_name(inner[0])
            args = [self.expr(a) for a in inner[1:]]
            return E('call', name, None, args, loc=loc, ty=ty, raw=n)
        if k in ('CXXConstructExpr', 'CXXTemporaryObjectExpr'):
            args = [self.expr(a) for a in inner if a.get('kind') != 'CXXDefaultArgExpr']
            ct = (n.get('ctorType') or {}).get('qualType', '')
            if len(args) == 1 and k == 'CXXConstructExpr' and self._is_copy_ctor(ty, ct):
                return args[0]
            return E('init', _clean_type(ty), args, loc=loc, ty=ty, raw=n)
        if k == 'InitListExpr':
            # an array with fewer initialisers than elements: clang lists the filler first, then the initialisers, under 'array_filler'
            items = n['array_filler'][1:] if n.get('array_filler') else inner
            args = [self.expr(a) for a in items]
            return E('init', _clean_type(ty), args, loc=loc, ty=ty, raw=n)
        if k == 'ImplicitValueInitExpr':
            return E('const', 0, loc=loc, ty=ty)
        if k == 'UnaryExprOrTypeTraitExpr':
            v = self.tu.fold_node(n)
            if v is not None:
                return E('const', v, loc=loc, ty=ty)
            return E('opaque', 'sizeof', loc=loc, ty=ty)
        if k == 'CXXDefaultArgExpr':
            return E('opaque', 'defaultarg', loc=loc, ty=ty)
        if k in ('FloatingLiteral',):
            return E('opaque', 'float', loc=loc, ty=ty)
        if k in ('CXXNewExpr', 'CXXDeleteExpr', 'LambdaExpr', 'CXXThrowExpr'):
            raise AnalysisError('%s: %s is not a recognised idiom of this repository' % (loc, k))
        return E('opaque', k or '?', loc=loc, ty=ty, raw=n)

    def _countof(self, l, r):
        """`sizeof(a) / sizeof(a[0])` (also `sizeof(*a)`, `sizeof(T)` for an array of T): the number of elements of the array a -
        a constant where the array type carries its bound, else (a dependent element type in a class template) an expression
        the evaluator answers from the initialiser list"""
        def strip(x):
            while x.get('kind') in TRANSPARENT or x.get('kind') in ('ImplicitCastExpr', 'ParenExpr'):
                if not x.get('inner'):
                    break
                x = x['inner'][-1]
            return x

        def ref_id(x):
            x = strip(x)
            if x.get('kind') == 'DeclRefExpr':
                return (x.get('referencedDecl') or {}).get('id')
            if x.get('kind') == 'MemberExpr':
                return x.get('referencedMemberDecl')
            return None
        l, r = strip(l), strip(r)
        if not (l.get('kind') == r.get('kind') == 'UnaryExprOrTypeTraitExpr' and l.get('name') == r.get('name') == 'sizeof' and l.get('inner')):
            return None
        arr = strip(l['inner'][0])
        aid = ref_id(arr)
        aty = nty(arr) or ''
        if aid is None or not aty.rstrip().endswith(']'):
            return None
        if r.get('inner'):
            el = strip(r['inner'][0])
            if el.get('kind') == 'ArraySubscriptExpr' and el.get('inner'):
                if ref_id(el['inner'][0]) != aid:
                    return None
            elif el.get('kind') == 'UnaryOperator' and el.get('opcode') == '*' and el.get('inner'):
                if ref_id(el['inner'][0]) != aid:
                    return None
            else:
                return None
        else:
            et = (r.get('argType') or {}).get('qualType', '')
            if not et or aty.replace('const ', '').split('[')[0].strip() != et.replace('const ', '').strip():
                return None
        m = re.search(r'\[(\d+)\]\s*$', aty)
        loc = self.L(l)
        if m:
            return E('const', int(m.group(1)), loc=loc, ty='unsigned long')
        return E('opaque', 'countof', self.expr(arr), loc=loc, ty='unsigned long')

    @staticmethod
    def _is_copy_ctor(ty, ctor_type):
        t = _clean_type(ty)
        inside = ctor_type[ctor_type.find('(') + 1: ctor_type.rfind(')')] if '(' in ctor_type else ''
        inside = inside.strip()
        for suffix in (' &&', ' &'):
            if inside.endswith(suffix):
                base = inside[:-len(suffix)].replace('const ', '').strip()
                if base == t or base.split('::')[-1] == t.split('::')[-1]:
                    return True
        return False


def _clean_type(t):
    if not t:
        return '?'
    return t.replace('const ', '').replace(' const', '').strip()


_TU_CACHE = {}


def load_lib(cfg, defines=()):
    key = (cfg.repo, 'lib', tuple(defines))
    if key not in _TU_CACHE:
        _TU_CACHE[key] = TU(cfg, os.path.join(VERIF, 'tu', 'lib.cpp'), extra_args=['-D' + d for d in defines])
    return _TU_CACHE[key]


def load_tables(cfg, db):
    key = (cfg.repo, 'tables', db)
    if key not in _TU_CACHE:
        _TU_CACHE[key] = TU(cfg, os.path.join(VERIF, 'tu', 'tables_%s.cpp' % db))
    return _TU_CACHE[key]
