"""C03, second part: the compiler's accounting, decided on the sweeps of acv/pipeline.py.

The compiler is interpreted end to end (Extractor -> Transformer -> TzDbCollector -> ArduinoGenerator) on TZ source text that
ranges over supported and unsupported constructs; the tables it writes are read back through the broker accessors.
R10: every zone, link and policy of the source is either emitted or listed as removed with at least one reason - never both,
     never neither.
R11: a value that comes back from the table differently from what the source line says (STDOFF, SAVE, fixed RULES offset, AT,
     UNTIL time) belongs to a zone / policy that carries a note (the documented truncation notes); nothing is altered silently."""
from .common import AnalysisError
from . import cxx, pipeline, tzline
from .rules_C11 import normalize_name


def _norm(s):
    return ' '.join((s or '').split())


def sweep_accounting(cfg, R):
    from . import rules_C12
    R.rule('R10', 'sweep: every zone, link and policy of the source is emitted or listed as removed with a reason, not both and not neither', floor=300)
    R.rule('R11', 'sweep: a value the table holds differently from its source line belongs to a zone or policy that carries a note', floor=200)
    R.rule('R12', 'sweep: every era and rule of the Python tables the compiler writes equals its source line at the granularity the scope keeps', floor=200)
    lib = cxx.load_lib(cfg)
    thorough = cfg.tier == 'thorough'
    ft = pipeline.feature_text()
    runs = (('extended', False, None, 'main'), ('basic', False, None, 'main'), ('extended', False, ft, 'features'), ('basic', False, ft, 'features'))
    if thorough:
        runs += (('extended', True, None, 'main'), ('basic', True, None, 'main'), ('extended', True, ft, 'features'), ('basic', True, ft, 'features'))
    from . import py
    tr = py.load(cfg, pipeline.TR)
    tloc = tr.fn('Transformer.transform').loc
    coverage = set()
    for scope, strict, text, tag in runs:
        label = '%s%s%s' % (scope, ',strict' if strict else '', '' if tag == 'main' else ',' + tag)
        try:
            sw = pipeline.sweep(cfg, scope, strict, text=text, tag=tag)
            coverage |= sw.raw.get('coverage') or set()
        except pipeline.Raised as r_:
            for rid in ('R10', 'R11', 'R12'):          # nothing is emitted, nothing can be read back: both rules fail on this sweep
                R.instance(rid, 'sweep[%s]:compile' % label, tloc)
                R.violation(rid, 'sweep[%s]:compile' % label, tloc, '%s' % r_.what)
            continue
        T, db, src = sw.T, sw.tzdb, sw.source
        rendered = T.names()                  # zone name -> kZone symbol
        # ---- R10: zones
        c = 'sweep[%s]:zones' % label
        for name in src['zones']:
            R.instance('R10', c, tloc)
            emitted = name in db['zones_map']
            in_tables = name in rendered
            why = db['removed_zones'].get(name)
            if emitted != in_tables:
                R.violation('R10', c, tloc, '[%s] zone %s is %s the compiler\'s zone map but %s the generated tables' % (
                    label, name, 'in' if emitted else 'not in', 'in' if in_tables else 'not in'))
            elif emitted and why:
                R.violation('R10', c, tloc, '[%s] zone %s is emitted and also listed as removed (%s)' % (label, name, why))
            elif not emitted and not why:
                R.violation('R10', c, tloc, '[%s] zone %s (%s) is neither emitted nor listed as removed with a reason: it is dropped silently' % (
                    label, name, ' / '.join(src['zones'][name])))
        for name in list(db['zones_map']) + list(rendered):
            if name not in src['zones']:
                R.violation('R10', c, tloc, '[%s] the compiler emits a zone %s that the source does not define' % (label, name))
        # ---- R10: links
        c = 'sweep[%s]:links' % label
        for link, target in src['links'].items():
            R.instance('R10', c, tloc)
            emitted = link in db['links_map']
            sym = 'kZone' + normalize_name(link)
            in_tables = sym in T.links
            if not emitted and in_tables and any(o != link and normalize_name(o) == normalize_name(link) for o in list(db['links_map']) + list(db['zones_map'])):
                in_tables = False           # the symbol belongs to an emitted zone or link whose name normalizes to the same identifier
            why = db['removed_links'].get(link)
            if emitted != in_tables:
                R.violation('R10', c, tloc, '[%s] link %s is %s the compiler\'s link map but %s the generated tables' % (
                    label, link, 'in' if emitted else 'not in', 'in' if in_tables else 'not in'))
            elif emitted and why:
                R.violation('R10', c, tloc, '[%s] link %s is emitted and also listed as removed (%s)' % (label, link, why))
            elif not emitted and not why:
                R.violation('R10', c, tloc, '[%s] link %s -> %s is neither emitted nor listed as removed with a reason' % (label, link, target))
            elif emitted and (db['links_map'][link] != target or T.links.get(sym) != 'kZone' + normalize_name(target)):
                R.violation('R10', c, tloc, '[%s] link %s is emitted towards %s / %s, the source says %s' % (label, link, db['links_map'][link], T.links.get(sym), target))
        # ---- R10: policies
        c = 'sweep[%s]:policies' % label
        for pol in src['rules']:
            R.instance('R10', c, tloc)
            emitted = pol in db['rules_map']
            in_tables = ('kPolicy' + normalize_name(pol)) in T.policies
            why = db['removed_policies'].get(pol)
            if emitted != in_tables:
                R.violation('R10', c, tloc, '[%s] policy %s is %s the compiler\'s policy map but %s the generated tables' % (
                    label, pol, 'in' if emitted else 'not in', 'in' if in_tables else 'not in'))
            elif emitted and why:
                R.violation('R10', c, tloc, '[%s] policy %s is emitted and also listed as removed (%s)' % (label, pol, why))
            elif not emitted and not why:
                R.violation('R10', c, tloc, '[%s] policy %s is neither emitted nor listed as removed with a reason' % (label, pol))
        # ---- R12: the Python tables written for the same database, read with the table reader, against the source lines
        from . import genrender, tables, rules_C20
        try:
            pfiles = genrender.generate_files(cfg, 'python', db, max_steps=50000000)
            P = tables.PyTables(cfg, texts=pfiles)
        except pipeline.Raised as r_:
            R.instance('R12', 'sweep[%s]:py:render' % label, tloc)
            R.violation('R12', 'sweep[%s]:py:render' % label, tloc, 'PythonGenerator raises %s on the sweep' % r_.what)
            P = None
        if P is not None:
            rules_C20.py_entries(R, 'R12', P, 'sweep[%s]:py' % label, delta_gran=900, offset_gran=900 if scope == 'basic' else 60)
            c = 'sweep[%s]:py:zones' % label
            R.instance('R12', c, tloc)
            pz = {P.infos[k]['name'] for k in P.infos}
            if pz != set(db['zones_map']):
                R.violation('R12', c, tloc, '[%s] the Python tables define the zones %s, the zone map of the compiler has %s' % (
                    label, sorted(pz - set(db['zones_map']))[:4], sorted(set(db['zones_map']) - pz)[:4]))
        # ---- R11: altered values carry a note
        rd = rules_C12.EntryReader(lib, scope)
        c = 'sweep[%s]:zone-values' % label
        for short in T.infos:
            name = T.zone_name(short)
            noted = bool(db['notable_zones'].get(name))
            for e in T.zone_eras(short):
                R.instance('R11', c, e.loc)
                try:
                    ln = tzline.parse_era(e.comment)
                except tzline.LineError:
                    continue                # C12-R3 reports an unreadable recorded line
                got = rd.era(e.cells)
                fixed = ln['rules'][1] if isinstance(ln['rules'], tuple) and ln['rules'][0] == 'fixed' else 0
                diffs = []
                for what, held, exact in (('STDOFF', got['offsetMinutes'] * 60, ln['offset_seconds']), ('the fixed RULES offset', got['deltaMinutes'] * 60, fixed),
                                          ('the UNTIL time', got['untilTimeMinutes'] * 60, ln['until_seconds'])):
                    if held != exact:
                        diffs.append('%s is %s s in the source line and %s s in the table' % (what, exact, held))
                if diffs and not noted:
                    R.violation('R11', c, e.loc, '[%s] zone %s, era "%s": %s, and the zone carries no note' % (label, name, _norm(e.comment), '; '.join(diffs)))
        c = 'sweep[%s]:policy-values' % label
        for psym, pol in T.policies.items():
            entries = T.policy_rules(psym)
            for e in entries:
                R.instance('R11', c, e.loc)
                try:
                    ln = tzline.parse_rule(e.comment)
                except tzline.LineError:
                    continue
                if ln['anchor']:
                    continue
                noted = bool(db['notable_policies'].get(ln['name']))
                got = rd.rule(e.cells)
                diffs = []
                for what, held, exact in (('SAVE', got['deltaMinutes'] * 60, ln['save_seconds']), ('the AT time', got['atTimeMinutes'] * 60, ln['at_seconds'])):
                    if held != exact:
                        diffs.append('%s is %s s in the source line and %s s in the table' % (what, exact, held))
                if diffs and not noted:
                    R.violation('R11', c, e.loc, '[%s] policy %s, "%s": %s, and the policy carries no note' % (label, ln['name'], _norm(e.comment), '; '.join(diffs)))
    reach_rule(R, tr, coverage, [r_[0] + (',strict' if r_[1] else '') + ',' + r_[3] for r_ in runs])


FILTER_NAME = r'^(_remove_|_create_|remove_|_detect_|_mark_)'


def reach_rule(R, tr, coverage, labels):
    """R5, decided on the interpretation of the sweeps: which statements of tools/tzdb/transformer.py were interpreted while the
    compiler ran on the sweep and the feature sources in both scopes.  A filter method none of whose statements was reached is a
    filter transform() does not apply (whatever the way it would be called - directly, through a table of bound methods, a loop);
    a place that records a reason and was not reached is listed, not reported: rule R10 says nothing about that reason."""
    import ast
    import re
    from .rules_C03 import R5_EXCEPTIONS
    R.rule('R5', 'every Transformer filter is reached when transform() is interpreted on the sweep and feature sources (both scopes); the '
                 'places that record a reason and are reached are counted', floor=40)
    lines = {l for m, l in coverage if m == tr.rel}
    tloc = tr.fn('Transformer.transform').loc
    reached = missed = 0
    for q, f in sorted(tr.funcs.items(), key=lambda kv: kv[1].node.lineno):
        if f.cls != 'Transformer' or not re.match(FILTER_NAME, f.short):
            continue
        c = 'tzdb.transformer.Transformer.transform->%s' % f.short
        R.instance('R5', c, f.loc)
        if not any(getattr(n, 'lineno', None) in lines for s in f.node.body for n in ast.walk(s) if isinstance(n, ast.stmt)):
            if f.short in R5_EXCEPTIONS:
                R.exception('R5', c, R5_EXCEPTIONS[f.short])
            else:
                R.violation('R5', c, f.loc, 'filter %s is defined but no statement of it is reached when transform() is interpreted on %s' % (f.short, ', '.join(labels)))
            continue
        for n in ast.walk(f.node):
            if isinstance(n, ast.Expr) and isinstance(n.value, ast.Call) and n.value.args and isinstance(n.value.func, ast.Name) \
                    and any(isinstance(a, (ast.Constant, ast.JoinedStr, ast.BinOp)) for a in n.value.args[2:3]):
                if n.lineno in lines:
                    reached += 1
                    R.instance('R5', '%s:reason@%s' % (f.short, _norm(ast.unparse(n.value.args[2]))[:60]), tr.loc(n))
                else:
                    missed += 1
                    R.note('not reached by any sweep line (R10 does not cover it): %s in %s: %s' % (tr.loc(n), f.short, _norm(ast.unparse(n.value))[:120]))
    R.note('reasons: %d places reached, %d not reached' % (reached, missed))
