"""C09-R8: signed-overflow obligations (E-ABS, intervals with callee summaries) over the date/time value types.

Every +, - and * node of type int (32 bits: acetime_t and the promoted operands) in a member or factory of LocalDate,
LocalTime, LocalDateTime, OffsetDateTime, ZonedDateTime, TimeOffset and TimePeriod is an obligation: for every value of
the arguments and of the fields (each within its declared type, narrowed by the guards that dominate the node) the
mathematical result must lie in [-2^31, 2^31 - 1]; otherwise evaluating the node is undefined behaviour.

  * `isError()` tests are inlined: on the branch where this->isError() is false the fields satisfy the negation of the
    predicate's body (recursively for the composite types), and member calls on `this` or on one of its components use
    the callee's summary under the same assumption, so sentinels returned for error values do not pollute the ranges.
  * callees inside the library contribute the interval of their return values, computed the same way and memoised."""
from .common import AnalysisError
from .absint import AbsInt, DBM, Hooks, INF
from .cxx import int_type
from .ir import E, show, all_exprs
from .paths import path_of

CLASSES = ('LocalDate', 'LocalTime', 'LocalDateTime', 'OffsetDateTime', 'ZonedDateTime', 'TimeOffset', 'TimePeriod')
I32 = (-(1 << 31), (1 << 31) - 1)
RET_ALIASES = {'acetime_t': (32, True)}      # function return types are not desugared in the AST dump (typedef int32_t acetime_t)
ERR = '#err'        # marker variable of the abstract state: 0 = this->isError() is known to be false


def _b(x):
    return '-inf' if x <= -INF else '+inf' if x >= INF else str(int(x))


def _uncast(e):
    while e is not None and e.k == 'cast':
        e = e.a[2]
    return e


def _subst_this(e, recv):
    """copy of expression e with `this` replaced by the receiver expression"""
    if not isinstance(e, E):
        return e
    if e.k == 'this':
        return recv
    args = []
    for x in e.a:
        if isinstance(x, E):
            args.append(_subst_this(x, recv))
        elif isinstance(x, (list, tuple)):
            args.append([_subst_this(y, recv) if isinstance(y, E) else y for y in x])
        else:
            args.append(x)
    return E(e.k, *args, loc=e.loc, ty=e.ty, raw=e.raw)


def _rooted_at_this(e):
    """receiver is this, a member of this, or an accessor call on one of those (localDate(), localTime() ...)"""
    e = _uncast(e)
    while e is not None:
        if e.k == 'this':
            return True
        if e.k in ('field', 'deref', 'addr'):
            e = _uncast(e.a[0])
        elif e.k == 'call' and e.a[1] is not None and not e.a[2]:
            e = _uncast(e.a[1])
        else:
            return False
    return False


class OvAbsInt(AbsInt):
    def __init__(self, lib, summaries, **kw):
        AbsInt.__init__(self, fold_global=lib.global_value, **kw)
        self.lib = lib
        self.summ = summaries
        self.call_range = self._call_range
        self.inline_depth = 0

    def _is_error_body(self, q):
        """the predicate as one boolean expression: `return e;` or a chain of `if (c) return ...;` statements"""
        fs = self.lib.fns(q)
        if len(fs) != 1:
            return None

        def build(stmts):
            if not stmts:
                return None
            s = stmts[0]
            if s.k == 'return':
                return s.a[0]
            if s.k == 'block':
                return build(list(s.a[0]) + list(stmts[1:]))
            if s.k == 'if':
                rest = list(stmts[1:])
                t = build(list(s.a[1]) + rest)
                f = build(list(s.a[2]) + rest)
                if t is None or f is None:
                    return None
                c = s.a[0]
                return E('bin', '||', E('bin', '&&', c, t, loc=s.loc), E('bin', '&&', E('un', '!', c, loc=s.loc), f, loc=s.loc), loc=s.loc)
            return None
        return build(list(fs[0].body))

    def guard(self, st, cond, truth):
        c = _uncast(cond)
        if c is not None and c.k == 'call' and c.a[0].endswith('::isError') and not c.a[2] and c.a[1] is not None:
            recv = _uncast(c.a[1])
            if recv.k == 'this':
                known = st.bounds(ERR)
                if known in ((0, 0), (1, 1)) and known[0] != (1 if truth else 0):
                    st.bottom = True          # the same predicate was already decided the other way and no field changed since
                    return st
                st.forget(ERR)
                v = 1 if truth else 0
                st.add(ERR, '0', v)
                st.add('0', ERR, -v)
            body = self._is_error_body(c.a[0])
            if body is not None and self.inline_depth < 4 and (recv.k == 'this' or path_of(recv) is not None):
                self.inline_depth += 1
                try:
                    AbsInt.guard(self, st, _subst_this(body, recv), truth)
                finally:
                    self.inline_depth -= 1
            return st
        return AbsInt.guard(self, st, cond, truth)

    def assign(self, st, x, v):
        if isinstance(x, str) and x.startswith('this.'):
            st.forget(ERR)        # a field changed: what isError() said before no longer binds
        return AbsInt.assign(self, st, x, v)

    def _call_range(self, ai, e, st):
        q = e.a[0]
        if not q.startswith('ace_time::'):
            return None
        valid = e.a[1] is not None and _rooted_at_this(e.a[1]) and st.bounds(ERR) == (0, 0)
        return self.summ.of(q, valid, len(e.a[2]))


class Summaries:
    def __init__(self, lib):
        self.lib = lib
        self.memo = {}

    def of(self, q, valid, nargs=0, depth=0):
        key = (q, valid, nargs)
        if key in self.memo:
            return self.memo[key]
        self.memo[key] = None
        fs = [f for f in self.lib.fns(q) if len(f.params) == nargs]
        if not fs or depth > 8:
            return None
        lo, hi = INF, -INF
        for f in fs:
            it = int_type(f.ret) or RET_ALIASES.get((f.ret or '').replace('const', '').strip().split('::')[-1])
            if not it or not f.body:
                return None
            w, s = it
            tlo, thi = (-(1 << (w - 1)), (1 << (w - 1)) - 1) if s else (0, (1 << w) - 1)
            ai = OvAbsInt(self.lib, self)
            st = DBM()
            for pn, pt in f.params:
                ai.declare(st, pn, pt)
            cls = q.rsplit('::', 1)[0]
            if valid and self.lib.fns(cls + '::isError'):
                ai.guard(st, E('call', cls + '::isError', E('this'), []), False)
            try:
                ai.run(f.body, st)
            except AnalysisError:
                self.memo[key] = (tlo, thi)
                return self.memo[key]
            got = False
            for s_, rst in ai.ret_states:
                if s_.a[0] is None or rst.bottom:
                    continue
                got = True
                l, h = ai.range_of(ai.lin(s_.a[0], rst), rst)
                lo, hi = min(lo, max(l, tlo)), max(hi, min(h, thi))
            if not got:
                lo, hi = min(lo, tlo), max(hi, thi)
        self.memo[key] = (lo, hi)
        return self.memo[key]


class OverflowHooks(Hooks):
    def __init__(self, fn):
        self.fn = fn
        self.sites = {}

    def on_arith(self, ai, e, st):
        it = int_type(e.ty)
        if it is None or not it[1] or it[0] != 32:
            return
        if e.k == 'un':
            # -x is 0 - x
            e = E('bin', '-', E('const', 0, loc=e.loc, ty=e.ty), e.a[1], loc=e.loc, ty=e.ty, raw=e.raw)
        l, r = ai.lin(e.a[1], st), ai.lin(e.a[2], st)
        lo1, hi1 = ai.range_of(l, st)
        lo2, hi2 = ai.range_of(r, st)
        if any(abs(x) >= INF for x in (lo1, hi1, lo2, hi2)):
            return      # an operand without integral type (pointer arithmetic etc.)
        op = e.a[0]
        if op == '+':
            lo, hi = lo1 + lo2, hi1 + hi2
        elif op == '-':
            lo, hi = lo1 - hi2, hi1 - lo2
        else:
            ps = [lo1 * lo2, lo1 * hi2, hi1 * lo2, hi1 * hi2]
            lo, hi = min(ps), max(ps)
        # what the analysis knows about the node as a whole (x - c * (x / c), c * (x / c)) may be tighter than its operands give
        n_ = len(ai.obligations)
        w_ = ai.lin(e, st)
        del ai.obligations[n_:]
        if w_[0] in ('qmul', 'rem'):
            wlo, whi = ai.range_of(w_, st)
            lo, hi = max(lo, wlo), min(hi, whi)
        key = (e.loc, show(e))
        ok = I32[0] <= lo and hi <= I32[1]
        prev = self.sites.get(key)
        # keep the weakest verdict seen for this node (it may be visited on several paths)
        if prev is None or (prev[0] and not ok):
            self.sites[key] = (ok, lo, hi, (lo1, hi1), (lo2, hi2), e)


def year_gate_rule(R, lib):
    """A full year becomes the stored int8 offset from 2000 only behind LocalDate::isYearValid(year): in every
    forComponents factory that takes the year, a conversion of an expression in `year` to a signed 8-bit type must sit on
    the branch where isYearValid(year) holds (a year outside 1873..2127 must give an error value, not wrap into range).
    (General narrowing is not a rule: the setters and the lenient parsers truncate by design and say so.)"""
    from .paths import Engine, Rule
    from .ir import walk_expr
    R.rule('R9', 'forComponents factories narrow the year to int8 only under LocalDate::isYearValid(year)', floor=2)
    n = 0
    for cls in ('LocalDate', 'LocalDateTime', 'OffsetDateTime', 'ZonedDateTime'):
        for f in lib.fns('ace_time::%s::forComponents' % cls):
            ys = [p for p, t in f.params if p == 'year']
            if not ys or not f.body:
                continue
            c = '%s::forComponents:year' % cls
            narrowings = []

            class YR(Rule):
                def initial(self_):
                    return ['unknown']

                def refine(self_, cond, st, truth):
                    cc = _uncast(cond)
                    if cc.k == 'call' and cc.a[0].endswith('::isYearValid') and len(cc.a[2]) == 1 and path_of(_uncast(cc.a[2][0])) == 'year':
                        return 'valid' if truth else 'invalid'
                    return st

                def event(self_, e, st, tr):
                    if e.k == 'cast' and e.a[0] == 8 and e.a[1] and any(x.k == 'var' and x.a[0] == 'year' for x in walk_expr(e.a[2])):
                        narrowings.append((e, st))
                        inner = _uncast(e.a[2])
                        if inner.k == 'cond':
                            cc = _uncast(inner.a[0])
                            gated = cc.k == 'call' and cc.a[0].endswith('::isYearValid') and len(cc.a[2]) == 1 and path_of(_uncast(cc.a[2][0])) == 'year'
                            in_false = any(x.k == 'var' and x.a[0] == 'year' for x in walk_expr(inner.a[2]))
                            if gated and not in_false:
                                return st       # (int8_t) (isYearValid(year) ? year - 2000 : sentinel)
                        if st != 'valid':
                            R.violation('R9', c, e.loc, 'the year is narrowed to int8 (%s) on a path where isYearValid(year) was not established: a year outside '
                                        '1873..2127 wraps into a valid-looking date (2256 becomes 2000) instead of an error value' % show(e)[:80], detail=list(tr))
                    return st
            Engine(YR()).run(f.body)
            delegates = any(e.k == 'call' and e.a[0].endswith('::forComponents') and any(path_of(_uncast(a)) == 'year' for a in e.a[2])
                            for e in all_exprs(f.body))
            R.instance('R9', c, f.loc, '%d narrowing(s), delegates=%s' % (len(narrowings), delegates))
            n += 1
            if not narrowings and not delegates:
                R.violation('R9', c, f.loc, 'forComponents neither narrows the year under isYearValid(year) nor passes it to another forComponents')
    if not n:
        raise AnalysisError('anchor vanished: no forComponents(year, ...) factory found')


def _site_keys(lib, f):
    """name of an arithmetic node that survives respelling: operator plus the canonical terms (E-GNF) of its operands,
    locals that are defined once replaced by their definitions, the operands of + and * in a fixed order.  (A finding
    recorded for `a - b` is the same finding after `x = a; y = b; x - y` or, for +, after commuting.)"""
    from .gnf import Canon
    from .ir import walk_stmts
    assigned = {}
    for s in walk_stmts(f.body):
        if s.k == 'assign' and s.a[0].k == 'var':
            assigned[s.a[0].a[0]] = assigned.get(s.a[0].a[0], 0) + 1
        elif s.k == 'decl':
            assigned[s.a[0]] = assigned.get(s.a[0], 0) + (0 if s.a[2] is not None else 1)
    env = {}
    noinit = {s.a[0] for s in walk_stmts(f.body) if s.k == 'decl' and s.a[2] is None}
    for s in walk_stmts(f.body):
        if s.k == 'decl' and s.a[2] is not None and assigned.get(s.a[0], 0) == 0:
            try:
                env[s.a[0]] = Canon(env=dict(env), fold_global=lib.global_value)(s.a[2])
            except Exception:
                pass
            # a local aggregate `T x = {a, b}` that is never assigned again: x.member stands for its initialiser
            agg = s.a[2]
            while agg.k == 'cast':
                agg = agg.a[2]
            if agg.k == 'init' and isinstance(agg.a[0], str) and agg.a[1]:
                cls_ = agg.a[0].replace('const ', '').strip()
                try:
                    flds = lib.fields(cls_)
                except Exception:
                    flds = None
                written = any(x.k == 'assign' and x.a[0].k == 'field' and x.a[0].a[0].k == 'var' and x.a[0].a[0].a[0] == s.a[0] for x in walk_stmts(f.body))
                if flds and len(flds) == len(agg.a[1]) and not written and not any(len(c_.params) == len(agg.a[1]) for c_ in lib.fns(cls_ + '::' + cls_.split('::')[-1])):
                    for (n_, _t, _x), arg in zip(flds, agg.a[1]):
                        try:
                            env['%s.%s' % (s.a[0], n_)] = Canon(env=dict(env), fold_global=lib.global_value)(arg)
                        except Exception:
                            pass
        elif s.k == 'assign' and s.a[0].k == 'var' and s.a[0].a[0] in noinit and assigned.get(s.a[0].a[0], 0) == 2 and (len(s.a) < 3 or s.a[2] == '='):
            # declared without a value and assigned exactly once (the result variable of an inlined helper, `T x; x = e;`)
            try:
                env[s.a[0].a[0]] = Canon(env=dict(env), fold_global=lib.global_value)(s.a[1])
            except Exception:
                pass

    def key(e):
        try:
            c = Canon(env=dict(env), fold_global=lib.global_value)
            l, r = repr(c(e.a[1])), repr(c(e.a[2]))
        except Exception:
            return show(e).replace(' ', '')
        if e.a[0] in ('+', '*') and r < l:
            l, r = r, l
        return ('(%s%s%s)' % (l, e.a[0], r)).replace(' ', '')
    return key


def _const_side(txt, op):
    """'-946684800' / '+2451545' / '*86400' / '0-' when one operand of the canonical node text `(l<op>r)` is an integer literal"""
    import re
    m = re.match(r'^\((-?\d+)([-+*])(.*)\)$', txt)
    if m and m.group(2) == op and not re.match(r'^-?\d+$', m.group(3)):
        return ('%s%s' % (m.group(1), op)) if op == '-' else ('%s%s' % (op, m.group(1)))
    m = re.match(r'^\((.*)([-+*])(-?\d+)\)$', txt)
    if m and m.group(2) == op and not re.match(r'^-?\d+$', m.group(1)):
        return '%s%s' % (op, m.group(3))
    return None


def overflow_rules(R, lib):
    year_gate_rule(R, lib)
    R.rule('R8','no +, - or * of the date/time value types can leave the range of int32 for any field and argument values', floor=25)
    summ = Summaries(lib)
    nfun = 0
    for q, fs in sorted(lib.funcs.items()):
        parts = q.split('::')
        if len(parts) < 3 or parts[0] != 'ace_time' or parts[1] not in CLASSES:
            continue
        for f in fs:
            if not f.body:
                continue
            hk = OverflowHooks(f)
            ai = OvAbsInt(lib, summ, hooks=hk)
            st = DBM()
            for pn, pt in f.params:
                ai.declare(st, pn, pt)
            try:
                ai.run(f.body, st)
            except AnalysisError as ex:
                raise AnalysisError('%s: overflow analysis of %s failed: %s' % (f.loc, f.name, ex))
            nfun += 1
            short = '::'.join(parts[1:])
            seen_c = {}
            keyof = _site_keys(lib, f)
            for (loc, txt), (ok, lo, hi, r1, r2, e) in sorted(hk.sites.items()):
                txt = keyof(e)
                # the name of the obligation (what a known finding is keyed by) must survive a refactoring that leaves the
                # computation alone: a node with a constant operand is named by function, operator and constant
                # (`forUnixSeconds:-946684800`); any other by the class and the canonical text of the node, whichever member
                # it sits in (a shared sub-expression moved into a helper keeps its name)
                cst = _const_side(txt, e.a[0])
                if cst is not None:
                    base = '%s:%s' % (short, cst)
                else:
                    base = '%s:%s' % (parts[1], txt.replace('ace_time::', ''))
                k = seen_c.get(base, 0)
                seen_c[base] = k + 1
                c = '%s%s' % (base, '' if k == 0 else '#%d' % k)
                R.instance('R8', c, loc)
                if not ok:
                    R.violation('R8', c, loc, 'the operands range over [%s, %s] and [%s, %s], the result over [%s, %s]: outside int32, so for some field/argument values '
                                'this signed operation overflows (undefined behaviour)' % (_b(r1[0]), _b(r1[1]), _b(r2[0]), _b(r2[1]), _b(lo), _b(hi)))
    R.analysed['overflow_functions'] = nfun
