"""C18 - rule day resolution agrees in C++ and Python; year-spilling expressions are rejected by the compiler."""
import ast

from .common import AnalysisError, Report
from . import cxx, py, tables
from .gnf import SymExec, Poly
from .ir import walk_stmts, walk_expr, all_exprs, show
from .paths import path_of

META = {
    'explanation': 'tzdb.transformer.calc_day_of_month (E-SEQ over its ast) and BasicZoneProcessor::calcStartDayOfMonth (constant '
                   'propagation through its real body, checked against the typed interpreter on probes; else the typed '
                   'interpreter) are evaluated on every admitted (month, weekday, day-of-month) expression of the sampled years '
                   'and compared with the calendar, so the two agree wherever both are defined; the arguments the two callers '
                   'pass are compared as canonical terms (E-GNF); the day-of-month values that can resolve into a neighbouring year '
                   'are computed from the calendar and must be inside the set the transformer refuses (read off by interpreting '
                   '_create_rules_with_on_day_expansion on one-rule policies for every day value in January and December, three '
                   'year ranges); E-TAB: no shipped rule uses such a value.',
    'decided': 'both resolvers give the calendar\'s (month, day) - month 0 / 13 for the neighbouring year - on every expression of '
               'the sampled years; both callers pass (year, inMonth, onDayOfWeek, onDayOfMonth) in that order; every (month, '
               'day-of-month) combination that can resolve into another year is rejected by the compiler; no shipped rule (zonedb, '
               'zonedbx, zonedbpy) has such a combination; a Zone UNTIL weekday expression is resolved with (untilYear, untilMonth, '
               'weekday, day), both the resolved month and day are stored, and resolutions into month 0 or 13 are refused',
    'not_decided': 'years outside the samples (5 years in the quick tier, 8 in the thorough tier, leap / common / century years '
                   'and both ends of the range among them)',
    'assumptions': ['weekday numbers are 1..7 on both sides so that the (a - b + 7) % 7 shifts have non-negative operands '
                    '(truncating and flooring remainder coincide)', 'clang 14 parser', 'CPython ast'],
}

CXX_FN = 'ace_time::BasicZoneProcessor::calcStartDayOfMonth'
FN_ROLES = {'ace_time::LocalDate::daysInMonth': 'DIM', '_days_in_month': 'DIM',
            'ace_time::LocalDate::dayOfWeek': 'DOW', 'isoweekday': 'DOW',
            'ace_time::LocalDate::forComponents': 'DATE', 'datetime.date': 'DATE'}
SYM_CXX = {'year': 'Y', 'month': 'M', 'onDayOfWeek': 'W', 'onDayOfMonth': 'D'}
SYM_PY = {'year': 'Y', 'month': 'M', 'on_day_of_week': 'W', 'on_day_of_month': 'D'}


def _P(k):
    return Poly(dict(k))


def run(cfg):
    R = Report('C18', cfg)
    lib = cxx.load_lib(cfg)
    R.analysed['translation_units'] = ['tu/lib.cpp']
    R.analysed['python_modules'] = ['tools/tzdb/transformer.py', 'tools/zonedb/zone_specifier.py']
    R.rule('R1', 'calc_day_of_month (Python) equals the calendar on every expression of the sampled years (as R5 shows for the C++ resolver); both callers pass (year, month, weekday, day)', floor=3)
    R.rule('R2', 'every day-of-month that can resolve into another year is rejected by the transformer', floor=2)
    R.rule('R3', 'no shipped rule uses a year-spilling (month, day-of-month) combination', floor=1300)
    import datetime
    from .pyeval import PyEval, PObj, Raised as PRaised
    f = lib.fn(CXX_FN)
    trm = py.load(cfg, 'tools/tzdb/transformer.py')
    g = trm.fn('calc_day_of_month')
    c = 'calcStartDayOfMonth~calc_day_of_month'

    def resolve(y, mth, dow, dom):
        """the calendar's answer for "weekday dow on or after / on or before day |dom| of the month" (dom == 0: the last one)"""
        if dom == 0:
            dt = datetime.date(y + (mth == 12), mth % 12 + 1, 1) - datetime.timedelta(days=1)
            while dt.isoweekday() != dow:
                dt -= datetime.timedelta(days=1)
            return dt
        dt = datetime.date(y, mth, abs(dom))
        step = datetime.timedelta(days=1 if dom > 0 else -1)
        while dt.isoweekday() != dow:
            dt += step
        return dt
    # the Python resolver, interpreted (E-SEQ over its ast) on every (month, weekday, day) expression of the sampled years,
    # against the calendar; the C++ resolver is held to the same calendar by R5, so the two agree wherever both are defined
    pev = PyEval(cfg, max_steps=4000000)
    yearsp = [1873, 1900, 2000, 2019, 2100] if cfg.tier != 'thorough' else [1873, 1900, 1999, 2000, 2001, 2004, 2100, 2126]
    n1, bad1 = 0, None
    for y in yearsp:
        for mth in range(1, 13):
            for dow in range(1, 8):
                for dom in range(-31, 32):
                    try:
                        dt = resolve(y, mth, dow, dom)
                    except ValueError:
                        continue          # day |dom| does not exist in that month
                    want = (0 if dt.year < y else 13 if dt.year > y else dt.month, dt.day)
                    try:
                        got = pev.call(trm, 'calc_day_of_month', [y, mth, dow, dom])
                    except PRaised as x_:
                        got = 'raises %s' % x_.what
                    n1 += 1
                    if (tuple(got) if isinstance(got, (tuple, list)) else got) != want and bad1 is None:
                        bad1 = 'calc_day_of_month(%d, %d, %d, %d) is %s, the calendar gives %s (month 0 / 13: the neighbouring year)' % (y, mth, dow, dom, got, want)
    for dom in (1, 15, 31):
        got = pev.call(trm, 'calc_day_of_month', [2000, 3, 0, dom])
        n1 += 1
        if tuple(got) != (3, dom) and bad1 is None:
            bad1 = 'calc_day_of_month(2000, 3, 0, %d) is %s: an exact day of the month (weekday 0) is not kept' % (dom, got)
    R.instance('R1', c, g.loc, '%d expressions interpreted against the calendar' % n1)
    R.analysed['expressions_interpreted'] = n1
    if bad1:
        R.violation('R1', c, g.loc, 'the two implementations differ: the C++ resolver follows the calendar (R5), the Python one does not: ' + bad1)
    # callers pass the four rule fields in the same order
    # (the arguments are compared as canonical terms of the path summary: locals, the order of a sum and the way the
    # result is stored do not matter)
    from .gnf import poly_leaves
    gt = lib.fn('ace_time::ExtendedZoneProcessor::getTransitionTime')
    sxg = SymExec(fold_global=lib.global_value)
    sxg.trace_locals = {s.a[0] for s in walk_stmts(gt.body) if s.k == 'decl'}
    sg = sxg.run(gt.name, gt.body, {})
    ytiny, rule = gt.params[0][0], gt.params[1][0]
    epoch = lib.const('ace_time::LocalDate::kEpochYear')
    want = [Poly.atom(('sym', ytiny)) + Poly.const(epoch)] + \
        [Poly.atom(('fn', 'ace_time::extended::ZoneRuleBroker::' + m, (Poly.atom(('sym', rule)).key(),))) for m in ('inMonth', 'onDayOfWeek', 'onDayOfMonth')]
    ok, seen_call = bool(sg.paths), False
    for gd, kind, res, eff in sg.paths:
        keys = ([res] if res is not None else []) + [v for _t, v in eff]
        calls = set()
        for k_ in keys:
            calls |= {a for a in poly_leaves(_P(k_), kinds=('fn',)) if a[1] == CXX_FN}
        if not calls:
            continue
        seen_call = True
        for a in calls:
            if [_P(x) for x in a[2]] != want:
                ok = False
    R.instance('R1', gt.name, gt.loc)
    if not (ok and seen_call):
        R.violation('R1', gt.name, gt.loc, 'does not call calcStartDayOfMonth(yearTiny + kEpochYear, rule.inMonth(), rule.onDayOfWeek(), rule.onDayOfMonth())')
    zs = py.load(cfg, 'tools/zonedb/zone_specifier.py')
    pg = zs.fn('_get_transition_time')
    sxp = SymExec(lang='py')
    sxp.trace_locals = {s.a[0].a[0] for s in walk_stmts(pg.body) if s.k == 'assign' and s.a[0].k == 'var'}
    spg = sxp.run(pg.name, pg.body, {})
    wantp = [Poly.atom(('sym', 'year'))] + [Poly.atom(('sym', 'rule.' + m)) for m in ('inMonth', 'onDayOfWeek', 'onDayOfMonth')]
    okp, seen_call = bool(spg.paths), False
    for gd, kind, res, eff in spg.paths:
        keys = ([res] if res is not None else []) + [v for _t, v in eff]
        calls = set()
        for k_ in keys:
            calls |= {a for a in poly_leaves(_P(k_), kinds=('fn',)) if a[1] == 'calc_day_of_month'}
        if calls:
            seen_call = True
        for a in calls:
            if [_P(x) for x in a[2]] != wantp:
                okp = False
    R.instance('R1', 'zonedb.zone_specifier._get_transition_time', pg.loc)
    if not (okp and seen_call):
        R.violation('R1', 'zonedb.zone_specifier._get_transition_time', pg.loc, 'does not call calc_day_of_month(year, rule.inMonth, rule.onDayOfWeek, rule.onDayOfMonth)')
    # ---- R2 spill sets from the calendar: day values for which some weekday of some year resolves into the neighbouring year
    spill_prev, spill_next = set(), set()
    for y in (1999, 2000, 2001, 2004):
        for dow in range(1, 8):
            for dom in range(-31, 32):
                if dom == 0:
                    continue
                if resolve(y, 1, dow, dom).year < y:
                    spill_prev.add(dom)
                if resolve(y, 12, dow, dom).year > y:
                    spill_next.add(dom)
    R.analysed['spill_prev_year(dom in January)'] = sorted(spill_prev)
    R.analysed['spill_next_year(dom in December)'] = sorted(spill_next)
    tr = py.load(cfg, 'tools/tzdb/transformer.py')
    tf = tr.fn('Transformer._create_rules_with_on_day_expansion')
    # which (month, weekday, day-of-month) combinations the transformer refuses is read off by interpreting the function
    # (E-SEQ over the Python ast, the ON field parsed by the real parser) on one-rule policies
    from .genrender import rule as mkrule
    rej = {1: None, 12: None}
    try:
      # rules that run through the generated years, and rules that end before them (kept as "the latest rule before")
      for yfrom, yto in ((2000, 9999), (1990, 1990), (1985, 1998)):
        rej_y = {1: set(), 12: set()}
        for month in (1, 12):
            for dom in range(-31, 32):
                r_ = mkrule(yfrom, yto, month, 0, 0, 7200, 0, 'S', 'Rule P raw')
                r_['onDay'] = 'lastMon' if dom == 0 else ('Mon>=%d' % dom if dom > 0 else 'Mon<=%d' % -dom)
                del r_['onDayOfWeek'], r_['onDayOfMonth']
                me = PObj(tr, 'Transformer', {'all_removed_policies': {}, 'all_removed_zones': {}, 'all_notable_policies': {}, 'scope': 'extended',
                                              'start_year': 2000, 'until_year': 2050})
                out = pev.call(tr, 'Transformer._create_rules_with_on_day_expansion', [{'P': [r_]}], recv=me)
                if not isinstance(out, dict):
                    raise AnalysisError('%s: the function does not return the map of accepted policies' % tf.loc)
                if 'P' not in out:
                    rej_y[month].add(dom)
                elif (out['P'][0].get('onDayOfWeek'), out['P'][0].get('onDayOfMonth')) != (0 if False else 1, dom):
                    raise AnalysisError('%s: ON %s is stored as (weekday %r, day %r), expected (1, %d)' % (
                        tf.loc, r_['onDay'], out['P'][0].get('onDayOfWeek'), out['P'][0].get('onDayOfMonth'), dom))
        for month in (1, 12):
            # what is refused for every year range is what the rule can rely on
            rej[month] = rej_y[month] if rej[month] is None else (rej[month] & rej_y[month])
    except PRaised as r_:
        raise AnalysisError('%s: interpretation raised %s' % (tf.loc, r_.what))
    R.analysed['rejected(dom in January)'] = sorted(rej[1])
    R.analysed['rejected(dom in December)'] = sorted(rej[12])
    for name, need, have, month in (('previous-year', spill_prev, rej[1], 'Jan'), ('next-year', spill_next, rej[12], 'Dec')):
        c2 = 'tzdb.transformer.Transformer._create_rules_with_on_day_expansion:%s' % name
        R.instance('R2', c2, tf.loc, 'spilling %s, rejected %s' % (sorted(need), sorted(have)))
        miss = sorted(need - have)
        if miss:
            ex = 'Xxx<=%d' % (-miss[0]) if miss[0] < 0 else 'Xxx>=%d' % miss[0]
            R.violation('R2', c2, tf.loc, 'day-of-month value(s) %s in %s can resolve into the %s but are not rejected (e.g. "%s %s"): the runtime '
                        'then indexes the month table with month %s' % (miss, month, name.replace('-', ' '), month, ex, '0' if month == 'Jan' else '13'))
    # ---- R4 zone UNTIL: the compiler resolves the weekday expression itself and stores the resolved month and day.  Decided by
    # interpreting _create_zones_with_until_day (E-SEQ over the ast, the day expression parsed by the real parser) on one-era zones
    # whose UNTIL day is a plain day, a last weekday, a weekday on-or-after / on-or-before that stays in the month, one that moves into
    # the neighbouring month, and one that would move into another year
    R.rule('R4', 'Zone UNTIL expressions are resolved with (untilYear, untilMonth, weekday, day), both results are stored, spills out of the year are refused', floor=3)
    uf = tr.fn('Transformer._create_zones_with_until_day')
    c4 = 'tzdb.transformer.Transformer._create_zones_with_until_day'
    cases = [(2005, 3, '9'), (2005, 3, 'lastSun'), (2015, 11, 'Sun>=1'), (2005, 5, 'Sun<=3'), (2004, 2, 'lastSun'), (2005, 2, 'Mon>=22'),
             (2005, 3, 'Sun>=29'), (2005, 6, 'Sun<=3'), (2005, 11, 'Sat>=30'), (2005, 1, 'Sun<=1'), (2005, 12, 'Sun>=29'), (2011, 1, 'Mon<=2'), (2006, 12, 'Sat>=31')]
    names = {'Sun': 7, 'Mon': 1, 'Tue': 2, 'Wed': 3, 'Thu': 4, 'Fri': 5, 'Sat': 6}
    bad = {':call': None, ':store': None, ':year-spill': None}
    n4 = 0
    for y, mth, expr in cases:
        if expr.isdigit():
            want = datetime.date(y, mth, int(expr))
        elif expr.startswith('last'):
            want = resolve(y, mth, names[expr[4:]], 0)
        else:
            want = resolve(y, mth, names[expr[:3]], int(expr[5:]) * (1 if expr[3:5] == '>=' else -1))
        era_ = {'untilYear': y, 'untilMonth': mth, 'untilDayString': expr, 'untilDay': expr, 'rawLine': 'Zone Test/Z 1:00 - TST %d %d %s' % (y, mth, expr)}
        me = PObj(tr, 'Transformer', {'all_removed_policies': {}, 'all_removed_zones': {}, 'all_notable_policies': {}, 'all_notable_zones': {}, 'scope': 'extended',
                                      'start_year': 2000, 'until_year': 2050})
        try:
            out = pev.call(tr, 'Transformer._create_zones_with_until_day', [{'Test/Z': [era_]}], recv=me)
        except PRaised as r_:
            raise AnalysisError('%s: interpretation raised %s on UNTIL %d-%d %s' % (uf.loc, r_.what, y, mth, expr))
        if not isinstance(out, dict):
            raise AnalysisError('%s: the function does not return the map of accepted zones' % uf.loc)
        n4 += 1
        kept = 'Test/Z' in out
        if want.year != y:
            if kept and bad[':year-spill'] is None:
                bad[':year-spill'] = 'UNTIL %d-%02d %s resolves to %s, in another year, and the zone is kept (stored month %r, day %r)' % (
                    y, mth, expr, want.isoformat(), era_.get('untilMonth'), era_.get('untilDay'))
            continue
        if not kept:
            if bad[':call'] is None:
                bad[':call'] = 'UNTIL %d-%02d %s resolves to %s and the zone is removed (%s)' % (y, mth, expr, want.isoformat(), me.attrs['all_removed_zones'].get('Test/Z'))
            continue
        e2 = out['Test/Z'][0]
        got = (e2.get('untilMonth'), e2.get('untilDay'))
        if got != (want.month, want.day):
            key = ':store' if (got[1] == want.day or got[0] == want.month) else ':call'
            if bad[key] is None:
                bad[key] = 'UNTIL %d-%02d %s is stored as month %r, day %r; the calendar resolves it to %s' % (y, mth, expr, got[0], got[1], want.isoformat())
    for k_ in (':call', ':store', ':year-spill'):
        R.instance('R4', c4 + k_, uf.loc, '%d UNTIL day expressions interpreted' % n4)
        if bad[k_]:
            R.violation('R4', c4 + k_, uf.loc, bad[k_])
    # ---- R5 the C++ resolver against the calendar: constant propagation of every admitted (month, weekday, day) expression of
    # a set of years through the real body (calcStartDayOfMonth -> forComponents/dayOfWeek/daysInMonth), oracle: datetime
    import datetime
    from .ceval import CEval
    R.rule('R5', 'calcStartDayOfMonth resolves every admitted expression of the sampled years to the calendar\'s (month, day)', floor=5000)
    years = [1873, 1900, 1999, 2000, 2001, 2004, 2100, 2126] if cfg.tier == 'thorough' else [1873, 1900, 2000, 2019, 2100]
    cf = lib.fn(CXX_FN)
    ev = CEval(lib)
    from .aeval import AEval, AObj, CxxModule
    amod = CxxModule(lib, ['ace_time::'])

    def folded(y, mth, dow, dom):
        got = ev.call(cf, None, (y, mth, dow, dom))
        return (got.fields.get('month'), got.fields.get('day')) if hasattr(got, 'fields') else got

    def interpreted(y, mth, dow, dom):
        try:
            r = AEval(module=amod, typed=True, max_steps=20000).call_function(cf.name, [y, mth, dow, dom], chosen=CxxModule._Fn(cf))
        except IndexError as x_:
            raise ValueError('constant subscript outside the table (%s)' % x_)
        return (r.attrs.get('month'), r.attrs.get('day')) if isinstance(r, AObj) else r
    # constant propagation is the fast path; it is used when it follows the body and agrees with the typed interpreter on a
    # few probes (it does not follow every idiom, e.g. a result object whose fields are assigned one by one)
    resolver, how = folded, 'fold'
    try:
        if any(folded(*p_) != interpreted(*p_) for p_ in ((2000, 3, 7, 0), (2000, 3, 7, 8), (2001, 10, 1, -25), (2004, 2, 3, 23), (2000, 11, 0, 5))):
            resolver, how = interpreted, 'interpret'
    except Exception:
        resolver, how = interpreted, 'interpret'
    R.analysed['calcStartDayOfMonth evaluated by'] = how
    n5, bad5 = 0, []
    try:
        for y in years:
            for mth in range(1, 13):
                for dow in range(1, 8):
                    for dom in range(-31, 32):
                        try:
                            if dom == 0:
                                last = (datetime.date(y + (mth == 12), mth % 12 + 1, 1) - datetime.timedelta(days=1))
                                dt = last
                                while dt.isoweekday() != dow:
                                    dt -= datetime.timedelta(days=1)
                            else:
                                dt = datetime.date(y, mth, abs(dom))
                                step = datetime.timedelta(days=1 if dom > 0 else -1)
                                while dt.isoweekday() != dow:
                                    dt += step
                        except ValueError:
                            continue
                        if dt.year != y:
                            continue          # year spill: refused by the compiler (R2)
                        n5 += 1
                        try:
                            gm = resolver(y, mth, dow, dom)
                        except Exception as e_:
                            if 'constant subscript' in str(e_) and 'outside' in str(e_):
                                # the body indexes a table outside its bounds for this admitted expression: undefined behaviour
                                bad5.append('%d month %d weekday %d day %d -> %s (calendar: %d-%02d)' % (y, mth, dow, dom, str(e_).strip("'\""), dt.month, dt.day))
                                continue
                            raise
                        if gm != (dt.month, dt.day):
                            bad5.append('%d month %d weekday %d day %d -> %r (calendar: %d-%02d)' % (y, mth, dow, dom, gm, dt.month, dt.day))
    except AnalysisError:
        raise
    except Exception as e:
        raise AnalysisError('%s: calcStartDayOfMonth cannot be folded (%r)' % (cf.loc, e))
    R.instance('R5', 'BasicZoneProcessor::calcStartDayOfMonth@calendar', cf.loc, '%d cases over the years %s' % (n5, years), n=n5)
    if bad5:
        R.violation('R5', 'BasicZoneProcessor::calcStartDayOfMonth@calendar', cf.loc, '%d of %d admitted expressions resolve to another day than the calendar gives, e.g. %s'
                    % (len(bad5), n5, '; '.join(bad5[:3])))
    # ---- R3 shipped data
    n_rules = 0
    for db in ('zonedb', 'zonedbx'):
        T = tables.CxxTables(cfg, db)
        for arr, entries in T.rules.items():
            for e in entries:
                n_rules += 1
                c3 = '%s::%s[%d]' % (db, arr, e.index)
                R.instance('R3', c3, e.loc)
                if e['onDayOfWeek'] != 0 and ((e['inMonth'] == 1 and e['onDayOfMonth'] in spill_prev) or (e['inMonth'] == 12 and e['onDayOfMonth'] in spill_next)):
                    R.violation('R3', c3, e.loc, 'rule (month %d, weekday %d, day %d) can resolve into another year' % (e['inMonth'], e['onDayOfWeek'], e['onDayOfMonth']))
    P = tables.PyTables(cfg)
    for arr, entries in P.rules.items():
        for e in entries:
            c3 = 'zonedbpy::%s[%d]' % (arr, e.index)
            R.instance('R3', c3, e.loc)
            if e['onDayOfWeek'] != 0 and ((e['inMonth'] == 1 and e['onDayOfMonth'] in spill_prev) or (e['inMonth'] == 12 and e['onDayOfMonth'] in spill_next)):
                R.violation('R3', c3, e.loc, 'rule (month %d, weekday %d, day %d) can resolve into another year' % (e['inMonth'], e['onDayOfWeek'], e['onDayOfMonth']))
    return R


SELFTEST = [
    dict(id='cpp-shift-constant', file='src/ace_time/BasicZoneProcessor.h',
         find='uint8_t dayOfWeekShift = (onDayOfWeek - limitDate.dayOfWeek() + 7) % 7;', replace='uint8_t dayOfWeekShift = (onDayOfWeek - limitDate.dayOfWeek() + 6) % 7;', rule='R5'),
    dict(id='python-last-week-start', file='tools/tzdb/transformer.py', find='            on_day_of_month = days_in_month - 6', replace='            on_day_of_month = days_in_month - 7', rule='R1'),
    dict(id='cpp-prev-month-uses-current-length', file='src/ace_time/BasicZoneProcessor.h',
         find='          month--;\n          uint8_t daysInPrevMonth = LocalDate::daysInMonth(year, month);',
         replace='          uint8_t daysInPrevMonth = LocalDate::daysInMonth(year, month);\n          month--;', rule='R5'),
    dict(id='same-edit-on-both-sides-silent', edits=[
        dict(file='src/ace_time/BasicZoneProcessor.h', find='uint8_t dayOfWeekShift = (onDayOfWeek - limitDate.dayOfWeek() + 7) % 7;',
             replace='uint8_t dayOfWeekShift = (onDayOfWeek - limitDate.dayOfWeek() + 14) % 7;'),
        dict(file='tools/tzdb/transformer.py', find='day_of_week_shift = (on_day_of_week - limit_date.isoweekday() + 7) % 7',
             replace='day_of_week_shift = (on_day_of_week - limit_date.isoweekday() + 14) % 7')], expect='silent'),
    dict(id='same-wrong-edit-on-both-sides', edits=[
        dict(file='src/ace_time/BasicZoneProcessor.h', find='uint8_t dayOfWeekShift = (onDayOfWeek - limitDate.dayOfWeek() + 7) % 7;',
             replace='uint8_t dayOfWeekShift = (onDayOfWeek - limitDate.dayOfWeek() + 8) % 7;'),
        dict(file='tools/tzdb/transformer.py', find='day_of_week_shift = (on_day_of_week - limit_date.isoweekday() + 7) % 7',
             replace='day_of_week_shift = (on_day_of_week - limit_date.isoweekday() + 8) % 7')], rule='R5'),
    dict(id='caller-swaps-arguments', file='src/ace_time/ExtendedZoneProcessor.h',
         find='yearTiny + LocalDate::kEpochYear, rule.inMonth(), rule.onDayOfWeek(),\n          rule.onDayOfMonth());',
         replace='yearTiny + LocalDate::kEpochYear, rule.inMonth(), rule.onDayOfMonth(),\n          rule.onDayOfWeek());', rule='R1', construct='getTransitionTime'),
    dict(id='december-guard-narrowed', file='tools/tzdb/transformer.py', find="if 26 <= on_day_of_month and rule['inMonth'] == 12:", replace="if 27 <= on_day_of_month and rule['inMonth'] == 12:", rule='R2', construct='next-year'),
    dict(id='january-guard-misses-minus-one', file='tools/tzdb/transformer.py', regex=True,
         find=r"and on_day_of_month <= -1\n", replace="and on_day_of_month < -1\n", rule='R2', construct='previous-year'),
    dict(id='shipped-rule-spills', file='src/ace_time/zonedbx/zone_policies.cpp', regex=True, unique=False, nth=0,
         find=r"(    )12( /\*inMonth\*/,\n    )(\d)( /\*onDayOfWeek\*/,\n    )(\d+)( /\*onDayOfMonth\*/)", replace=r"\g<1>12\g<2>7\g<4>28\6", rule='R3'),
    dict(id='until-month-not-stored', file='tools/tzdb/transformer.py', find="                era['untilMonth'], era['untilDay'] = month, day\n", replace="                era['untilDay'] = day\n", rule='R4', construct=':store'),
    dict(id='until-month-13-accepted', file='tools/tzdb/transformer.py', find='                if month == 13:\n                    valid = False\n', replace='                if month == 14:\n                    valid = False\n',
         rule='R4', construct=':year-spill'),
    dict(id='until-store-two-statements-silent', file='tools/tzdb/transformer.py', find="                era['untilMonth'], era['untilDay'] = month, day\n",
         replace="                era['untilMonth'] = month\n                era['untilDay'] = day\n", expect='silent'),
    dict(id='cpp-else-branch-restructured-silent', file='src/ace_time/BasicZoneProcessor.h',
         find='        if (day > daysInMonth) {\n          // TODO: Support shifting from Dec to Jan of following  year.\n          day -= daysInMonth;\n          month++;\n        }\n        return {month, day};',
         replace='        if (day <= daysInMonth) {\n          return {month, day};\n        }\n        return {(uint8_t) (month + 1), (uint8_t) (day - daysInMonth)};', expect='silent'),
]
