"""C11 - zone ids are djb2(name), unique, shared by all databases; registries complete and sorted;
links denote their targets.  Decided on the shipped artefacts (E-TAB) and on the generator (E-GNF)."""
import ast
import re

from .common import AnalysisError, Report
from . import tables, py, gnf
from .ir import walk_stmts, walk_expr, E

META = {
    'explanation': 'E-TAB over both generated C++ databases (every ZoneInfo, kZoneId constant, registry row, '
                   'link reference folded from the clang AST) plus E-SEQ over the Python ast of the compiler (acv/pyeval.py): '
                   'hash_name interpreted on sample names against djb2; the zone_infos / zone_registry files that '
                   'ArduinoGenerator.generate_files() writes for a tagged miniature database carry next to every zone name the '
                   'djb2 of that name and list the zones in name order (names chosen so that name order, symbol order and insertion '
                   'order all differ); the collision detector, the duplicate-symbol filter, the link generator, the extractor\'s '
                   'link table and the missing-target filter are interpreted on inputs built to trip them (a colliding pair of '
                   'names, names sharing a symbol, a dangling link, a link defined twice, a name that is both Zone and Link).',
    'decided': 'id == djb2(name) for all zones; uniqueness; equality across zonedb/zonedbx/kZoneId constants; '
               'registry complete, duplicate-free, strictly ascending; link -> target agreement; generator shape; a freshly '
               'compiled source cannot silently emit two zones with one id or one symbol, nor a link bound to a zone other than '
               'its single declared target',
    'not_decided': 'equality with ids of earlier releases (no baseline in the repository): reduced to '
                   '"the id is a pure function of the name and that function is djb2"; tools/zonedbpy carries no ids',
    'assumptions': ['clang 14 parser and constant folding of literals', 'CPython ast',
                    'djb2 as defined in the property statement (implemented in the checker, not taken from the repo)'],
}


def djb2(s):
    h = 5381
    for b in s.encode('utf-8'):
        h = (33 * h + b) & 0xFFFFFFFF
    return h


def normalize_name(name):
    name = name.replace('+', '_PLUS_')
    return re.sub('[^a-zA-Z0-9_]', '_', name)


def run(cfg):
    R = Report('C11', cfg)
    dbs = {db: tables.CxxTables(cfg, db) for db in ('zonedb', 'zonedbx')}
    R.analysed['translation_units'] = ['tu/tables_zonedb.cpp', 'tu/tables_zonedbx.cpp']
    R.rule('T1', 'zoneId field equals djb2 of the string the name field points to', floor=600)
    R.rule('T2', 'zone ids are unique within a database', floor=600)
    R.rule('T3', 'a name present in both databases has the same id in both', floor=250)
    R.rule('T4', 'kZoneId<X> equals the id of kZone<X> and djb2 of the name in its comment', floor=600)
    R.rule('T5', 'registry lists every zone exactly once, ascending by name, sizes agree', floor=600)
    R.rule('T6', 'every link reference binds to the zone its header comment names; shared links agree', floor=350)
    R.rule('T7', 'identifiers kZone<X> are normalize_name images of the zone names', floor=600)
    names = {}
    for db, T in dbs.items():
        seen_ids = {}
        names[db] = {}
        for short, info in T.infos.items():
            nm = T.zone_name(short)
            c = '%s::%s' % (db, short)
            R.instance('T1', c, info.loc, 'name=%r id=0x%08x' % (nm, info['zoneId'] or 0))
            if not isinstance(nm, str):
                R.violation('T1', c, info.loc, 'name field does not point to a string constant')
                continue
            names[db][nm] = short
            if info['zoneId'] != djb2(nm):
                R.violation('T1', c, info.loc, 'zoneId 0x%08x is not djb2(%r) = 0x%08x' % (info['zoneId'], nm, djb2(nm)))
            R.instance('T2', c, info.loc)
            if info['zoneId'] in seen_ids:
                R.violation('T2', c, info.loc, 'id 0x%08x also used by %s' % (info['zoneId'], seen_ids[info['zoneId']]))
            seen_ids[info['zoneId']] = short
            R.instance('T7', c, info.loc)
            if short != 'kZone' + normalize_name(nm):
                R.violation('T7', c, info.loc, 'identifier is not kZone%s for name %r' % (normalize_name(nm), nm))
            # T4
            kid = 'kZoneId' + short[len('kZone'):]
            R.instance('T4', '%s::%s' % (db, kid), info.loc)
            if kid not in T.zone_ids:
                R.violation('T4', '%s::%s' % (db, kid), info.loc, 'no published id constant for zone %r' % nm)
            else:
                v, loc, comment = T.zone_ids[kid]
                if v != info['zoneId']:
                    R.violation('T4', '%s::%s' % (db, kid), loc, 'constant 0x%08x differs from zoneId 0x%08x of %s' % (v or 0, info['zoneId'], short))
                elif comment is not None and djb2(comment.strip()) != v:
                    R.violation('T4', '%s::%s' % (db, kid), loc, 'constant is not djb2 of the name in its comment %r' % comment)
        for kid, (v, loc, _c) in T.zone_ids.items():
            if 'kZone' + kid[len('kZoneId'):] not in T.infos:
                R.instance('T4', '%s::%s' % (db, kid), loc)
                R.violation('T4', '%s::%s' % (db, kid), loc, 'id constant without a zone')
        # T5 registry
        c = '%s::kZoneRegistry' % db
        reg = T.registry
        if not (len(reg) == T.registry_len == T.registry_size_const == len(T.infos)):
            R.instance('T5', c, T.registry_loc)
            R.violation('T5', c, T.registry_loc, 'sizes disagree: %d rows, declared [%s], kZoneRegistrySize=%s, %d ZoneInfo definitions' %
                        (len(reg), T.registry_len, T.registry_size_const, len(T.infos)))
        seen = set()
        prev = None
        for i, short in enumerate(reg):
            rc = '%s::kZoneRegistry[%s]' % (db, short)
            R.instance('T5', rc, T.registry_loc, 'row %d' % i if i < 2 else None)
            if short not in T.infos:
                R.violation('T5', rc, T.registry_loc, 'row %d does not reference a ZoneInfo of this database' % i)
                continue
            if short in seen:
                R.violation('T5', rc, T.registry_loc, 'zone listed twice (row %d)' % i)
            seen.add(short)
            nm = T.zone_name(short)
            if prev is not None and not (prev.encode() < nm.encode()):
                R.violation('T5', rc, T.registry_loc, 'row %d: %r does not sort strictly after %r (bytewise)' % (i, nm, prev))
            prev = nm
        for short in T.infos:
            if short not in seen:
                R.instance('T5', '%s::kZoneRegistry[%s]' % (db, short), T.infos[short].loc)
                R.violation('T5', '%s::kZoneRegistry[%s]' % (db, short), T.infos[short].loc, 'zone is defined but missing from the registry')
        # T6 links
        for link, tgt in T.links.items():
            lc = '%s::%s' % (db, link)
            R.instance('T6', lc, T.link_loc[link])
            if tgt not in T.infos:
                R.violation('T6', lc, T.link_loc[link], 'link target %s is not a zone of %s' % (tgt, db))
                continue
            hc = T.header_decl_comments.get(link)
            if hc is None or not hc[0] or '->' not in hc[0]:
                R.violation('T6', lc, T.link_loc[link], 'no "link -> target" record for this link in zone_infos.h')
                continue
            lname, tname = [x.strip() for x in hc[0].split('->', 1)]
            if 'kZone' + normalize_name(lname) != link:
                R.violation('T6', lc, hc[1], 'identifier is not the normalised form of link name %r' % lname)
            if T.zone_name(tgt) != tname:
                R.violation('T6', lc, T.link_loc[link], 'link %r is recorded as -> %r but is bound to zone %r' % (lname, tname, T.zone_name(tgt)))
    # T3 / shared links
    for nm, short in names['zonedb'].items():
        if nm in names['zonedbx']:
            R.instance('T3', nm, dbs['zonedb'].infos[short].loc)
            a = dbs['zonedb'].infos[short]['zoneId']
            b = dbs['zonedbx'].infos[names['zonedbx'][nm]]['zoneId']
            if a != b:
                R.violation('T3', nm, dbs['zonedb'].infos[short].loc, 'id 0x%08x in zonedb but 0x%08x in zonedbx' % (a, b))
    for link, tgt in dbs['zonedb'].links.items():
        if link in dbs['zonedbx'].links:
            R.instance('T6', 'shared::' + link, dbs['zonedb'].link_loc[link])
            ta = dbs['zonedb'].zone_name(tgt) if tgt in dbs['zonedb'].infos else tgt
            xb = dbs['zonedbx'].links[link]
            tb = dbs['zonedbx'].zone_name(xb) if xb in dbs['zonedbx'].infos else xb
            if ta != tb:
                R.violation('T6', 'shared::' + link, dbs['zonedb'].link_loc[link], 'link targets differ: %r in zonedb, %r in zonedbx' % (ta, tb))
    generator_rules(cfg, R)
    return R


HEX8 = re.compile(r'0x([0-9a-fA-F]{8})\b')


def named(nm, ln):
    return re.search(r'(?<![\w/+-])' + re.escape(nm) + r'(?![\w/+-])', ln) is not None


def build(ev, mod, cls, vals):
    """an object of a class of the program, built by interpreting its constructor with parameters matched by name"""
    init = mod.funcs.get(cls + '.__init__')
    if init is None:
        raise AnalysisError('anchor vanished: %s.__init__ in %s' % (cls, mod.rel))
    kwargs = {}
    for p_ in init.params[1:]:
        if p_ not in vals:
            raise AnalysisError('%s: constructor parameter %s is not part of the abstraction' % (init.loc, p_))
        kwargs[p_] = vals[p_]
    return ev.instantiate(mod, cls, kwargs=kwargs)


def generator_rules(cfg, R):
    """The compiler side, by interpretation (E-SEQ over the Python ast, acv/pyeval.py) on tagged miniature inputs:
    hash_name on sample names; the zone_infos / zone_registry files rendered from a tagged database (ids next to their
    names, registry rows in name order); the collision / duplicate-symbol / missing-target / duplicate-link guards on
    inputs built to trip them."""
    from .pyeval import PyEval, Raised
    from .genrender import generate_files, tagged_db, era
    ev = PyEval(cfg)
    tr = ev.module('tools/tzdb/transformer.py')
    ar = ev.module('tools/zonedb/argenerator.py')
    ex = ev.module('tools/tzdb/extractor.py')
    R.analysed['python_modules'] = [tr.rel, ar.rel, ex.rel]

    def guarded(f, thunk):
        try:
            return ('ok', thunk())
        except Raised as r_:
            return ('raised', r_.what)
        except (KeyError, IndexError, TypeError, AttributeError, ValueError) as x_:
            raise AnalysisError('%s: the abstraction lacks %r' % (f.loc, x_))

    # G1 hash_name is djb2
    R.rule('G1', 'hash_name(name) == djb2(name): h0 = 5381; h <- (33*h + ord(c)) mod 2^32 (interpreted on sample names, short and long)', floor=1)
    f = tr.fn('hash_name')
    R.instance('G1', 'tzdb.transformer.hash_name', f.loc)
    samples = ['', 'a', 'UTC', 'Etc/GMT+12', 'America/Los_Angeles', 'Asia/Ho_Chi_Minh', 'America/Argentina/ComodRivadavia', 'x' * 40, '~' * 64, 'Tag/Zeta', 'bA', 'ab']
    # names whose djb2 is exactly 0 (found by search; the id 0 is a value like any other)
    zero_names = ['Test/Zdfxiru', 'Asia/Njfahczj', 'Pacific/Kpqtkjoy']
    if any(djb2(s) != 0 for s in zero_names):
        raise AnalysisError('internal: a sample name that should hash to 0 does not')
    samples += zero_names
    for s in samples:
        st, v = guarded(f, lambda: ev.call(tr, 'hash_name', [s]))
        if st != 'ok' or v != djb2(s):
            R.violation('G1', 'tzdb.transformer.hash_name', f.loc, 'hash_name(%r) is %s, djb2 is 0x%08x' % (s, ('0x%08x' % v) if isinstance(v, int) else v, djb2(s)))
            break
    # G2 the id rendered next to a name is djb2 of that name
    R.rule('G2', 'every zone id in the rendered zone_infos files is djb2 of the zone name it is rendered with', floor=2)
    gfn = ar.fn('ArduinoGenerator.generate_files')

    def files_of(db):
        try:
            return generate_files(cfg, 'arduino', db)
        except Raised as r_:
            raise AnalysisError('%s: generating the files of the tagged database raises %s' % (gfn.loc, r_.what))

    def file_text(files, name):
        if name not in files:
            raise AnalysisError('%s: ArduinoGenerator.generate_files() writes %s, not %s' % (gfn.loc, sorted(files), name))
        return files[name]
    for scope in ('basic', 'extended'):
        db = tagged_db(scope)
        zn = list(db['zones_map'])
        files = files_of(db)
        for meth, fname in (('generate_infos_h', 'zone_infos.h'), ('generate_infos_cpp', 'zone_infos.cpp')):
            fn = ar.funcs.get('ZoneInfosGenerator.' + meth) or gfn
            c = 'zonedb.argenerator.ZoneInfosGenerator.%s' % meth
            R.instance('G2', c, fn.loc, scope)
            text = file_text(files, fname)
            lines = text.split('\n')
            seen = {n: 0 for n in zn}
            msg = None
            last = None
            for ln in lines:
                here = [n for n in zn if named(n, ln)]
                if here:
                    last = here[-1] if meth.endswith('_cpp') else None
                for m in HEX8.finditer(ln):
                    owner = here[0] if (here and not meth.endswith('_cpp')) else last
                    v = int(m.group(1), 16)
                    if owner is None:
                        msg = msg or 'the id 0x%08x is rendered where no zone name precedes it' % v
                    elif v != djb2(owner):
                        msg = msg or 'zone %r is rendered with the id 0x%08x, djb2 of its name is 0x%08x%s' % (
                            owner, v, djb2(owner), ''.join(' (that is djb2(%r))' % o for o in [normalize_name(owner)] + zn if djb2(o) == v))
                    else:
                        seen[owner] += 1
            if msg is None:
                miss = [n for n in zn if not seen[n]]
                if miss:
                    msg = 'no id is rendered for zone %r' % miss[0]
            if msg:
                R.violation('G2', c, fn.loc, '[%s] %s' % (scope, msg))
    # G3 registry rows in name order
    R.rule('G3', 'the rendered registry lists every zone once, ascending by zone name (bytewise)', floor=1)
    fn = ar.funcs.get('ZoneRegistryGenerator.generate_registry_cpp') or gfn
    c = 'zonedb.argenerator.ZoneRegistryGenerator.generate_registry_cpp'
    db = tagged_db('extended')
    R.instance('G3', c, fn.loc)
    text = file_text(files_of(db), 'zone_registry.cpp')
    sym = {'kZone' + normalize_name(n): n for n in db['zones_map']}
    rows = [sym.get(m.group(1), m.group(1)) for m in re.finditer(r'&\s*(kZone\w+)', text)]
    want = sorted(db['zones_map'], key=lambda s: s.encode())
    if rows != want:
        R.violation('G3', c, fn.loc, 'registry rows are emitted in the order %s, the zones sorted by name are %s' % (rows, want))
    # G4 collision detection
    R.rule('G4', '_detect_hash_collisions is on the path of transform() and raises when two zone names share an id (interpreted on a colliding pair)', floor=2)
    tf = tr.fn('Transformer.transform')
    # on the path of transform(): the whole compiler (extractor, transformer) is interpreted on a source with a colliding pair
    from . import pipeline
    R.instance('G4', 'tzdb.transformer.Transformer.transform', tf.loc)
    for scope_ in ('extended', 'basic'):
        text_ = ''.join('Zone\t%s\t1:00\t-\tTST\n' % z_ for z_ in ('Tag/bA', 'Tag/mid', 'Tag/az', 'Tag/ab'))
        try:
            db_, _raw = pipeline.compile_text(cfg, text_, scope_)
        except pipeline.Raised:
            continue
        R.violation('G4', 'tzdb.transformer.Transformer.transform', tf.loc, '%s scope: a source whose zones Tag/bA and Tag/ab share the id 0x%08x compiles without an exception '
                    '(zones emitted: %s)' % (scope_, djb2('Tag/ab'), sorted(db_['zones_map'])))
        break
    e1 = [era('-', 10000, 'TST', 'raw')]
    tvals = dict(zones_map={}, rules_map={}, links_map={}, scope='extended', start_year=2000, until_year=2050, until_at_granularity=60, offset_granularity=60, strict=True)

    def transformer():
        return build(ev, tr, 'Transformer', tvals)
    df = tr.fn('Transformer._detect_hash_collisions')
    cd = 'tzdb.transformer.Transformer._detect_hash_collisions'
    R.instance('G4', cd, df.loc)
    if djb2('Tag/bA') != djb2('Tag/ab'):
        raise AnalysisError('internal: the colliding pair does not collide')
    # the colliding pair first and last, last and first, and with a name that sorts *between* the two (Tag/ab < Tag/az < Tag/bA):
    # a detector that looks at neighbours in name order only sees the first two families
    for zs, collide in (({'Tag/bA': e1, 'Tag/mid': e1, 'Tag/ab': e1}, True), ({'Tag/ab': e1, 'Tag/zz': e1, 'Tag/bA': e1}, True),
                        ({'Tag/ab': e1, 'Tag/az': e1, 'Tag/bA': e1}, True), ({'Tag/bA': e1, 'Tag/az': e1, 'Tag/aa': e1, 'Tag/ab': e1, 'Tag/c': e1}, True),
                        ({'Tag/one': e1, 'Tag/two': e1}, False)):
        st, v = guarded(df, lambda: ev.call(tr, 'Transformer._detect_hash_collisions', [dict(zs)], recv=transformer()))
        if collide and st != 'raised':
            R.violation('G4', cd, df.loc, 'zones %s: %s and %s share the id 0x%08x, yet no exception is raised: two names with one id pass unnoticed' % (sorted(zs), 'Tag/bA', 'Tag/ab', djb2('Tag/ab')))
            break
        if not collide and (st != 'ok' or not isinstance(v, dict) or sorted(v) != sorted(zs)):
            R.violation('G4', cd, df.loc, 'zones %s have distinct ids, but the detector %s' % (sorted(zs), 'raises ' + str(v) if st == 'raised' else 'does not pass the zones on'))
            break
    # G5 duplicate symbols
    R.rule('G5', 'zones and links whose names normalise to one C++ symbol are not both passed on (interpreted on colliding names)', floor=2)
    sf = tr.fn('Transformer.remove_zones_and_links_with_similar_names')
    cases = [('zones', {'Tag/A-b': e1, 'Tag/Zeta': e1, 'Tag/A_b': e1}, {'Tag/Fine': 'Tag/Zeta'}),
             ('link-zone', {'Tag/Zeta': e1, 'Tag/Other': e1}, {'Tag/Fine': 'Tag/Zeta', 'Tag-Zeta': 'Tag/Other'}),
             ('links', {'Tag/Zeta': e1}, {'Tag/L-k': 'Tag/Zeta', 'Tag/Fine': 'Tag/Zeta', 'Tag/L_k': 'Tag/Zeta'})]
    for tag, zs, ls in cases:
        c5 = 'tzdb.transformer.%s:%s' % (sf.name, tag)
        R.instance('G5', c5, sf.loc)
        st, v = guarded(sf, lambda: ev.call(tr, sf.name, [dict(zs), dict(ls)], recv=transformer()))
        if st != 'ok' or not (isinstance(v, (tuple, list)) and len(v) == 2 and all(isinstance(x, dict) for x in v)):
            R.violation('G5', c5, sf.loc, 'on zones %s and links %s the function %s' % (sorted(zs), sorted(ls), 'raises ' + str(v) if st == 'raised' else 'does not return (zones, links)'))
            continue
        out = list(v[0]) + list(v[1])
        syms = {}
        for n in out:
            syms.setdefault(normalize_name(n), []).append(n)
        dup = [ns for ns in syms.values() if len(ns) > 1]
        if dup:
            R.violation('G5', c5, sf.loc, 'the names %s are both passed on although they share the symbol kZone%s: they would share one definition and one id constant'
                        % (dup[0], normalize_name(dup[0][0])))
        elif 'Tag/Fine' not in v[1] or 'Tag/Zeta' not in v[0]:
            R.violation('G5', c5, sf.loc, 'names with a symbol of their own are dropped: result %s' % sorted(out))
    # G6 link to a zone that is not emitted
    R.rule('G6', 'no link item is rendered for a link whose target is not among the emitted zones (the rendering fails instead)', floor=1)
    gf = ar.funcs.get('ZoneInfosGenerator.generate_infos_cpp') or gfn
    c6 = 'zonedb.argenerator.ZoneInfosGenerator.generate_infos_cpp:links'
    R.instance('G6', c6, gf.loc)
    db = tagged_db('extended')
    db['links_map'] = dict(db['links_map'])
    db['links_map']['Tag/Dangling'] = 'Tag/Missing'
    st, v = guarded(gf, lambda: generate_files(cfg, 'arduino', db))
    if st == 'ok':
        v = ''.join(x for k_, x in sorted(v.items()) if k_.endswith('.cpp'))
    if st == 'ok' and isinstance(v, str) and 'kZoneTag_Dangling' in v:
        R.violation('G6', c6, gf.loc, 'link items are generated without looking the target up in self.zones_map: the link Tag/Dangling -> Tag/Missing, whose target zone is not emitted, '
                    'is rendered bound to whatever owns the symbol kZoneTag_Missing')
    # G7 a link name with two definitions
    R.rule('G7', 'the extractor stores a link target only for a link name with exactly one definition (interpreted)', floor=1)
    pf = ex.fn('Extractor._process_links')
    c7 = 'tzdb.extractor.Extractor._process_links:store'
    R.instance('G7', c7, pf.loc)
    xo = build(ev, ex, 'Extractor', {'input_dir': 'IN'})
    xo.attrs['link_lines'] = {'Tag/Once': ['Tag/T1'], 'Tag/Twice': ['Tag/T1', 'Tag/T2'], 'Tag/Also': ['Tag/T3']}
    st, v = guarded(pf, lambda: ev.call(ex, pf.name, recv=xo))
    lm = xo.attrs.get('links_map')
    if st != 'ok' or not isinstance(lm, dict):
        R.violation('G7', c7, pf.loc, '_process_links %s' % ('raises ' + str(v) if st == 'raised' else 'leaves no links_map'))
    elif 'Tag/Twice' in lm:
        R.violation('G7', c7, pf.loc, 'links_map[%r] is filled (%r) although the link name has two definitions (%s): the link is emitted bound to one target although the source names another as well'
                    % ('Tag/Twice', lm['Tag/Twice'], ['Tag/T1', 'Tag/T2']))
    elif lm.get('Tag/Once') != 'Tag/T1' or lm.get('Tag/Also') != 'Tag/T3':
        R.violation('G7', c7, pf.loc, 'links with one definition are not stored under their target: %s' % lm)
    # G8 link target tested itself
    R.rule('G8', 'links to missing zones are detected on the link target itself, not on a target resolved through other links (interpreted)', floor=1)
    g = tr.fn('Transformer.remove_links_to_missing_zones')
    c8 = 'tzdb.transformer.Transformer.remove_links_to_missing_zones'
    R.instance('G8', c8, g.loc)
    params = g.params[1:]
    vals = {'links_map': {'Tag/A': 'Tag/B', 'Tag/B': 'Tag/C', 'Tag/D': 'Tag/Gone'}, 'zones_map': {'Tag/B': e1, 'Tag/Z': e1}}
    if sorted(params) != sorted(vals):
        raise AnalysisError('%s: parameters %s are not (links_map, zones_map)' % (g.loc, params))
    st, v = guarded(g, lambda: ev.call(tr, g.name, [vals[p_] for p_ in params], recv=transformer()))
    if st != 'ok' or not isinstance(v, dict):
        R.violation('G8', c8, g.loc, 'the function %s' % ('raises ' + str(v) if st == 'raised' else 'does not return the links'))
    elif v.get('Tag/A') != 'Tag/B':
        R.violation('G8', c8, g.loc, 'link Tag/A -> Tag/B, where Tag/B is both a Zone and a Link (-> Tag/C, missing): the result is %r; the link target is followed through the link table before it '
                    'is tested against the zones, so a name that is both a Zone and a Link stands for the other link\'s target' % (v.get('Tag/A'),))
    elif 'Tag/D' in v:
        R.violation('G8', c8, g.loc, 'the link Tag/D -> Tag/Gone is kept although its target is not a zone')


def _stmt_exprs(s):
    from .ir import stmt_exprs
    out = list(stmt_exprs(s))
    if s.k == 'loop':
        for i in s.a[1]:
            out.extend(stmt_exprs(i))
    return out


SELFTEST = [
    dict(id='id-digit-changed', file='src/ace_time/zonedb/zone_infos.cpp', find='0xc21305a3 /*zoneId*/',
         replace='0xc21305a4 /*zoneId*/', rule='T1', construct='kZoneAfrica_Abidjan'),
    dict(id='header-id-constant-changed', file='src/ace_time/zonedbx/zone_infos.h',
         find='kZoneIdAfrica_Accra = 0x77d5b054', replace='kZoneIdAfrica_Accra = 0x77d5b055', rule='T4', construct='kZoneIdAfrica_Accra'),
    dict(id='registry-rows-swapped', file='src/ace_time/zonedb/zone_registry.cpp',
         find='  &kZoneAfrica_Abidjan, // Africa/Abidjan\n  &kZoneAfrica_Accra, // Africa/Accra\n',
         replace='  &kZoneAfrica_Accra, // Africa/Accra\n  &kZoneAfrica_Abidjan, // Africa/Abidjan\n', rule='T5'),
    dict(id='registry-row-duplicated', file='src/ace_time/zonedbx/zone_registry.cpp',
         find='  &kZoneAfrica_Accra, // Africa/Accra\n', replace='  &kZoneAfrica_Abidjan, // Africa/Accra\n', rule='T5'),
    dict(id='link-retargeted', file='src/ace_time/zonedb/zone_infos.cpp',
         find='kZoneUS_Pacific = kZoneAmerica_Los_Angeles;', replace='kZoneUS_Pacific = kZoneAmerica_Denver;', rule='T6', construct='kZoneUS_Pacific'),
    dict(id='hash-multiplier', file='tools/tzdb/transformer.py', find='hash = (33 * hash + ord(c)) % U32_MOD',
         replace='hash = (31 * hash + ord(c)) % U32_MOD', rule='G1'),
    dict(id='hash-shift-spelling-silent', file='tools/tzdb/transformer.py', find='hash = (33 * hash + ord(c)) % U32_MOD',
         replace='hash = (((hash << 5) + hash) + ord(c)) & 0xFFFFFFFF', expect='silent'),
    dict(id='hash-never-zero', file='tools/tzdb/transformer.py', find='    return hash\n', replace='    return hash or 1\n', rule='G1'),
    dict(id='id-from-other-variable', file='tools/zonedb/argenerator.py', find='zoneId=hash_name(zone_name),\n            )',
         replace='zoneId=hash_name(normalize_name(zone_name)),\n            )', rule='G2'),
    dict(id='registry-unsorted', file='tools/zonedb/argenerator.py',
         find="for zone_name, eras in sorted(self.zones_map.items()):\n            name = normalize_name(zone_name)",
         replace="for zone_name, eras in self.zones_map.items():\n            name = normalize_name(zone_name)", rule='G3'),
    dict(id='collision-table-keyed-by-name', file='tools/tzdb/transformer.py', find='                hashes[h] = name', replace='                hashes[name] = h', rule='G4'),
    dict(id='collision-guard-tests-name', file='tools/tzdb/transformer.py', find='            if colliding_name:\n                raise Exception("Hash collision', replace='            if not name:\n                raise Exception("Hash collision', rule='G4'),
    dict(id='collision-membership-spelling-silent', file='tools/tzdb/transformer.py', regex=True,
         find=r'            colliding_name = hashes.get\(h\)\n            if colliding_name:\n(                raise Exception\("Hash collision[^\n]*\n)            else:\n                hashes\[h\] = name',
         replace=r'            if h in hashes:\n\1            hashes[h] = name', expect='silent'),
    dict(id='duplicate-link-stored', file='tools/tzdb/extractor.py', find='                self.invalid_link_lines += len(lines)\n            else:\n                self.links_map[link_name] = lines[0]',
         replace='                self.invalid_link_lines += len(lines)\n            self.links_map[link_name] = lines[0]', rule='G7'),
    dict(id='link-target-through-links-first', file='tools/tzdb/transformer.py', find='        for link_name, zone_name in links_map.items():\n            if zones_map.get(zone_name):',
         replace='        for link_name, zone_name in links_map.items():\n            zone_name = links_map.get(zone_name, zone_name)\n            if zones_map.get(zone_name):', rule='G8'),
    dict(id='link-chain-after-zone-test-silent', file='tools/tzdb/transformer.py', find='        for link_name, zone_name in links_map.items():\n            if zones_map.get(zone_name):',
         replace='        for link_name, zone_name in links_map.items():\n            if not zones_map.get(zone_name):\n                zone_name = links_map.get(zone_name, zone_name)\n            if zones_map.get(zone_name):', expect='silent'),
    dict(id='link-target-lookup-deleted', file='tools/zonedb/argenerator.py', find='            eras = self.zones_map[zone_name]\n            link_items += self._generate_link_item(link_name, zone_name)',
         replace='            link_items += self._generate_link_item(link_name, zone_name)', rule='G6'),
    dict(id='link-target-membership-test-silent', file='tools/zonedb/argenerator.py', find='            eras = self.zones_map[zone_name]\n            link_items += self._generate_link_item(link_name, zone_name)',
         replace="            if zone_name not in self.zones_map:\n                raise Exception('link to a removed zone')\n            link_items += self._generate_link_item(link_name, zone_name)", expect='silent'),
    dict(id='symbol-table-keyed-by-zone-name', file='tools/tzdb/transformer.py', find='                normalized_names[nname] = zone_name', replace='                normalized_names[zone_name] = nname', rule='G5'),
    dict(id='symbol-table-probed-by-link-name', file='tools/tzdb/transformer.py', unique=False, nth=1,
         find='            if normalized_names.get(nname):', replace='            if normalized_names.get(link_name):', rule='G5'),
    dict(id='collision-neighbours-in-name-order', file='tools/tzdb/transformer.py', regex=True,
         find=r'        hashes: Dict\[int, str\] = \{\}\n        for name, _ in zones_map\.items\(\):\n.*?                hashes\[h\] = name\n',
         replace='        entries = sorted((name, hash_name(name)) for name in zones_map)\n        for (prev_name, prev_hash), (name, h) in zip(entries, entries[1:]):\n'
                 '            if prev_hash == h:\n                raise Exception("Hash collision")\n', rule='G4'),
    # (seeded round 6: equal ids are neighbours only when the list is sorted by id; sorted by name, a third name between the two hides them)
    dict(id='collision-neighbours-in-id-order-silent', file='tools/tzdb/transformer.py', regex=True,
         find=r'        hashes: Dict\[int, str\] = \{\}\n        for name, _ in zones_map\.items\(\):\n.*?                hashes\[h\] = name\n',
         replace='        entries = sorted((hash_name(name), name) for name in zones_map)\n        for (prev_hash, prev_name), (h, name) in zip(entries, entries[1:]):\n'
                 '            if prev_hash == h:\n                raise Exception("Hash collision")\n', expect='silent'),
    dict(id='collision-check-dropped', file='tools/tzdb/transformer.py',
         find='zones_map = self._detect_hash_collisions(zones_map)', replace='pass', rule='G4'),
]
