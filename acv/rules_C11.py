"""C11 - zone ids are djb2(name), unique, shared by all databases; registries complete and sorted;
links denote their targets.  Decided on the shipped artefacts (E-TAB) and on the generator (E-GNF)."""
import ast
import re

from .common import AnalysisError, Report
from . import tables, py, gnf
from .ir import walk_stmts, walk_expr, E

META = {
    'explanation': 'E-TAB over both generated C++ databases (every ZoneInfo, kZoneId constant, registry row, '
                   'link reference folded from the clang AST) plus E-GNF/ast rules on the generator: '
                   'hash_name is djb2, ids are computed from the emitted name, registries iterate sorted(); the two uniqueness '
                   'guards (hash collisions, colliding C++ symbols) probe and fill their seen-tables under the same derived key and '
                   'their raise/removal is control dependent on the probe; link items are generated only after the target was looked '
                   'up in the emitted zones; the extractor stores a link only for a name with one definition; links to missing '
                   'zones are detected on the link\'s own target.',
    'decided': 'id == djb2(name) for all zones; uniqueness; equality across zonedb/zonedbx/kZoneId constants; '
               'registry complete, duplicate-free, strictly ascending; link -> target agreement; generator shape; a freshly '
               'compiled source cannot silently emit two zones with one id or one symbol, nor a link bound to a zone other than '
               'its single declared target',
    'not_decided': 'equality with ids of earlier releases (no baseline in the repository): reduced to '
                   '"the id is a pure function of the name and that function is djb2"; tools/zonedbpy carries no ids',
    'assumptions': ['clang 14 parser and constant folding of literals', 'CPython ast',
                    'djb2 as defined in the property statement (implemented in the checker, not taken from the repo)'],
}


def djb2(s):
    h = 5381
    for b in s.encode('utf-8'):
        h = (33 * h + b) & 0xFFFFFFFF
    return h


def normalize_name(name):
    name = name.replace('+', '_PLUS_')
    return re.sub('[^a-zA-Z0-9_]', '_', name)


def run(cfg):
    R = Report('C11', cfg)
    dbs = {db: tables.CxxTables(cfg, db) for db in ('zonedb', 'zonedbx')}
    R.analysed['translation_units'] = ['tu/tables_zonedb.cpp', 'tu/tables_zonedbx.cpp']
    R.rule('T1', 'zoneId field equals djb2 of the string the name field points to', floor=600)
    R.rule('T2', 'zone ids are unique within a database', floor=600)
    R.rule('T3', 'a name present in both databases has the same id in both', floor=250)
    R.rule('T4', 'kZoneId<X> equals the id of kZone<X> and djb2 of the name in its comment', floor=600)
    R.rule('T5', 'registry lists every zone exactly once, ascending by name, sizes agree', floor=600)
    R.rule('T6', 'every link reference binds to the zone its header comment names; shared links agree', floor=350)
    R.rule('T7', 'identifiers kZone<X> are normalize_name images of the zone names', floor=600)
    names = {}
    for db, T in dbs.items():
        seen_ids = {}
        names[db] = {}
        for short, info in T.infos.items():
            nm = T.zone_name(short)
            c = '%s::%s' % (db, short)
            R.instance('T1', c, info.loc, 'name=%r id=0x%08x' % (nm, info['zoneId'] or 0))
            if not isinstance(nm, str):
                R.violation('T1', c, info.loc, 'name field does not point to a string constant')
                continue
            names[db][nm] = short
            if info['zoneId'] != djb2(nm):
                R.violation('T1', c, info.loc, 'zoneId 0x%08x is not djb2(%r) = 0x%08x' % (info['zoneId'], nm, djb2(nm)))
            R.instance('T2', c, info.loc)
            if info['zoneId'] in seen_ids:
                R.violation('T2', c, info.loc, 'id 0x%08x also used by %s' % (info['zoneId'], seen_ids[info['zoneId']]))
            seen_ids[info['zoneId']] = short
            R.instance('T7', c, info.loc)
            if short != 'kZone' + normalize_name(nm):
                R.violation('T7', c, info.loc, 'identifier is not kZone%s for name %r' % (normalize_name(nm), nm))
            # T4
            kid = 'kZoneId' + short[len('kZone'):]
            R.instance('T4', '%s::%s' % (db, kid), info.loc)
            if kid not in T.zone_ids:
                R.violation('T4', '%s::%s' % (db, kid), info.loc, 'no published id constant for zone %r' % nm)
            else:
                v, loc, comment = T.zone_ids[kid]
                if v != info['zoneId']:
                    R.violation('T4', '%s::%s' % (db, kid), loc, 'constant 0x%08x differs from zoneId 0x%08x of %s' % (v or 0, info['zoneId'], short))
                elif comment is not None and djb2(comment.strip()) != v:
                    R.violation('T4', '%s::%s' % (db, kid), loc, 'constant is not djb2 of the name in its comment %r' % comment)
        for kid, (v, loc, _c) in T.zone_ids.items():
            if 'kZone' + kid[len('kZoneId'):] not in T.infos:
                R.instance('T4', '%s::%s' % (db, kid), loc)
                R.violation('T4', '%s::%s' % (db, kid), loc, 'id constant without a zone')
        # T5 registry
        c = '%s::kZoneRegistry' % db
        reg = T.registry
        if not (len(reg) == T.registry_len == T.registry_size_const == len(T.infos)):
            R.instance('T5', c, T.registry_loc)
            R.violation('T5', c, T.registry_loc, 'sizes disagree: %d rows, declared [%s], kZoneRegistrySize=%s, %d ZoneInfo definitions' %
                        (len(reg), T.registry_len, T.registry_size_const, len(T.infos)))
        seen = set()
        prev = None
        for i, short in enumerate(reg):
            rc = '%s::kZoneRegistry[%s]' % (db, short)
            R.instance('T5', rc, T.registry_loc, 'row %d' % i if i < 2 else None)
            if short not in T.infos:
                R.violation('T5', rc, T.registry_loc, 'row %d does not reference a ZoneInfo of this database' % i)
                continue
            if short in seen:
                R.violation('T5', rc, T.registry_loc, 'zone listed twice (row %d)' % i)
            seen.add(short)
            nm = T.zone_name(short)
            if prev is not None and not (prev.encode() < nm.encode()):
                R.violation('T5', rc, T.registry_loc, 'row %d: %r does not sort strictly after %r (bytewise)' % (i, nm, prev))
            prev = nm
        for short in T.infos:
            if short not in seen:
                R.instance('T5', '%s::kZoneRegistry[%s]' % (db, short), T.infos[short].loc)
                R.violation('T5', '%s::kZoneRegistry[%s]' % (db, short), T.infos[short].loc, 'zone is defined but missing from the registry')
        # T6 links
        for link, tgt in T.links.items():
            lc = '%s::%s' % (db, link)
            R.instance('T6', lc, T.link_loc[link])
            if tgt not in T.infos:
                R.violation('T6', lc, T.link_loc[link], 'link target %s is not a zone of %s' % (tgt, db))
                continue
            hc = T.header_decl_comments.get(link)
            if hc is None or not hc[0] or '->' not in hc[0]:
                R.violation('T6', lc, T.link_loc[link], 'no "link -> target" record for this link in zone_infos.h')
                continue
            lname, tname = [x.strip() for x in hc[0].split('->', 1)]
            if 'kZone' + normalize_name(lname) != link:
                R.violation('T6', lc, hc[1], 'identifier is not the normalised form of link name %r' % lname)
            if T.zone_name(tgt) != tname:
                R.violation('T6', lc, T.link_loc[link], 'link %r is recorded as -> %r but is bound to zone %r' % (lname, tname, T.zone_name(tgt)))
    # T3 / shared links
    for nm, short in names['zonedb'].items():
        if nm in names['zonedbx']:
            R.instance('T3', nm, dbs['zonedb'].infos[short].loc)
            a = dbs['zonedb'].infos[short]['zoneId']
            b = dbs['zonedbx'].infos[names['zonedbx'][nm]]['zoneId']
            if a != b:
                R.violation('T3', nm, dbs['zonedb'].infos[short].loc, 'id 0x%08x in zonedb but 0x%08x in zonedbx' % (a, b))
    for link, tgt in dbs['zonedb'].links.items():
        if link in dbs['zonedbx'].links:
            R.instance('T6', 'shared::' + link, dbs['zonedb'].link_loc[link])
            ta = dbs['zonedb'].zone_name(tgt) if tgt in dbs['zonedb'].infos else tgt
            xb = dbs['zonedbx'].links[link]
            tb = dbs['zonedbx'].zone_name(xb) if xb in dbs['zonedbx'].infos else xb
            if ta != tb:
                R.violation('T6', 'shared::' + link, dbs['zonedb'].link_loc[link], 'link targets differ: %r in zonedb, %r in zonedbx' % (ta, tb))
    generator_rules(cfg, R)
    return R


def generator_rules(cfg, R):
    tr = py.load(cfg, 'tools/tzdb/transformer.py')
    ar = py.load(cfg, 'tools/zonedb/argenerator.py')
    R.analysed['python_modules'] = [tr.rel, ar.rel]
    # G1 hash_name is djb2
    R.rule('G1', 'hash_name: h0 = 5381; h <- (33*h + ord(c)) mod 2^32 over the characters of the name', floor=1)
    f = tr.fn('hash_name')
    R.instance('G1', 'tzdb.transformer.hash_name', f.loc)
    msg = check_djb2(f)
    if msg:
        R.violation('G1', 'tzdb.transformer.hash_name', f.loc, msg)
    # G2 zoneId=hash_name(name) where name is the emitted name
    R.rule('G2', 'every zoneId= template argument is hash_name(v) with v the variable emitted as zoneFullName', floor=2)
    for q, fn in ar.funcs.items():
        for n in ast.walk(fn.node):
            if isinstance(n, ast.Call):
                kws = {k.arg: k.value for k in n.keywords if k.arg}
                if 'zoneId' in kws:
                    c = 'zonedb.argenerator.%s' % q
                    loc = ar.loc(n)
                    R.instance('G2', c, loc, ast.unparse(kws['zoneId']))
                    v = kws['zoneId']
                    ok = (isinstance(v, ast.Call) and isinstance(v.func, ast.Name) and v.func.id == 'hash_name'
                          and len(v.args) == 1 and not v.keywords)
                    if ok and ar.imports.get('hash_name') != 'tzdb.transformer.hash_name':
                        ok = False
                    if not ok:
                        R.violation('G2', c, loc, 'zoneId is %s, not hash_name(<name>) of tzdb.transformer' % ast.unparse(v))
                        continue
                    full = kws.get('zoneFullName')
                    if full is None or ast.dump(full) != ast.dump(v.args[0]):
                        R.violation('G2', c, loc, 'the id is computed from %s but the emitted name is %s' %
                                    (ast.unparse(v.args[0]), ast.unparse(full) if full is not None else '<none>'))
    # G3 registry loop iterates sorted(zones_map.items()) and emits &kZone{normalize_name(key)}
    R.rule('G3', 'registry rows are emitted in sorted(zones_map.items()) order', floor=1)
    fn = ar.fn('ZoneRegistryGenerator.generate_registry_cpp')
    loops = [n for n in ast.walk(fn.node) if isinstance(n, ast.For)]
    c = 'zonedb.argenerator.ZoneRegistryGenerator.generate_registry_cpp'
    if not loops:
        raise AnalysisError('%s: no loop emits registry rows' % fn.loc)
    for lp in loops:
        R.instance('G3', c, ar.loc(lp), ast.unparse(lp.iter))
        it = lp.iter
        ok = (isinstance(it, ast.Call) and isinstance(it.func, ast.Name) and it.func.id == 'sorted' and it.args
              and 'zones_map' in ast.unparse(it.args[0]) and not any(k.arg in ('key', 'reverse') for k in it.keywords))
        if not ok:
            R.violation('G3', c, ar.loc(lp), 'registry rows are emitted in the order of %s, not sorted() by name' % ast.unparse(it))
    # G4 collision detection is called and raises
    R.rule('G4', '_detect_hash_collisions is on the path of transform() and raises on a collision', floor=2)
    tf = tr.fn('Transformer.transform')
    called = [e for s in walk_stmts(tf.body) for ex in _stmt_exprs(s) for e in walk_expr(ex)
              if e.k == 'call' and e.a[0] == 'Transformer._detect_hash_collisions']
    R.instance('G4', 'tzdb.transformer.Transformer.transform', tf.loc)
    if not called:
        R.violation('G4', 'tzdb.transformer.Transformer.transform', tf.loc, 'transform() does not call _detect_hash_collisions')
    symbol_guard_rule(R, tr)
    link_target_rule(R, ar)
    link_source_rules(cfg, R, tr)
    df = tr.fn('Transformer._detect_hash_collisions')
    R.instance('G4', 'tzdb.transformer.Transformer._detect_hash_collisions', df.loc)
    msg = check_collision_detector(df)
    if msg:
        R.violation('G4', 'tzdb.transformer.Transformer._detect_hash_collisions', df.loc, msg)


def symbol_guard_rule(R, tr):
    """Two zone names that normalise to one C++ symbol would share one kZone<X> definition (and one id constant):
    remove_zones_and_links_with_similar_names keeps a table of the normalised names seen so far.  Every table that the
    function both probes and fills must be probed and filled under the same key, and that key must be normalize_name()
    of the name at hand."""
    R.rule('G5', 'the duplicate-symbol guard probes and fills its table of seen symbols under normalize_name(name)', floor=2)
    f = tr.fn('Transformer.remove_zones_and_links_with_similar_names')
    n = f.node
    norm = {}
    for x in ast.walk(n):
        if isinstance(x, ast.Assign) and len(x.targets) == 1 and isinstance(x.targets[0], ast.Name) and isinstance(x.value, ast.Call) \
                and isinstance(x.value.func, ast.Name) and x.value.func.id == 'normalize_name':
            norm[x.targets[0].id] = ast.unparse(x.value.args[0]) if x.value.args else '?'
    if not norm:
        R.instance('G5', 'tzdb.transformer.' + f.name, f.loc)
        R.violation('G5', 'tzdb.transformer.' + f.name, f.loc, 'the function no longer computes normalize_name(name)')
        return
    for lp in [x for x in ast.walk(n) if isinstance(x, ast.For)]:
        probes, stores = {}, {}
        for x in ast.walk(lp):
            if isinstance(x, ast.Call) and isinstance(x.func, ast.Attribute) and x.func.attr == 'get' and isinstance(x.func.value, ast.Name) and x.args:
                probes.setdefault(x.func.value.id, []).append(x.args[0])
            elif isinstance(x, ast.Compare) and len(x.ops) == 1 and isinstance(x.ops[0], (ast.In, ast.NotIn)) and isinstance(x.comparators[0], ast.Name):
                probes.setdefault(x.comparators[0].id, []).append(x.left)
            elif isinstance(x, ast.Subscript) and isinstance(x.value, ast.Name) and isinstance(x.ctx, ast.Store):
                stores.setdefault(x.value.id, []).append(x.slice)
        for t in sorted(set(probes) & set(stores)):
            c = 'tzdb.transformer.%s:%s@%s' % (f.name, t, ast.unparse(lp.target).replace(' ', ''))
            R.instance('G5', c, tr.loc(lp))
            pk = {ast.unparse(k) for k in probes[t]}
            sk = {ast.unparse(k) for k in stores[t]}
            if not all(k in norm for k in pk):
                R.violation('G5', c, tr.loc(lp), 'the table %s is probed with %s, which is not normalize_name(name)' % (t, sorted(pk)))
            elif sk != pk:
                R.violation('G5', c, tr.loc(lp), 'the table %s is probed with %s but filled under %s: a second name with the same symbol is never found in it, '
                            'so both are emitted and share one kZone definition and one id' % (t, sorted(pk), sorted(sk)))
        if not (set(probes) & set(stores)):
            R.instance('G5', 'tzdb.transformer.%s:loop@%s' % (f.name, ast.unparse(lp.target).replace(' ', '')), tr.loc(lp))
            R.violation('G5', 'tzdb.transformer.%s:loop@%s' % (f.name, ast.unparse(lp.target).replace(' ', '')), tr.loc(lp),
                        'the loop keeps no table of seen symbols that it both probes and fills')


def link_target_rule(R, ar):
    """A link is emitted as a reference to kZone<target>: the generator has to know the target is among the emitted zones
    (the transformer removes zones after it has pruned links, so a link can outlive its target).  In the loop that emits
    the link items the target name must be looked up in self.zones_map - a subscript (KeyError on a missing target) or a
    membership test - before the item is generated."""
    R.rule('G6', 'a link item is generated only after its target was looked up in the emitted zones', floor=1)
    f = ar.fn('ZoneInfosGenerator.generate_infos_cpp')
    loops = [x for x in ast.walk(f.node) if isinstance(x, ast.For) and 'links_map' in ast.unparse(x.iter)
             and any(isinstance(y, ast.Call) and ast.unparse(y.func).endswith('_generate_link_item') for y in ast.walk(x))]
    if not loops:
        raise AnalysisError('%s: no loop over links_map that calls _generate_link_item (anchor moved)' % f.loc)
    for lp in loops:
        c = 'zonedb.argenerator.%s:links' % f.name
        R.instance('G6', c, ar.loc(lp))
        tgt = lp.target.elts[1].id if isinstance(lp.target, ast.Tuple) and len(lp.target.elts) == 2 and isinstance(lp.target.elts[1], ast.Name) else None
        ok = False
        for s in lp.body:
            if any(isinstance(y, ast.Call) and ast.unparse(y.func).endswith('_generate_link_item') for y in ast.walk(s)):
                break
            for y in ast.walk(s):
                if isinstance(y, ast.Subscript) and ast.unparse(y.value) == 'self.zones_map' and isinstance(y.ctx, ast.Load) and ast.unparse(y.slice) == tgt:
                    ok = True
                if isinstance(y, ast.Compare) and len(y.ops) == 1 and isinstance(y.ops[0], (ast.In, ast.NotIn)) \
                        and ast.unparse(y.comparators[0]) == 'self.zones_map' and ast.unparse(y.left) == tgt:
                    ok = True
        if not ok:
            R.violation('G6', c, ar.loc(lp), 'link items are generated without looking the target %s up in self.zones_map: a link whose target zone was removed '
                        'after the links were pruned is emitted bound to whatever zone owns the symbol kZone<normalize_name(target)>' % tgt)


def link_source_rules(cfg, R, tr):
    """Where a link gets its target on the way into the tables.
    G7: the extractor stores a link only when its name has exactly one definition (a name defined twice with two targets
        has no single target to denote).
    G8: remove_links_to_missing_zones tests the link's own target against the zone table - it does not follow the target
        through the link table (a name that is both a Zone and a Link is resolved in favour of the Zone later on, so
        following links first binds the link to a different zone)."""
    ex = py.load(cfg, 'tools/tzdb/extractor.py')
    R.rule('G7', 'the extractor stores a link target only for a link name with exactly one definition', floor=1)
    f = ex.fn('Extractor._process_links')
    stores = [x for x in ast.walk(f.node) if isinstance(x, ast.Assign) and isinstance(x.targets[0], ast.Subscript) and 'links_map' in ast.unparse(x.targets[0].value)]
    c = 'tzdb.extractor.Extractor._process_links:store'
    if not stores:
        raise AnalysisError('%s: no store into links_map (anchor moved)' % f.loc)
    parents = {}
    for p in ast.walk(f.node):
        for ch in ast.iter_child_nodes(p):
            parents[ch] = p
    for st in stores:
        R.instance('G7', c, ex.loc(st))
        ok = False
        cur = st
        while cur in parents:
            par = parents[cur]
            if isinstance(par, ast.If) and 'len(lines)' in ast.unparse(par.test) and isinstance(par.test, ast.Compare) and len(par.test.ops) == 1:
                op, k = par.test.ops[0], par.test.comparators[0]
                kv = k.value if isinstance(k, ast.Constant) else None
                in_body = cur in par.body
                # the store must sit where len(lines) == 1 is implied
                single_in_body = (isinstance(op, ast.Eq) and kv == 1) or (isinstance(op, ast.LtE) and kv == 1) or (isinstance(op, ast.Lt) and kv == 2)
                single_in_else = (isinstance(op, ast.Gt) and kv == 1) or (isinstance(op, ast.GtE) and kv == 2) or (isinstance(op, ast.NotEq) and kv == 1)
                ok = (in_body and single_in_body) or (not in_body and single_in_else)
            cur = par
        if not ok:
            R.violation('G7', c, ex.loc(st), 'links_map[link_name] is filled from lines[0] also when the link name has several definitions: the link is emitted bound to its '
                        'first target although the source names another one as well')
    R.rule('G8', 'links to missing zones are detected on the link target itself, not on a target resolved through other links', floor=1)
    g = tr.fn('Transformer.remove_links_to_missing_zones')
    c8 = 'tzdb.transformer.Transformer.remove_links_to_missing_zones'
    R.instance('G8', c8, g.loc)
    for x in ast.walk(g.node):
        if isinstance(x, ast.Assign) and isinstance(x.targets[0], ast.Name) and any(
                isinstance(y, (ast.Call, ast.Subscript)) and 'links_map' in ast.unparse(y) for y in ast.walk(x.value)):
            tgt = x.targets[0].id
            loops = [lp for lp in ast.walk(g.node) if isinstance(lp, ast.For) and isinstance(lp.target, ast.Tuple) and any(isinstance(e, ast.Name) and e.id == tgt for e in lp.target.elts)]
            gpar = {}
            for p_ in ast.walk(g.node):
                for ch in ast.iter_child_nodes(p_):
                    gpar[ch] = p_
            guarded = False
            cur = x
            while cur in gpar:
                par = gpar[cur]
                if isinstance(par, ast.If) and 'zones_map' in ast.unparse(par.test) and tgt in ast.unparse(par.test):
                    guarded = True      # the Zone table is consulted first; links are followed only for a target that is not a Zone
                cur = par
            if loops and not guarded:
                R.violation('G8', c8, tr.loc(x), 'the loop variable %s (the link\'s target) is re-bound through links_map before it is tested against the zones: a name that is both a '
                            'Zone and a Link then stands for the other link\'s target' % tgt)


def _stmt_exprs(s):
    from .ir import stmt_exprs
    out = list(stmt_exprs(s))
    if s.k == 'loop':
        for i in s.a[1]:
            out.extend(stmt_exprs(i))
    return out


def check_djb2(f):
    """Normal form of the loop body of hash_name."""
    body = f.body
    loops = [s for s in body if s.k == 'loop']
    if len(loops) != 1 or loops[0].a[0] != 'foreach':
        return 'expected one loop over the characters of the name'
    lp = loops[0]
    init = lp.a[1][0]
    cvar = init.a[0]
    it = init.a[1].a[0]
    if cvar.k != 'var' or it.k != 'var' or it.a[0] != f.params[0]:
        return 'loop does not iterate over the characters of parameter %s' % f.params[0]
    # environment before the loop
    env = {}
    consts = {}
    for s in body:
        if s is lp:
            break
        if s.k == 'assign' and s.a[0].k == 'var' and s.a[2] == '=':
            consts[s.a[0].a[0]] = gnf.Canon(env=dict(consts))(s.a[1])
    rets = [s for s in body if s.k == 'return']
    if len(rets) != 1 or rets[0].a[0] is None or rets[0].a[0].k != 'var':
        return 'expected a single return of the accumulator'
    acc = rets[0].a[0].a[0]
    if acc not in consts or consts[acc].const_value() != 5381:
        return 'accumulator %s does not start at 5381 (it starts at %r)' % (acc, consts.get(acc))
    stmts = lp.a[4]
    env = {k: v for k, v in consts.items() if k != acc}
    cur = gnf.Poly.atom(('sym', 'H'))
    env[acc] = cur
    for s in stmts:
        if s.k != 'assign' or s.a[0].k != 'var':
            return 'loop body contains something other than assignments'
        can = gnf.Canon(env=env, fn={'ord': 'ORD'})
        v = can(s.a[1])
        if s.a[2] != '=':
            op = s.a[2][:-1]
            v = can(E('bin', op, s.a[0], s.a[1]))
        env[s.a[0].a[0]] = v
    final = env[acc]
    h = gnf.Poly.atom(('sym', 'H'))
    ordc = gnf.Poly.atom(('fn', 'ORD', (gnf.Poly.atom(('sym', cvar.a[0])).key(),)))
    want = gnf.Poly.atom(('fmod', (h * gnf.Poly.const(33) + ordc).key(), gnf.Poly.const(2 ** 32).key()))
    if final != want:
        return 'loop body computes %r, not (33*H + ord(c)) mod 2^32' % final
    return None


def check_collision_detector(df):
    n = df.node
    raises = [x for x in ast.walk(n) if isinstance(x, ast.Raise)]
    if not raises:
        return 'no raise statement: a collision would go unnoticed'
    calls = [x for x in ast.walk(n) if isinstance(x, ast.Call) and isinstance(x.func, ast.Name) and x.func.id == 'hash_name']
    if not calls:
        return 'does not compute hash_name of the zone names'
    # the raise must be control dependent on a lookup of the hash in the table of seen hashes
    hv = set()
    for x in ast.walk(n):
        if isinstance(x, ast.Assign) and len(x.targets) == 1 and isinstance(x.targets[0], ast.Name) and x.value in calls:
            hv.add(x.targets[0].id)

    def is_hash(k):
        return (isinstance(k, ast.Name) and k.id in hv) or k in calls

    probes, stores, probe_vars = {}, {}, {}
    for x in ast.walk(n):
        if isinstance(x, ast.Call) and isinstance(x.func, ast.Attribute) and isinstance(x.func.value, ast.Name) and x.args:
            if x.func.attr == 'get':
                probes.setdefault(x.func.value.id, []).append(x.args[0])
            elif x.func.attr in ('add', 'setdefault'):
                stores.setdefault(x.func.value.id, []).append(x.args[0])
        elif isinstance(x, ast.Compare) and len(x.ops) == 1 and isinstance(x.ops[0], (ast.In, ast.NotIn)) and isinstance(x.comparators[0], ast.Name):
            probes.setdefault(x.comparators[0].id, []).append(x.left)
        elif isinstance(x, ast.Subscript) and isinstance(x.value, ast.Name):
            (stores if isinstance(x.ctx, ast.Store) else probes).setdefault(x.value.id, []).append(x.slice)
        if isinstance(x, ast.Assign) and len(x.targets) == 1 and isinstance(x.targets[0], ast.Name):
            for y in ast.walk(x.value):
                if isinstance(y, ast.Call) and isinstance(y.func, ast.Attribute) and y.func.attr == 'get' and isinstance(y.func.value, ast.Name):
                    probe_vars[x.targets[0].id] = y.func.value.id
    tables_ = [t for t in probes if t in stores and any(is_hash(k) for k in probes[t] + stores[t])]
    if not tables_:
        return 'no table of seen hashes is both probed and filled with hash_name(name)'
    for t in tables_:
        for k in probes[t]:
            if not is_hash(k):
                return 'the seen table %s is probed with %s, which is not the hash of the name' % (t, ast.unparse(k))
        for k in stores[t]:
            if not is_hash(k):
                return ('the seen table %s is probed with the hash but filled under the key %s: no later name can ever be found in it, '
                        'so two names with one id pass unnoticed' % (t, ast.unparse(k)))
    for r in raises:
        p = _parent_if(n, r)
        if p is None:
            return 'raise is not guarded by a test of the seen-hash table'
        names = {y.id for y in ast.walk(p.test) if isinstance(y, ast.Name)}
        direct = any(isinstance(y, ast.Name) and y.id in tables_ for y in ast.walk(p.test))
        if not direct and not any(probe_vars.get(v) in tables_ for v in names):
            return 'the test guarding the raise (%s) does not consult the table of seen hashes' % ast.unparse(p.test)
    return None


def _parent_if(root, target):
    for x in ast.walk(root):
        if isinstance(x, ast.If):
            for sub in x.body + x.orelse:
                for y in ast.walk(sub):
                    if y is target:
                        return x
    return None


SELFTEST = [
    dict(id='id-digit-changed', file='src/ace_time/zonedb/zone_infos.cpp', find='0xc21305a3 /*zoneId*/',
         replace='0xc21305a4 /*zoneId*/', rule='T1', construct='kZoneAfrica_Abidjan'),
    dict(id='header-id-constant-changed', file='src/ace_time/zonedbx/zone_infos.h',
         find='kZoneIdAfrica_Accra = 0x77d5b054', replace='kZoneIdAfrica_Accra = 0x77d5b055', rule='T4', construct='kZoneIdAfrica_Accra'),
    dict(id='registry-rows-swapped', file='src/ace_time/zonedb/zone_registry.cpp',
         find='  &kZoneAfrica_Abidjan, // Africa/Abidjan\n  &kZoneAfrica_Accra, // Africa/Accra\n',
         replace='  &kZoneAfrica_Accra, // Africa/Accra\n  &kZoneAfrica_Abidjan, // Africa/Abidjan\n', rule='T5'),
    dict(id='registry-row-duplicated', file='src/ace_time/zonedbx/zone_registry.cpp',
         find='  &kZoneAfrica_Accra, // Africa/Accra\n', replace='  &kZoneAfrica_Abidjan, // Africa/Accra\n', rule='T5'),
    dict(id='link-retargeted', file='src/ace_time/zonedb/zone_infos.cpp',
         find='kZoneUS_Pacific = kZoneAmerica_Los_Angeles;', replace='kZoneUS_Pacific = kZoneAmerica_Denver;', rule='T6', construct='kZoneUS_Pacific'),
    dict(id='hash-multiplier', file='tools/tzdb/transformer.py', find='hash = (33 * hash + ord(c)) % U32_MOD',
         replace='hash = (31 * hash + ord(c)) % U32_MOD', rule='G1'),
    dict(id='hash-shift-spelling-silent', file='tools/tzdb/transformer.py', find='hash = (33 * hash + ord(c)) % U32_MOD',
         replace='hash = (((hash << 5) + hash) + ord(c)) & 0xFFFFFFFF', expect='silent'),
    dict(id='id-from-other-variable', file='tools/zonedb/argenerator.py', find='zoneId=hash_name(zone_name),\n            )',
         replace='zoneId=hash_name(normalize_name(zone_name)),\n            )', rule='G2'),
    dict(id='registry-unsorted', file='tools/zonedb/argenerator.py',
         find="for zone_name, eras in sorted(self.zones_map.items()):\n            name = normalize_name(zone_name)",
         replace="for zone_name, eras in self.zones_map.items():\n            name = normalize_name(zone_name)", rule='G3'),
    dict(id='collision-table-keyed-by-name', file='tools/tzdb/transformer.py', find='                hashes[h] = name', replace='                hashes[name] = h', rule='G4'),
    dict(id='collision-guard-tests-name', file='tools/tzdb/transformer.py', find='            if colliding_name:\n                raise Exception("Hash collision', replace='            if not name:\n                raise Exception("Hash collision', rule='G4'),
    dict(id='collision-membership-spelling-silent', file='tools/tzdb/transformer.py', regex=True,
         find=r'            colliding_name = hashes.get\(h\)\n            if colliding_name:\n(                raise Exception\("Hash collision[^\n]*\n)            else:\n                hashes\[h\] = name',
         replace=r'            if h in hashes:\n\1            hashes[h] = name', expect='silent'),
    dict(id='duplicate-link-stored', file='tools/tzdb/extractor.py', find='                self.invalid_link_lines += len(lines)\n            else:\n                self.links_map[link_name] = lines[0]',
         replace='                self.invalid_link_lines += len(lines)\n            self.links_map[link_name] = lines[0]', rule='G7'),
    dict(id='link-target-through-links-first', file='tools/tzdb/transformer.py', find='        for link_name, zone_name in links_map.items():\n            if zones_map.get(zone_name):',
         replace='        for link_name, zone_name in links_map.items():\n            zone_name = links_map.get(zone_name, zone_name)\n            if zones_map.get(zone_name):', rule='G8'),
    dict(id='link-chain-after-zone-test-silent', file='tools/tzdb/transformer.py', find='        for link_name, zone_name in links_map.items():\n            if zones_map.get(zone_name):',
         replace='        for link_name, zone_name in links_map.items():\n            if not zones_map.get(zone_name):\n                zone_name = links_map.get(zone_name, zone_name)\n            if zones_map.get(zone_name):', expect='silent'),
    dict(id='link-target-lookup-deleted', file='tools/zonedb/argenerator.py', find='            eras = self.zones_map[zone_name]\n            link_items += self._generate_link_item(link_name, zone_name)',
         replace='            link_items += self._generate_link_item(link_name, zone_name)', rule='G6'),
    dict(id='link-target-membership-test-silent', file='tools/zonedb/argenerator.py', find='            eras = self.zones_map[zone_name]\n            link_items += self._generate_link_item(link_name, zone_name)',
         replace="            if zone_name not in self.zones_map:\n                raise Exception('link to a removed zone')\n            link_items += self._generate_link_item(link_name, zone_name)", expect='silent'),
    dict(id='symbol-table-keyed-by-zone-name', file='tools/tzdb/transformer.py', find='                normalized_names[nname] = zone_name', replace='                normalized_names[zone_name] = nname', rule='G5'),
    dict(id='symbol-table-probed-by-link-name', file='tools/tzdb/transformer.py', unique=False, nth=1,
         find='            if normalized_names.get(nname):', replace='            if normalized_names.get(link_name):', rule='G5'),
    dict(id='collision-check-dropped', file='tools/tzdb/transformer.py',
         find='zones_map = self._detect_hash_collisions(zones_map)', replace='pass', rule='G4'),
]
