"""Shared plumbing: configuration, failure modes, findings, evidence, known-findings file."""
import hashlib
import json
import os
import re
import sys
import time

VERIF = os.path.dirname(os.path.dirname(os.path.abspath(__file__)))


class AnalysisError(Exception):
    """The analysis could not be carried out (anchor vanished, unrecognised idiom,
    parse failure, vacuity floor not met).  Exit code 2, never a silent pass."""


class Config:
    def __init__(self, repo='/repo', tier='quick', seed=0, jobs=16):
        self.repo = os.path.abspath(repo)
        self.tier = tier
        self.seed = seed
        self.jobs = jobs

    def src(self, *p):
        return os.path.join(self.repo, 'src', *p)

    def tools(self, *p):
        return os.path.join(self.repo, 'tools', *p)

    def rel(self, path):
        if path and path.startswith(self.repo + '/'):
            return path[len(self.repo) + 1:]
        return path


class Finding:
    __slots__ = ('rule', 'construct', 'loc', 'msg', 'detail')

    def __init__(self, rule, construct, loc, msg, detail=None):
        self.rule = rule
        self.construct = construct
        self.loc = loc
        self.msg = msg
        self.detail = detail

    def key(self):
        return (self.rule, self.construct)

    def as_dict(self):
        return {'rule': self.rule, 'construct': self.construct, 'loc': self.loc,
                'msg': self.msg, 'detail': self.detail}


MAIN_REPORT = None


class Report:
    """Collects what a property check examined and what it found."""

    def __init__(self, pid, cfg):
        self.pid = pid
        self.cfg = cfg
        self.findings = []
        self.rules = {}          # rule id -> dict(desc, instances, nontrivial set, samples, floor)
        self.undecided = []      # obligations stated but not decided (reported, not violations)
        self.notes = []
        self.exceptions = []     # exception-table entries in force
        self.analysed = {}       # free-form: translation units, functions, files
        self.t0 = time.time()
        global MAIN_REPORT
        if MAIN_REPORT is None:
            MAIN_REPORT = self           # the first report of the process is the one check.py finishes

    # -- rule registration ---------------------------------------------------
    def rule(self, rid, desc, floor=0):
        r = self.rules.setdefault(rid, {'desc': desc, 'instances': 0, 'constructs': set(),
                                        'samples': [], 'floor': floor, 'violations': 0})
        r['desc'] = desc
        r['floor'] = floor
        return rid

    def instance(self, rid, construct, loc=None, what=None, n=1):
        """An obligation site examined by rule rid (counts towards the vacuity floor)."""
        construct = construct.replace(' ', '')
        r = self.rules[rid]
        r['instances'] += n
        r['constructs'].add(construct)
        if len(r['samples']) < 6:
            s = {'construct': construct}
            if loc:
                s['loc'] = loc
            if what:
                s['what'] = what
            r['samples'].append(s)

    def violation(self, rid, construct, loc, msg, detail=None):
        construct = construct.replace(' ', '')
        self.rules[rid]['violations'] += 1
        self.findings.append(Finding(rid, construct, loc, msg, detail))

    def exception(self, rid, construct, reason):
        construct = construct.replace(' ', '')
        self.exceptions.append({'rule': rid, 'construct': construct, 'reason': reason})

    def undecided_obligation(self, rid, construct, loc, msg):
        self.undecided.append({'rule': rid, 'construct': construct, 'loc': loc, 'msg': msg})

    def note(self, s):
        self.notes.append(s)

    def check_floors(self):
        for rid, r in self.rules.items():
            # a rule that reports a violation is not vacuous: it may have stopped at the construct it could not accept.
            # The guard trips when fewer than half of the sites confirmed by hand are left: merging two call sites into one,
            # or folding two arms, is an ordinary edit and must not look like a vanished anchor; losing most of them does.
            need = max(1, (r['floor'] + 1) // 2) if r['floor'] > 0 else 0
            if r['instances'] < need and not r['violations']:
                raise AnalysisError(
                    '%s: rule %s matched %d obligation sites, fewer than half of the %d confirmed by hand '
                    '(vacuity guard): the anchors of this rule have moved' %
                    (self.pid, rid, r['instances'], r['floor']))


# -- known findings -----------------------------------------------------------

KNOWN_RE = re.compile(r'^known:\s+property=(\S+)\s+rule=(\S+)\s+construct=(\S+)\s+--\s+(.*)$')
FIXED_RE = re.compile(r'^fixed:\s+property=(\S+)\s+(\S+)\s+(.*)$')


def load_known_findings(path=None):
    path = path or os.path.join(VERIF, 'known_findings.txt')
    known = {}
    fixed = []
    if not os.path.exists(path):
        return known, fixed
    for ln in open(path):
        ln = ln.rstrip('\n')
        if not ln.strip() or ln.lstrip().startswith('#'):
            continue
        m = KNOWN_RE.match(ln)
        if m:
            known[(m.group(1), m.group(2), m.group(3))] = m.group(4)
            continue
        m = FIXED_RE.match(ln)
        if m:
            fixed.append((m.group(1), m.group(2), m.group(3)))
            continue
        raise AnalysisError('known_findings.txt: unparseable line: %r' % ln)
    return known, fixed


# -- evidence -------------------------------------------------------------------

def finish(report, level='other', explanation='', assumptions=(), decided='', not_decided='',
           write_evidence=True, evidence_dir=None, incomplete=None):
    """Print the report, write evidence, return the exit code.  incomplete: the text of an analysis error that stopped the rules
    part-way - what was found until then is still reported (a violation is a violation), the vacuity floors are not applied, and
    without a violation the exit code is 2."""
    pid = report.pid
    cfg = report.cfg
    if incomplete is None:
        report.check_floors()
    else:
        report.notes.append('analysis incomplete: %s' % incomplete)
    known, _fixed = load_known_findings()
    new = []
    listed = []
    for f in report.findings:
        k = (pid, f.rule, f.construct)
        if k in known:
            listed.append(f)
        else:
            new.append(f)
    # dedupe by key, keep first
    seen = set()
    for f in listed:
        if f.key() in seen:
            continue
        seen.add(f.key())
        print('KNOWN-FINDING: property=%s rule=%s construct=%s at %s: %s' %
              (pid, f.rule, f.construct, f.loc, known[(pid, f.rule, f.construct)]))
    ev_dir = evidence_dir or os.path.join(VERIF, 'evidence')
    os.makedirs(ev_dir, exist_ok=True)
    seen = set()
    nviol = 0
    for f in new:
        if f.key() in seen:
            continue
        seen.add(f.key())
        nviol += 1
        rdir = os.path.join(ev_dir, 'replays')
        os.makedirs(rdir, exist_ok=True)
        h = hashlib.sha1(('%s|%s|%s' % (pid, f.rule, f.construct)).encode()).hexdigest()[:10]
        rpath = os.path.join(rdir, '%s-%s-%s.json' % (pid, f.rule, h))
        with open(rpath, 'w') as fh:
            json.dump({'property': pid, 'repo': cfg.repo, **f.as_dict()}, fh, indent=1, default=str)
        print('%s: %s [%s] %s: %s' % (f.loc, pid, f.rule, f.construct, f.msg))
        if f.detail:
            for ln in (f.detail if isinstance(f.detail, list) else [f.detail]):
                print('    ' + str(ln))
        print('VIOLATION property=%s replay=%s' % (pid, rpath))
    # summary on stdout: what was analysed
    tot_inst = 0
    tot_constructs = set()
    rules_out = []
    samples = []
    for rid in sorted(report.rules):
        r = report.rules[rid]
        tot_inst += r['instances']
        tot_constructs |= {(rid, c) for c in r['constructs']}
        print('  rule %-10s sites=%-5d constructs=%-4d floor=%-4d violations=%d  %s' %
              (rid, r['instances'], len(r['constructs']), r['floor'], r['violations'], r['desc'][:90]))
        rules_out.append({'rule': rid, 'desc': r['desc'], 'obligation_sites': r['instances'],
                          'distinct_constructs': len(r['constructs']), 'floor': r['floor'],
                          'violations': r['violations']})
        for s in r['samples'][:3]:
            samples.append(dict(rule=rid, **s))
    for u in report.undecided:
        print('  UNDECIDED %s %s at %s: %s' % (u['rule'], u['construct'], u['loc'], u['msg']))
    wall = time.time() - report.t0
    if write_evidence:
        ev = {
            'property_id': pid,
            'tier': cfg.tier,
            'seed': cfg.seed,
            'level': level,
            'coverage': {
                'explanation': explanation,
                'decided': decided,
                'not_decided': not_decided,
                'obligations': tot_inst,
                'discharged': tot_inst - sum(r['violations'] for r in report.rules.values()),
                'evaluations': max(tot_inst, 1),
                'distinct_nontrivial': len(tot_constructs),
                'rule': 'one evaluation = one obligation site examined by a rule on the current '
                        'tree; distinct = distinct (rule, construct) pairs on which the rule had '
                        'something to decide',
                'samples': samples or [{'note': 'no instances'}],
                'rules': rules_out,
                'analysed': report.analysed,
                'exception_table': report.exceptions,
                'undecided_obligations': report.undecided,
                'known_findings_listed': [f.as_dict() for f in listed],
                'new_violations': [f.as_dict() for f in new],
                'notes': report.notes,
                'repo': cfg.repo,
            },
            'assumptions': list(assumptions),
            'wall_s': round(wall, 3),
            'violations': nviol,
        }
        with open(os.path.join(ev_dir, '%s.json' % pid), 'w') as fh:
            json.dump(ev, fh, indent=1, default=_json_default)
    print('%s: %d obligation sites over %d rules, %d known finding(s), %d new violation(s), %.1fs' %
          (pid, tot_inst, len(report.rules), len({f.key() for f in listed}), nviol, wall))
    if incomplete is not None:
        print('ANALYSIS-ERROR: property=%s %s' % (pid, incomplete))
        return 1 if nviol else 2
    return 1 if nviol else 0


def _json_default(o):
    if isinstance(o, (set, frozenset)):
        return sorted(o, key=str)
    return str(o)
