"""C17 - TimePeriod, TimeOffset and the mutation helpers, interpreted on their value families."""
from .common import AnalysisError, Report
from . import cxx

META = {
    'explanation': 'E-SEQ (typed): TimePeriod(int32) / toSeconds / compareTo / negate, TimeOffset::forHourMinute / toHourMinute / '
                   'toSeconds / forMinutes, increment15Minutes and the field-increment helpers are interpreted through their real '
                   'bodies (accessors and the ace_common helpers included) on the value families below and compared with the '
                   'arithmetic the property states: |s| split into hour / minute / second with the sign apart and recomposed; '
                   'compareTo by signed length, also for field states the setters can leave (minute 60 and more, negated zero); '
                   'minutes = 60 * hour + minute with truncating /60, %60 back; a step of 15 minutes wrapping above +16:00 to '
                   '-16:00; each increment helper on every value its field type can hold, stepping its own field through that '
                   'field\'s cycle and leaving every other field alone.  How a function spells it is immaterial.',
    'decided': 'on the families: TimePeriod(s).toSeconds() == s with minute, second < 60 and the sign apart (second counts around '
               'every minute and hour boundary up to +-255:59:59); compareTo orders by signed seconds; negate writes only the '
               'sign; forHourMinute / toHourMinute / toSeconds are 60*h+m, (/60, %60), 60*minutes on 90 (hour, minute) pairs; the '
               '15-minute step on every multiple of 15 in -16:00..+16:00 and six odd values; the helpers use moduli year 100, '
               'month 12 (+1), day 31 (+1), hour 24 (or the limit), minute 60 on the matching accessor pair for all 256 values of the field',
    'not_decided': 'second counts and (hour, minute) pairs outside the families (the families are boundary samples, not the 1,843,199 '
                   'second counts of the property)',
    'assumptions': ['clang 14 parser', 'ace_common::incrementMod/incrementModOffset as in the shim (d in [offset, m + offset))'],
}


def run(cfg):
    R = Report('C17', cfg)
    lib = cxx.load_lib(cfg)
    R.analysed['translation_units'] = ['tu/lib.cpp']
    R.rule('R1', 'TimePeriod: decomposition / recomposition / sign / compareTo / negate', floor=5)
    R.rule('R2', 'TimeOffset: hour-minute composition, seconds, 15-minute increment', floor=4)
    R.rule('R3', 'mutation helpers read and write the same field with its modulus', floor=8)

    def ob(rid, c, loc, ok, msg):
        R.instance(rid, c, loc)
        if not ok:
            R.violation(rid, c, loc, msg)
    value_rules(R, lib, ob)
    mutation_helpers(R, lib, ob)
    return R


def value_rules(R, lib, ob):
    """TimePeriod and TimeOffset, interpreted (E-SEQ, typed, every accessor and helper through its real body) on their value
    ranges: the constructor from seconds splits |s| into hour / minute / second with the sign apart and toSeconds() gives s
    back; compareTo orders by signed seconds; forHourMinute / toHourMinute / toSeconds / forMinutes agree with
    minutes = 60 * hour + minute (C++ truncation for negative values); increment15Minutes steps by 15 and wraps above
    +16:00 to -16:00.  How a function spells it - helpers, early returns, (a > b) - (a < b) - is immaterial."""
    from .aeval import AEval, AObj, CxxModule, Raised, Ref, cxx_object
    mod = CxxModule(lib, ['ace_time::', 'ace_common::'])

    def call(f, args, recv=None):
        return AEval(module=mod, typed=True, max_steps=20000).call_function(f.name, list(args), recv=recv, chosen=CxxModule._Fn(f))

    def tdiv(a_, b_):
        q_ = abs(a_) // abs(b_)
        return q_ if (a_ >= 0) == (b_ >= 0) else -q_
    # ---- TimePeriod(int32) and toSeconds
    ctors = [f for f in lib.fns('ace_time::TimePeriod::TimePeriod') if len(f.params) == 1 and f.params[0][1] == 'int']
    if not ctors:
        raise AnalysisError('anchor vanished: TimePeriod(int32_t)')
    cf = ctors[0]
    ts = lib.fn('ace_time::TimePeriod::toSeconds')
    ob('R1', 'ace_time::TimePeriod::fields', 'src/ace_time/TimePeriod.h',
       {n for n, _t, _x in lib.fields('ace_time::TimePeriod')} == {'mHour', 'mMinute', 'mSecond', 'mSign'}, 'TimePeriod fields changed')
    samples = sorted(set(list(range(-130, 131)) + [k * 3600 + d for k in (-255, -100, -24, -1, 1, 24, 100, 255) for d in (-1, 0, 1, 59, 60, 61, 3599)]
                         + [k * 60 + d for k in (-61, -59, 59, 61) for d in (-1, 0, 1)]))
    if R.cfg.tier == 'thorough':
        # every count up to +-2h02m, every 61st count (coprime to 60 and 3600: every second-of-minute and minute-of-hour residue)
        # up to the largest period, and its last two minutes
        top = 255 * 3600 + 3599
        samples = sorted(set(samples) | set(range(-7320, 7321)) | set(range(-top, top + 1, 61)) | set(range(top - 120, top + 1)) | set(range(-top, -top + 121)))
    samples = [s_ for s_ in samples if abs(s_) <= 255 * 3600 + 3599]
    bad_c = bad_t = None
    objs = {}
    try:
        for s_ in samples:
            o = cxx_object(lib, 'ace_time::TimePeriod')
            call(cf, [s_], recv=o)
            objs[s_] = o
            m_ = abs(s_)
            want = {'mHour': m_ // 3600, 'mMinute': m_ // 60 % 60, 'mSecond': m_ % 60}
            got = {k_: o.attrs[k_] for k_ in want}
            sg = o.attrs['mSign']
            if (got != want or not ((sg < 0) if s_ < 0 else (sg > 0))) and bad_c is None:
                bad_c = 'TimePeriod(%d) holds (hour %s, minute %s, second %s, sign %s), expected (%d, %d, %d) with a %s sign' % (
                    s_, got['mHour'], got['mMinute'], got['mSecond'], sg, want['mHour'], want['mMinute'], want['mSecond'], 'negative' if s_ < 0 else 'positive')
            back = call(ts, [], recv=o)
            if back != s_ and bad_t is None:
                bad_t = 'TimePeriod(%d).toSeconds() is %s' % (s_, back)
    except Raised as x_:
        bad_c = bad_c or 'interpretation raises %s' % x_.what
    R.instance('R1', 'ace_time::TimePeriod::TimePeriod(int32_t)', cf.loc, '%d second counts interpreted' % len(samples))
    if bad_c:
        R.violation('R1', 'ace_time::TimePeriod::TimePeriod(int32_t)', cf.loc, bad_c)
    R.instance('R1', ts.name, ts.loc, '%d second counts interpreted' % len(samples))
    if bad_t and not bad_c:
        R.violation('R1', ts.name, ts.loc, bad_t + ': toSeconds() is not sign * ((hour * 60 + minute) * 60 + second)')
    # ---- compareTo
    cmpf = lib.fn('ace_time::TimePeriod::compareTo')
    keys = [s_ for s_ in (-90000, -3600, -61, -60, -1, 0, 1, 59, 60, 3599, 3600, 90000) if s_ in objs or True]
    bad = None
    n = 0
    for x in keys:
        for y in keys:
            ox, oy = cxx_object(lib, 'ace_time::TimePeriod'), cxx_object(lib, 'ace_time::TimePeriod')
            try:
                call(cf, [x], recv=ox)
                call(cf, [y], recv=oy)
                got = call(cmpf, [oy], recv=ox)
            except Raised as x_:
                got = 'raises %s' % x_.what
            n += 1
            want = (x > y) - (x < y)
            if got != want and bad is None:
                bad = 'TimePeriod(%d).compareTo(TimePeriod(%d)) is %s, expected %d: compareTo does not order this->toSeconds() against that.toSeconds()' % (x, y, got, want)
    # periods as the field constructor / the setters / negate() leave them: a negated zero, minutes or seconds of 60 and more;
    # their signed length is sign * ((hour * 60 + minute) * 60 + second) all the same
    neg = lib.fns('ace_time::TimePeriod::negate')
    states = [(0, 0, 0, 1), (0, 0, 0, -1), (1, 0, 0, 1), (0, 60, 0, 1), (0, 59, 60, 1), (0, 59, 59, 1), (0, 0, 200, 1), (0, 3, 20, 1), (0, 2, 80, -1), (0, 3, 20, -1),
              (1, 0, 0, -1), (0, 60, 0, -1), (0, 61, 0, -1), (2, 0, 0, 1), (1, 59, 61, 1), (0, 0, 1, -1), (0, 0, 1, 1),
              # sign bytes other than +1 / -1, as the field constructor and sign(int8_t) accept them: the header documents that anything
              # >= 0 counts as positive and anything below as negative
              (0, 0, 30, 0), (0, 0, 30, 5), (0, 0, 30, -3), (0, 1, 0, 127), (0, 1, 0, -128)]
    made = []
    for h_, m_, s_, g_ in states:
        o = cxx_object(lib, 'ace_time::TimePeriod')
        o.attrs.update({'mHour': h_, 'mMinute': m_, 'mSecond': s_, 'mSign': g_})
        made.append((o, (1 if g_ >= 0 else -1) * ((h_ * 60 + m_) * 60 + s_), 'TimePeriod(%d, %d, %d, %d)' % (h_, m_, s_, g_)))
    for ox, lx, tx in made:
        try:
            got = call(ts, [], recv=ox)
        except Raised as x_:
            got = 'raises %s' % x_.what
        if got != lx and bad_t is None and not bad_c:
            bad_t = '%s.toSeconds() is %s, expected %d' % (tx, got, lx)
            R.violation('R1', ts.name, ts.loc, bad_t + ': toSeconds() is not (sign >= 0 ? 1 : -1) * ((hour * 60 + minute) * 60 + second)')
    if neg:
        for s_ in (0, 1, -1, 3600):
            o = cxx_object(lib, 'ace_time::TimePeriod')
            try:
                call(cf, [s_], recv=o)
                call(neg[0], [], recv=o)
                made.append((o, -s_, 'TimePeriod(%d) negated' % s_))
            except Raised:
                pass
    for ox, lx, tx in made:
        for oy, ly, ty in made:
            try:
                got = call(cmpf, [oy], recv=ox)
            except Raised as x_:
                got = 'raises %s' % x_.what
            n += 1
            want = (lx > ly) - (lx < ly)
            if got != want and bad is None:
                bad = '%s.compareTo(%s) is %s, expected %d: the signed lengths are %d and %d seconds' % (tx, ty, got, want, lx, ly)
    R.instance('R1', cmpf.name, cmpf.loc, '%d pairs interpreted' % n)
    if bad:
        R.violation('R1', cmpf.name, cmpf.loc, bad)
    # ---- TimeOffset
    fhm = lib.fn('ace_time::TimeOffset::forHourMinute')
    thm = lib.fn('ace_time::TimeOffset::toHourMinute')
    tsec = lib.fn('ace_time::TimeOffset::toSeconds')
    tmin = lib.fn('ace_time::TimeOffset::toMinutes')
    bad_f = bad_h = bad_s = None
    n = 0
    hours, mins = (-16, -12, -3, -1, 0, 1, 5, 14, 16), (-59, -45, -30, -1, 0, 1, 15, 30, 45, 59)
    if R.cfg.tier == 'thorough':
        hours, mins = list(range(-24, 25)) + [-99, 99], range(-59, 60)
    for h in hours:
        for mi in mins:
            try:
                o = call(fhm, [h, mi])
                minutes = call(tmin, [], recv=o)
            except Raised as x_:
                bad_f = bad_f or 'forHourMinute(%d, %d) raises %s' % (h, mi, x_.what)
                continue
            n += 1
            if minutes != 60 * h + mi and bad_f is None:
                bad_f = 'forHourMinute(%d, %d) holds %s minutes, expected %d: forHourMinute is not 60*hour + minute' % (h, mi, minutes, 60 * h + mi)
                continue
            box = {'h': 99, 'm': 99}
            try:
                call(thm, [Ref(box, 'h'), Ref(box, 'm')], recv=o)
                sec = call(tsec, [], recv=o)
            except Raised as x_:
                bad_h = bad_h or 'toHourMinute raises %s' % x_.what
                continue
            tot = 60 * h + mi
            if (box['h'], box['m']) != (tdiv(tot, 60), tot - 60 * tdiv(tot, 60)) and bad_h is None:
                bad_h = 'an offset of %d minutes gives toHourMinute = (%s, %s), expected (%d, %d): toHourMinute is not (minutes / 60, minutes %% 60)' % (
                    tot, box['h'], box['m'], tdiv(tot, 60), tot - 60 * tdiv(tot, 60))
            if sec != 60 * tot and bad_s is None:
                bad_s = 'an offset of %d minutes gives toSeconds() = %s: toSeconds is not 60 * minutes' % (tot, sec)
    for f_, b_ in ((fhm, bad_f), (thm, bad_h), (tsec, bad_s)):
        R.instance('R2', f_.name, f_.loc, '%d offsets interpreted' % n)
        if b_:
            R.violation('R2', f_.name, f_.loc, b_)
    inc = lib.fn('ace_time::time_offset_mutation::increment15Minutes')
    fmin = lib.fn('ace_time::TimeOffset::forMinutes')
    bad = None
    n = 0
    for start in (range(-960, 961) if R.cfg.tier == 'thorough' else list(range(-960, 961, 15)) + [-959, -1, 1, 7, 946, 959]):
        try:
            o = call(fmin, [start])
            call(inc, [o])
            got = call(tmin, [], recv=o)
        except Raised as x_:
            got = 'raises %s' % x_.what
        n += 1
        want = start + 15 if start + 15 <= 960 else -960
        if got != want and bad is None:
            bad = 'increment15Minutes turns %d minutes into %s, expected %d (a step of 15 that wraps above +16:00 to -16:00)' % (start, got, want)
    R.instance('R2', inc.name, inc.loc, '%d offsets interpreted' % n)
    if bad:
        R.violation('R2', inc.name, inc.loc, bad)


def mutation_helpers(R, lib, ob):
    """Each helper is interpreted (E-SEQ, typed: integer locals, fields, parameters and conversions wrap to their declared
    width, reference parameters are bound to the caller's cell, objects are trees of their real fields) on an object of the
    value class for *every* value the field's type can hold; the field is written and read back through the class's own
    accessors, which are interpreted through their bodies like everything else (ace_common::incrementMod /
    incrementModOffset through the bodies the shim gives them).  Afterwards exactly that field must hold "one more, wrapping
    from modulus + offset - 1 to offset" computed in the field's own type, and no other field may have changed - however
    the helper spells it (a call of the AceCommon helper, a wrapper of its own, explicit arithmetic)."""
    from .aeval import AEval, CxxModule, Raised, cxx_object
    from .cxx import int_type
    mod = CxxModule(lib, ['ace_time::', 'ace_common::'])
    classes = {'ace_time::ZonedDateTime': ['yearTiny', 'month', 'day', 'hour', 'minute', 'second'],
               'ace_time::TimePeriod': ['hour', 'minute', 'second', 'sign']}
    ftype = {}
    for cls, flds in classes.items():
        for fld in flds:
            setters = [g for g in lib.fns('%s::%s' % (cls, fld)) if len(g.params) == 1]
            getters = [g for g in lib.fns('%s::%s' % (cls, fld)) if not g.params]
            if not getters or not setters:
                raise AnalysisError('anchor vanished: accessor pair %s::%s' % (cls, fld))
            ftype[(cls, fld)] = int_type(setters[0].params[0][1])

    def ev():
        return AEval(module=mod, typed=True, max_steps=500000)

    def put(obj, cls, fld, v):
        ev().call_function('%s::%s' % (cls, fld), [v], recv=obj)

    def get(obj, cls, fld):
        return ev().call_function('%s::%s' % (cls, fld), [], recv=obj)

    def fresh(cls, values):
        obj = cxx_object(lib, cls)
        for fld, v in values.items():
            put(obj, cls, fld, v)
        return obj

    def ref(v, m, off, it):
        d = AEval._wrap(v - off, it)
        d = AEval._wrap(d + 1, it)
        if d >= m:
            d = 0
        return AEval._wrap(d + off, it)

    def domain(it):
        bits, signed = it
        return range(-(1 << (bits - 1)), (1 << (bits - 1)) - 1) if signed else range(0, 1 << bits)

    def check(q, nargs, cls, fld, m, off, extra=()):
        fs = [g for g in lib.fns(q) if len(g.params) == nargs]
        if not fs:
            raise AnalysisError('anchor vanished: %s with %d parameter(s)' % (q, nargs))
        f = fs[0]
        it = ftype[(cls, fld)]
        bad = None
        n = 0
        for v in domain(it):
            others = {x: 3 + i for i, x in enumerate(classes[cls]) if x != fld}
            if 'sign' in others:
                others['sign'] = 1
            obj = fresh(cls, dict(others, **{fld: v}))
            try:
                ev().call_function(q, [obj] + list(extra), chosen=mod.select(q, nargs, [None] * nargs))
                got = get(obj, cls, fld)
                now = {x: get(obj, cls, x) for x in others}
            except Raised as r_:
                bad = '%s = %d: raises %s' % (fld, v, r_.what)
                break
            n += 1
            want = ref(v, m, off, it)
            changed = sorted(x for x in others if now[x] != others[x])
            if got != want or changed:
                bad = ('%s = %d becomes %s%s; expected %d (one more, wrapping at %d%s, in the %sint%d_t the field is stored in)'
                       % (fld, v, got, (' and %s changes as well' % ', '.join(changed)) if changed else '', want, m, (' from %d' % off) if off else '',
                          '' if it[1] else 'u', it[0]))
                break
        return f, bad, n

    table = [('ace_time::zoned_date_time_mutation::incrementYear', 1, 'ace_time::ZonedDateTime', 'yearTiny', 100, 0),
             ('ace_time::zoned_date_time_mutation::incrementMonth', 1, 'ace_time::ZonedDateTime', 'month', 12, 1),
             ('ace_time::zoned_date_time_mutation::incrementDay', 1, 'ace_time::ZonedDateTime', 'day', 31, 1),
             ('ace_time::zoned_date_time_mutation::incrementHour', 1, 'ace_time::ZonedDateTime', 'hour', 24, 0),
             ('ace_time::zoned_date_time_mutation::incrementMinute', 1, 'ace_time::ZonedDateTime', 'minute', 60, 0),
             ('ace_time::time_period_mutation::incrementMinute', 1, 'ace_time::TimePeriod', 'minute', 60, 0),
             ('ace_time::time_period_mutation::incrementHour', 1, 'ace_time::TimePeriod', 'hour', 24, 0)]
    for q, nargs, cls, fld, m, off in table:
        f, bad, n = check(q, nargs, cls, fld, m, off)
        c = q + ('(period)' if q.endswith('time_period_mutation::incrementHour') else '')
        R.instance('R3', c, f.loc, '%d field values interpreted' % n)
        if bad:
            R.violation('R3', c, f.loc, bad)
    q = 'ace_time::time_period_mutation::incrementHour'
    for limit in (1, 2, 24, 100, 255):
        f, bad, n = check(q, 2, 'ace_time::TimePeriod', 'hour', limit, 0, extra=(limit,))
        R.instance('R3', q + '(period,limit)', f.loc, 'limit %d: %d field values interpreted' % (limit, n))
        if bad:
            R.violation('R3', q + '(period,limit)', f.loc, 'limit %d: %s' % (limit, bad))
            break
    # negate: only the sign, to its opposite - also for field values a constructor would not produce (setters do not
    # normalise: 75 minutes stay 75 minutes)
    q = 'ace_time::time_period_mutation::negate'
    f = lib.fn(q)
    bad = None
    cls = 'ace_time::TimePeriod'
    for vals in ({'hour': 3, 'minute': 4, 'second': 5}, {'hour': 3, 'minute': 75, 'second': 61}, {'hour': 255, 'minute': 59, 'second': 59}, {'hour': 0, 'minute': 0, 'second': 0}):
        for sg in (-1, 1):
            obj = fresh(cls, dict(vals, sign=sg))
            ev().call_function(q, [obj], chosen=mod.select(q, 1, [None]))
            now = {x: get(obj, cls, x) for x in ('hour', 'minute', 'second', 'sign')}
            if now != dict(vals, sign=-sg):
                bad = 'a period %r with sign %d becomes %r' % (vals, sg, now)
    ob('R1', q, f.loc, bad is None, 'negate() does not write exactly sign := -sign: %s' % bad)


SELFTEST = [
    dict(id='period-minute-modulus', file='src/ace_time/TimePeriod.h', regex=True,
         find=r'(      mSecond = seconds % 60;\n      seconds /= 60;\n      mMinute = seconds % )60;', replace=r'\g<1>100;', rule='R1', construct='TimePeriod(int32_t)'),
    dict(id='period-sign-not-negated', file='src/ace_time/TimePeriod.h', find='        seconds = -seconds;\n', replace='', rule='R1'),
    dict(id='period-recomposition-scale', file='src/ace_time/TimePeriod.h',
         find='int32_t seconds = ((mHour * (int16_t) 60) + mMinute) * (int32_t) 60', replace='int32_t seconds = ((mHour * (int16_t) 24) + mMinute) * (int32_t) 60', rule='R1', construct='toSeconds'),
    dict(id='period-sign-ignored', file='src/ace_time/TimePeriod.h', find='return (mSign >= 0) ? seconds : -seconds;', replace='return seconds;', rule='R1', construct='toSeconds'),
    dict(id='period-compare-reversed', file='src/ace_time/TimePeriod.h', find='      if (thisSeconds < thatSeconds) {\n        return -1;', replace='      if (thisSeconds > thatSeconds) {\n        return -1;', rule='R1', construct='compareTo'),
    dict(id='offset-hour-scale', file='src/ace_time/TimeOffset.h', find='int16_t minutes = hour * 60 + minute;', replace='int16_t minutes = hour * 100 + minute;', rule='R2', construct='forHourMinute'),
    dict(id='offset-to-hour-minute-swapped', file='src/ace_time/TimeOffset.h', find='      hour = mMinutes / 60;\n      minute = mMinutes % 60;', replace='      hour = mMinutes % 60;\n      minute = mMinutes / 60;', rule='R2', construct='toHourMinute'),
    dict(id='increment15-wrap-target', file='src/ace_time/time_offset_mutation.h', find='if (minutes > 960) minutes = -960;', replace='if (minutes > 960) minutes = 0;', rule='R2', construct='increment15Minutes'),
    dict(id='increment15-step', file='src/ace_time/time_offset_mutation.h', find='int16_t minutes = offset.toMinutes() + 15;', replace='int16_t minutes = offset.toMinutes() + 30;', rule='R2', construct='increment15Minutes'),
    dict(id='month-helper-modulus', file='src/ace_time/zoned_date_time_mutation.h', find='incrementModOffset(month, (uint8_t) 12, (uint8_t) 1);', replace='incrementModOffset(month, (uint8_t) 13, (uint8_t) 1);', rule='R3', construct='incrementMonth'),
    dict(id='hour-helper-writes-minute', file='src/ace_time/zoned_date_time_mutation.h', find='  dateTime.hour(hour);', replace='  dateTime.minute(hour);', rule='R3', construct='incrementHour'),
    dict(id='hour-helper-signed-local', file='src/ace_time/zoned_date_time_mutation.h',
         find='  uint8_t hour = dateTime.hour();\n  ace_common::incrementMod(hour, (uint8_t) 24);', replace='  int8_t hour = dateTime.hour();\n  ace_common::incrementMod(hour, (int8_t) 24);', rule='R3', construct='incrementHour'),
    dict(id='day-helper-no-offset', file='src/ace_time/zoned_date_time_mutation.h', find='incrementModOffset(day, (uint8_t) 31, (uint8_t) 1);', replace='incrementMod(day, (uint8_t) 31);', rule='R3', construct='incrementDay'),
    # behaviour-preserving rewrites: the rules must stay quiet
    dict(id='period-recomposition-reordered-silent', file='src/ace_time/TimePeriod.h',
         find='      int32_t seconds = ((mHour * (int16_t) 60) + mMinute) * (int32_t) 60\n          + mSecond;',
         replace='      int32_t seconds = mSecond + (int32_t) 60 * (mMinute + (mHour * (int16_t) 60));', expect='silent'),
    dict(id='period-compare-from-the-other-end-silent', file='src/ace_time/TimePeriod.h',
         find='      if (thisSeconds < thatSeconds) {\n        return -1;\n      } else if (thisSeconds == thatSeconds) {\n        return 0;\n      } else {\n        return 1;\n      }',
         replace='      if (thisSeconds > thatSeconds) {\n        return 1;\n      } else if (thisSeconds == thatSeconds) {\n        return 0;\n      } else {\n        return -1;\n      }', expect='silent'),
    dict(id='period-ctor-branches-swapped-silent', file='src/ace_time/TimePeriod.h',
         find='      if (seconds < 0) {\n        mSign = -1;\n        seconds = -seconds;\n      } else {\n        mSign = 1;\n      }',
         replace='      if (seconds >= 0) {\n        mSign = 1;\n      } else {\n        mSign = -1;\n        seconds = -seconds;\n      }', expect='silent'),
    dict(id='period-sign-test-inverted-silent', file='src/ace_time/TimePeriod.h', find='return (mSign >= 0) ? seconds : -seconds;', replace='return (mSign < 0) ? -seconds : seconds;', expect='silent'),
    dict(id='period-sign-applied-by-if-silent', file='src/ace_time/TimePeriod.h', find='return (mSign >= 0) ? seconds : -seconds;',
         replace='if (mSign < 0) {\n        return -seconds;\n      }\n      return seconds;', expect='silent'),
    dict(id='period-sign-applied-to-wrong-arm', file='src/ace_time/TimePeriod.h', find='return (mSign >= 0) ? seconds : -seconds;',
         replace='return (mSign < 0) ? seconds : -seconds;', rule='R1', construct='toSeconds'),
    dict(id='offset-composition-commuted-silent', file='src/ace_time/TimeOffset.h', find='int16_t minutes = hour * 60 + minute;', replace='int16_t minutes = minute + 60 * hour;', expect='silent'),
]
