"""C17 - TimePeriod, TimeOffset and the mutation helpers: decomposition/recomposition constant pairing, sign handling,
get/modify/set field pairing with the modulus of that field."""
from .common import AnalysisError, Report
from . import cxx
from .gnf import SymExec, Poly, Canon, valuations, formula_str, poly_key_str, cmp_formula, formulas_equivalent, f_not
from .ir import walk_stmts, walk_expr, all_exprs, show
from .paths import path_of

META = {
    'explanation': 'E-GNF linear forms of TimePeriod(int32)/toSeconds/compareTo/negate, TimeOffset::forHourMinute/toHourMinute/'
                   'toSeconds, increment15Minutes and the field-increment helpers: decomposition by %60,/60,%60,/60 pairs with '
                   'the Horner recomposition ((h*60)+m)*60+s, the sign is set from seconds<0 with negation and applied back '
                   '(sign tests compared as formulas, so `< 0` with swapped arms or an if is the same); the mutation helpers and '
                   'negate() are interpreted (E-SEQ, typed) on real object trees of ZonedDateTime / TimePeriod through the real '
                   'accessors: each helper steps its own field through that field\'s whole cycle and leaves every other field alone.',
    'decided': 'constant and sign pairing of decomposition and recomposition; compareTo orders by signed seconds; negate writes only '
               'the sign; hour/minute composition 60*h+m with /60, %60; 15-minute step wraps above +16:00 to -16:00; helpers use '
               'moduli year 100, month 12 (+1), day 31 (+1), hour 24, minute 60 on the matching getter/setter pair, holding the '
               'value in a local of the getter\'s own integer type',
    'not_decided': 'the numeric sweeps (every value in range round-trips)',
    'assumptions': ['clang 14 parser', 'ace_common::incrementMod/incrementModOffset as in the shim (d in [offset, m + offset))'],
}


def _P(k):
    return Poly(dict(k))


def _atom(p):
    if len(p.t) == 1:
        (k, v), = p.t.items()
        if len(k) == 1 and v == 1:
            return k[0]
    return None


def _sx(lib, inline=()):
    """summariser with ?: split into paths; the named small functions (getters, forwarding factories) are summarised in
    place so that a helper local, a delegation or a ?: instead of an if does not change what the rule sees"""
    sx = SymExec(fold_global=lib.global_value)
    sx.split_cond = True
    if inline:
        sx.inliner = lambda name, nargs: next((g for g in lib.fns(name) if name.endswith(tuple(inline)) and len(g.params) == nargs), None)
    return sx


def run(cfg):
    R = Report('C17', cfg)
    lib = cxx.load_lib(cfg)
    R.analysed['translation_units'] = ['tu/lib.cpp']
    R.rule('R1', 'TimePeriod: decomposition / recomposition / sign / compareTo / negate', floor=5)
    R.rule('R2', 'TimeOffset: hour-minute composition, seconds, 15-minute increment', floor=4)
    R.rule('R3', 'mutation helpers read and write the same field with its modulus', floor=8)

    def ob(rid, c, loc, ok, msg):
        R.instance(rid, c, loc)
        if not ok:
            R.violation(rid, c, loc, msg)
    # ---- TimePeriod(int32)
    ctors = [f for f in lib.funcs.get('ace_time::TimePeriod::TimePeriod', []) if len(f.params) == 1 and f.params[0][1] == 'int']
    if not ctors:
        raise AnalysisError('anchor vanished: TimePeriod(int32_t)')
    f = ctors[0]
    S = Poly.atom(('sym', f.params[0][0]))
    s = SymExec(fold_global=lib.global_value).run(f.name, f.body, {})
    neg = cmp_formula('<', S, Poly.const(0))
    ok, why = len(s.paths) == 2, 'expected two paths (negative / non-negative)'
    for g, kind, res, eff in s.paths:
        e = {t: _P(v) for t, v in eff if t != 'call'}
        isneg, _ = formulas_equivalent(g, neg)
        ispos, _ = formulas_equivalent(g, f_not(neg))
        if not (isneg or ispos):
            ok, why = False, 'path guard %s is not the sign test of the argument' % formula_str(g)
            break
        mag = -S if isneg else S
        sec = Poly.atom(('tmod', mag.key(), Poly.const(60).key()))
        q1 = Poly.atom(('tdiv', mag.key(), Poly.const(60).key()))
        mi = Poly.atom(('tmod', q1.key(), Poly.const(60).key()))
        ho = Poly.atom(('tdiv', q1.key(), Poly.const(60).key()))
        want = {'this.mSign': Poly.const(-1 if isneg else 1), 'this.mSecond': sec, 'this.mMinute': mi, 'this.mHour': ho}
        for k, v in want.items():
            if e.get(k) != v:
                ok, why = False, '%s is %r on the %s path, expected %r' % (k, e.get(k), 'negative' if isneg else 'non-negative', v)
    ob('R1', 'ace_time::TimePeriod::TimePeriod(int32_t)', f.loc, ok, why)
    # ---- toSeconds
    f = lib.fn('ace_time::TimePeriod::toSeconds')
    s = SymExec(fold_global=lib.global_value).run(f.name, f.body, {})
    H, M, Sx, SG = (Poly.atom(('sym', 'this.' + n)) for n in ('mHour', 'mMinute', 'mSecond', 'mSign'))
    mag = H * Poly.const(3600) + M * Poly.const(60) + Sx
    ok, why = False, 'toSeconds() is not sign * ((h*60 + m)*60 + s)'
    rets = [p for p in s.paths if p[1] == 'return']
    if len(rets) == 1:
        a = _atom(_P(rets[0][2]))
        if a and a[0] == 'cond':
            c, x, y = a[1], _P(a[2]), _P(a[3])
            # the condition is a test of the sign field (mSign is -1 or +1: ">= 0" and "> 0" select the same arm, so do
            # "< 0" and "<= 0"); the magnitude goes to the non-negative arm and its negation to the other
            ca = _atom(_P(c))
            ok = False
            if ca is not None and ca[0] == 'cmp':
                cf_ = cmp_formula(ca[1], _P(ca[2]), _P(ca[3]))
                pos = any(formulas_equivalent(cf_, cmp_formula(op, SG, Poly.const(0)))[0] for op in ('>=', '>'))
                negt = any(formulas_equivalent(cf_, cmp_formula(op, SG, Poly.const(0)))[0] for op in ('<', '<='))
                ok = (pos and x == mag and y == -mag) or (negt and x == -mag and y == mag)
            why = 'toSeconds() returns %s' % poly_key_str(rets[0][2])[:200]
    elif len(rets) == 2:
        ok = True
        for g, kind, res, eff in rets:
            ispos = any(formulas_equivalent(g, cmp_formula(op, SG, Poly.const(0)))[0] for op in ('>=', '>'))
            isneg = any(formulas_equivalent(g, cmp_formula(op, SG, Poly.const(0)))[0] for op in ('<', '<='))
            ok = ok and ((ispos and _P(res) == mag) or (isneg and _P(res) == -mag))
    ob('R1', f.name, f.loc, ok, why)
    # ---- compareTo
    f = lib.fn('ace_time::TimePeriod::compareTo')
    s = _sx(lib).run(f.name, f.body, {})
    that = f.params[0][0]
    A = Poly.atom(('fn', 'ace_time::TimePeriod::toSeconds', (Poly.atom(('sym', 'this')).key(),)))
    B = Poly.atom(('fn', 'ace_time::TimePeriod::toSeconds', (Poly.atom(('sym', that)).key(),)))
    ok, why, n = True, '', 0
    from .gnf import _split_base
    base, sgn, _c = _split_base(A - B)
    for val in valuations(s.guards()):
        hits = s.outcome(val)
        reg = val.regions.get(base.key())
        if len(hits) != 1 or reg is None:
            ok, why = False, 'compareTo does not order this->toSeconds() against that.toSeconds()'
            break
        n += 1
        v = (reg[1] if reg[0] == 'pt' else (-1 if reg[2] is not None and reg[2] <= 0 else 1)) * sgn
        want = -1 if v < 0 else 1 if v > 0 else 0
        got = _P(hits[0][2]).const_value() if hits[0][2] is not None and _P(hits[0][2]).is_const() else None
        if got != want:
            ok, why = False, 'returns %r when this - that is %s' % (got, 'negative' if v < 0 else 'positive' if v > 0 else 'zero')
            break
    ob('R1', f.name, f.loc, ok and n >= 3, why or 'fewer than three orderings distinguished')
    # (negate is decided with the other mutation helpers, by interpretation)
    # isError / sign application present
    ob('R1', 'ace_time::TimePeriod::fields', 'src/ace_time/TimePeriod.h',
       {n for n, _t, _x in lib.fields('ace_time::TimePeriod')} == {'mHour', 'mMinute', 'mSecond', 'mSign'}, 'TimePeriod fields changed')
    # ---- TimeOffset
    f = lib.fn('ace_time::TimeOffset::forHourMinute')
    s = _sx(lib, inline=('TimeOffset::forMinutes',)).run(f.name, f.body, {})
    h, m = (Poly.atom(('sym', p)) for p, _ in f.params)
    ok = bool(s.paths)
    for g, kind, res, eff in s.paths:
        a = _atom(_P(res)) if res is not None else None
        if not (a and a[0] == 'init' and len(a[2]) == 1 and _P(a[2][0]) == h * Poly.const(60) + m):
            ok = False          # every path, not just one of them
    ob('R2', f.name, f.loc, ok, 'forHourMinute is not 60*hour + minute on every path')
    f = lib.fn('ace_time::TimeOffset::toHourMinute')
    sx = _sx(lib, inline=('TimeOffset::toMinutes',))
    sx.out_params = {p for p, t in f.params if t and '&' in t}
    s = sx.run(f.name, f.body, {})
    mm = Poly.atom(('sym', 'this.mMinutes'))
    ok = False
    for g, kind, res, eff in s.paths:
        e = {t: _P(v) for t, v in eff if t != 'call'}
        ok = e.get(f.params[0][0]) == Poly.atom(('tdiv', mm.key(), Poly.const(60).key())) and \
            e.get(f.params[1][0]) == Poly.atom(('tmod', mm.key(), Poly.const(60).key()))
    ob('R2', f.name, f.loc, ok, 'toHourMinute is not (minutes / 60, minutes % 60)')
    f = lib.fn('ace_time::TimeOffset::toSeconds')
    s = _sx(lib, inline=('TimeOffset::toMinutes',)).run(f.name, f.body, {})
    ok = False
    for g, kind, res, eff in s.paths:
        l = _P(res).linear_in() if res is not None else None
        if l and len(l[0]) == 1 and l[1] == 0:
            (t, k), = l[0].items()
            ok = k == 60
    ob('R2', f.name, f.loc, ok, 'toSeconds is not 60 * minutes')
    f = lib.fn('ace_time::time_offset_mutation::increment15Minutes')
    s = SymExec(fold_global=lib.global_value).run(f.name, f.body, {})
    off = f.params[0][0]
    cur = Poly.atom(('fn', 'ace_time::TimeOffset::toMinutes', (Poly.atom(('sym', off)).key(),)))
    ok, why = len(s.paths) == 2, 'expected a step path and a wrap path'
    for g, kind, res, eff in s.paths:
        setv = None
        for t, v in eff:
            if t == 'call':
                for a in _P(v).atoms():
                    if a[0] == 'fn' and a[1].endswith('TimeOffset::setMinutes'):
                        setv = _P(a[2][1])
        wrapf = cmp_formula('>', cur + Poly.const(15), Poly.const(960))
        isw, _ = formulas_equivalent(g, wrapf)
        isn, _ = formulas_equivalent(g, f_not(wrapf))
        if isw:
            if setv != Poly.const(-960):
                ok, why = False, 'wraps to %r, expected -960 (= -16:00)' % setv
        elif isn:
            if setv != cur + Poly.const(15):
                ok, why = False, 'steps to %r, expected minutes + 15' % setv
        else:
            ok, why = False, 'wrap condition is %s, expected minutes + 15 > 960' % formula_str(g)
    ob('R2', f.name, f.loc, ok, why)
    mutation_helpers(R, lib, ob)
    return R


def mutation_helpers(R, lib, ob):
    """Each helper is interpreted (E-SEQ, typed: integer locals, fields, parameters and conversions wrap to their declared
    width, reference parameters are bound to the caller's cell, objects are trees of their real fields) on an object of the
    value class for *every* value the field's type can hold; the field is written and read back through the class's own
    accessors, which are interpreted through their bodies like everything else (ace_common::incrementMod /
    incrementModOffset through the bodies the shim gives them).  Afterwards exactly that field must hold "one more, wrapping
    from modulus + offset - 1 to offset" computed in the field's own type, and no other field may have changed - however
    the helper spells it (a call of the AceCommon helper, a wrapper of its own, explicit arithmetic)."""
    from .aeval import AEval, CxxModule, Raised, cxx_object
    from .cxx import int_type
    mod = CxxModule(lib, ['ace_time::', 'ace_common::'])
    classes = {'ace_time::ZonedDateTime': ['yearTiny', 'month', 'day', 'hour', 'minute', 'second'],
               'ace_time::TimePeriod': ['hour', 'minute', 'second', 'sign']}
    ftype = {}
    for cls, flds in classes.items():
        for fld in flds:
            setters = [g for g in lib.fns('%s::%s' % (cls, fld)) if len(g.params) == 1]
            getters = [g for g in lib.fns('%s::%s' % (cls, fld)) if not g.params]
            if not getters or not setters:
                raise AnalysisError('anchor vanished: accessor pair %s::%s' % (cls, fld))
            ftype[(cls, fld)] = int_type(setters[0].params[0][1])

    def ev():
        return AEval(module=mod, typed=True, max_steps=500000)

    def put(obj, cls, fld, v):
        ev().call_function('%s::%s' % (cls, fld), [v], recv=obj)

    def get(obj, cls, fld):
        return ev().call_function('%s::%s' % (cls, fld), [], recv=obj)

    def fresh(cls, values):
        obj = cxx_object(lib, cls)
        for fld, v in values.items():
            put(obj, cls, fld, v)
        return obj

    def ref(v, m, off, it):
        d = AEval._wrap(v - off, it)
        d = AEval._wrap(d + 1, it)
        if d >= m:
            d = 0
        return AEval._wrap(d + off, it)

    def domain(it):
        bits, signed = it
        return range(-(1 << (bits - 1)), (1 << (bits - 1)) - 1) if signed else range(0, 1 << bits)

    def check(q, nargs, cls, fld, m, off, extra=()):
        fs = [g for g in lib.fns(q) if len(g.params) == nargs]
        if not fs:
            raise AnalysisError('anchor vanished: %s with %d parameter(s)' % (q, nargs))
        f = fs[0]
        it = ftype[(cls, fld)]
        bad = None
        n = 0
        for v in domain(it):
            others = {x: 3 + i for i, x in enumerate(classes[cls]) if x != fld}
            if 'sign' in others:
                others['sign'] = 1
            obj = fresh(cls, dict(others, **{fld: v}))
            try:
                ev().call_function(q, [obj] + list(extra), chosen=mod.select(q, nargs, [None] * nargs))
                got = get(obj, cls, fld)
                now = {x: get(obj, cls, x) for x in others}
            except Raised as r_:
                bad = '%s = %d: raises %s' % (fld, v, r_.what)
                break
            n += 1
            want = ref(v, m, off, it)
            changed = sorted(x for x in others if now[x] != others[x])
            if got != want or changed:
                bad = ('%s = %d becomes %s%s; expected %d (one more, wrapping at %d%s, in the %sint%d_t the field is stored in)'
                       % (fld, v, got, (' and %s changes as well' % ', '.join(changed)) if changed else '', want, m, (' from %d' % off) if off else '',
                          '' if it[1] else 'u', it[0]))
                break
        return f, bad, n

    table = [('ace_time::zoned_date_time_mutation::incrementYear', 1, 'ace_time::ZonedDateTime', 'yearTiny', 100, 0),
             ('ace_time::zoned_date_time_mutation::incrementMonth', 1, 'ace_time::ZonedDateTime', 'month', 12, 1),
             ('ace_time::zoned_date_time_mutation::incrementDay', 1, 'ace_time::ZonedDateTime', 'day', 31, 1),
             ('ace_time::zoned_date_time_mutation::incrementHour', 1, 'ace_time::ZonedDateTime', 'hour', 24, 0),
             ('ace_time::zoned_date_time_mutation::incrementMinute', 1, 'ace_time::ZonedDateTime', 'minute', 60, 0),
             ('ace_time::time_period_mutation::incrementMinute', 1, 'ace_time::TimePeriod', 'minute', 60, 0),
             ('ace_time::time_period_mutation::incrementHour', 1, 'ace_time::TimePeriod', 'hour', 24, 0)]
    for q, nargs, cls, fld, m, off in table:
        f, bad, n = check(q, nargs, cls, fld, m, off)
        c = q + ('(period)' if q.endswith('time_period_mutation::incrementHour') else '')
        R.instance('R3', c, f.loc, '%d field values interpreted' % n)
        if bad:
            R.violation('R3', c, f.loc, bad)
    q = 'ace_time::time_period_mutation::incrementHour'
    for limit in (1, 2, 24, 100, 255):
        f, bad, n = check(q, 2, 'ace_time::TimePeriod', 'hour', limit, 0, extra=(limit,))
        R.instance('R3', q + '(period,limit)', f.loc, 'limit %d: %d field values interpreted' % (limit, n))
        if bad:
            R.violation('R3', q + '(period,limit)', f.loc, 'limit %d: %s' % (limit, bad))
            break
    # negate: only the sign, to its opposite - also for field values a constructor would not produce (setters do not
    # normalise: 75 minutes stay 75 minutes)
    q = 'ace_time::time_period_mutation::negate'
    f = lib.fn(q)
    bad = None
    cls = 'ace_time::TimePeriod'
    for vals in ({'hour': 3, 'minute': 4, 'second': 5}, {'hour': 3, 'minute': 75, 'second': 61}, {'hour': 255, 'minute': 59, 'second': 59}, {'hour': 0, 'minute': 0, 'second': 0}):
        for sg in (-1, 1):
            obj = fresh(cls, dict(vals, sign=sg))
            ev().call_function(q, [obj], chosen=mod.select(q, 1, [None]))
            now = {x: get(obj, cls, x) for x in ('hour', 'minute', 'second', 'sign')}
            if now != dict(vals, sign=-sg):
                bad = 'a period %r with sign %d becomes %r' % (vals, sg, now)
    ob('R1', q, f.loc, bad is None, 'negate() does not write exactly sign := -sign: %s' % bad)


def _const(e):
    while e.k == 'cast':
        e = e.a[2]
    return e.a[0] if e.k == 'const' else None


def helper_shape(lib, f, obj, field, helper, consts):
    """getter of `field` on obj -> local; helper(local, consts...); setter of `field` on obj with local."""
    stmts = f.body
    local = None
    got = called = sett = False
    for s in stmts:
        if s.k == 'decl' and s.a[2] is not None:
            e = s.a[2]
            while e.k == 'cast':
                e = e.a[2]
            if e.k == 'call' and e.a[0].split('::')[-1] == field and e.a[1] is not None and path_of(e.a[1]) == obj and not e.a[2]:
                local = s.a[0]
                got = True
                from .cxx import int_type
                getters = [g for g in lib.fns(e.a[0]) if not g.params]
                lt, gt = int_type(s.a[1]), (int_type(getters[0].ret) if getters else None)
                if lt is not None and gt is not None and lt != gt:
                    return False, ('the value of %s.%s() (%sint%d_t) is held in a %sint%d_t local: stored values outside the common range are reinterpreted, '
                                   'so the wrap test of %s never fires for them' % (obj, field, '' if gt[1] else 'u', gt[0], '' if lt[1] else 'u', lt[0], helper))
        elif s.k == 'expr' and s.a[0].k == 'call':
            e = s.a[0]
            if e.a[0].endswith('::' + helper) and local is not None and e.a[2] and path_of(e.a[2][0]) == local:
                vals = []
                for a in e.a[2][1:]:
                    c = _const(a)
                    if c is None:
                        b = a
                        while b.k == 'cast':
                            b = b.a[2]
                        vals.append(('param', path_of(b)))
                    else:
                        vals.append(c)
                if vals == consts:
                    called = True
                else:
                    return False, '%s is called with %r, expected %r for field %s' % (helper, vals, consts, field)
            elif e.a[0].split('::')[-1] == field and e.a[1] is not None and path_of(e.a[1]) == obj and len(e.a[2]) == 1 \
                    and path_of(e.a[2][0]) == local:
                sett = True
            elif e.a[1] is not None and path_of(e.a[1]) == obj and e.a[2]:
                return False, 'writes field %s instead of %s' % (e.a[0].split('::')[-1], field)
    if not got:
        return False, 'does not read %s.%s()' % (obj, field)
    if not called:
        return False, 'does not call %s on the value read' % helper
    if not sett:
        return False, 'does not write the result back with %s.%s(value)' % (obj, field)
    return True, ''


SELFTEST = [
    dict(id='period-minute-modulus', file='src/ace_time/TimePeriod.h', regex=True,
         find=r'(      mSecond = seconds % 60;\n      seconds /= 60;\n      mMinute = seconds % )60;', replace=r'\g<1>100;', rule='R1', construct='TimePeriod(int32_t)'),
    dict(id='period-sign-not-negated', file='src/ace_time/TimePeriod.h', find='        seconds = -seconds;\n', replace='', rule='R1'),
    dict(id='period-recomposition-scale', file='src/ace_time/TimePeriod.h',
         find='int32_t seconds = ((mHour * (int16_t) 60) + mMinute) * (int32_t) 60', replace='int32_t seconds = ((mHour * (int16_t) 24) + mMinute) * (int32_t) 60', rule='R1', construct='toSeconds'),
    dict(id='period-sign-ignored', file='src/ace_time/TimePeriod.h', find='return (mSign >= 0) ? seconds : -seconds;', replace='return seconds;', rule='R1', construct='toSeconds'),
    dict(id='period-compare-reversed', file='src/ace_time/TimePeriod.h', find='      if (thisSeconds < thatSeconds) {\n        return -1;', replace='      if (thisSeconds > thatSeconds) {\n        return -1;', rule='R1', construct='compareTo'),
    dict(id='offset-hour-scale', file='src/ace_time/TimeOffset.h', find='int16_t minutes = hour * 60 + minute;', replace='int16_t minutes = hour * 100 + minute;', rule='R2', construct='forHourMinute'),
    dict(id='offset-to-hour-minute-swapped', file='src/ace_time/TimeOffset.h', find='      hour = mMinutes / 60;\n      minute = mMinutes % 60;', replace='      hour = mMinutes % 60;\n      minute = mMinutes / 60;', rule='R2', construct='toHourMinute'),
    dict(id='increment15-wrap-target', file='src/ace_time/time_offset_mutation.h', find='if (minutes > 960) minutes = -960;', replace='if (minutes > 960) minutes = 0;', rule='R2', construct='increment15Minutes'),
    dict(id='increment15-step', file='src/ace_time/time_offset_mutation.h', find='int16_t minutes = offset.toMinutes() + 15;', replace='int16_t minutes = offset.toMinutes() + 30;', rule='R2', construct='increment15Minutes'),
    dict(id='month-helper-modulus', file='src/ace_time/zoned_date_time_mutation.h', find='incrementModOffset(month, (uint8_t) 12, (uint8_t) 1);', replace='incrementModOffset(month, (uint8_t) 13, (uint8_t) 1);', rule='R3', construct='incrementMonth'),
    dict(id='hour-helper-writes-minute', file='src/ace_time/zoned_date_time_mutation.h', find='  dateTime.hour(hour);', replace='  dateTime.minute(hour);', rule='R3', construct='incrementHour'),
    dict(id='hour-helper-signed-local', file='src/ace_time/zoned_date_time_mutation.h',
         find='  uint8_t hour = dateTime.hour();\n  ace_common::incrementMod(hour, (uint8_t) 24);', replace='  int8_t hour = dateTime.hour();\n  ace_common::incrementMod(hour, (int8_t) 24);', rule='R3', construct='incrementHour'),
    dict(id='day-helper-no-offset', file='src/ace_time/zoned_date_time_mutation.h', find='incrementModOffset(day, (uint8_t) 31, (uint8_t) 1);', replace='incrementMod(day, (uint8_t) 31);', rule='R3', construct='incrementDay'),
    # behaviour-preserving rewrites: the rules must stay quiet
    dict(id='period-recomposition-reordered-silent', file='src/ace_time/TimePeriod.h',
         find='      int32_t seconds = ((mHour * (int16_t) 60) + mMinute) * (int32_t) 60\n          + mSecond;',
         replace='      int32_t seconds = mSecond + (int32_t) 60 * (mMinute + (mHour * (int16_t) 60));', expect='silent'),
    dict(id='period-compare-from-the-other-end-silent', file='src/ace_time/TimePeriod.h',
         find='      if (thisSeconds < thatSeconds) {\n        return -1;\n      } else if (thisSeconds == thatSeconds) {\n        return 0;\n      } else {\n        return 1;\n      }',
         replace='      if (thisSeconds > thatSeconds) {\n        return 1;\n      } else if (thisSeconds == thatSeconds) {\n        return 0;\n      } else {\n        return -1;\n      }', expect='silent'),
    dict(id='period-ctor-branches-swapped-silent', file='src/ace_time/TimePeriod.h',
         find='      if (seconds < 0) {\n        mSign = -1;\n        seconds = -seconds;\n      } else {\n        mSign = 1;\n      }',
         replace='      if (seconds >= 0) {\n        mSign = 1;\n      } else {\n        mSign = -1;\n        seconds = -seconds;\n      }', expect='silent'),
    dict(id='period-sign-test-inverted-silent', file='src/ace_time/TimePeriod.h', find='return (mSign >= 0) ? seconds : -seconds;', replace='return (mSign < 0) ? -seconds : seconds;', expect='silent'),
    dict(id='period-sign-applied-by-if-silent', file='src/ace_time/TimePeriod.h', find='return (mSign >= 0) ? seconds : -seconds;',
         replace='if (mSign < 0) {\n        return -seconds;\n      }\n      return seconds;', expect='silent'),
    dict(id='period-sign-applied-to-wrong-arm', file='src/ace_time/TimePeriod.h', find='return (mSign >= 0) ? seconds : -seconds;',
         replace='return (mSign < 0) ? seconds : -seconds;', rule='R1', construct='toSeconds'),
    dict(id='offset-composition-commuted-silent', file='src/ace_time/TimeOffset.h', find='int16_t minutes = hour * 60 + minute;', replace='int16_t minutes = minute + 60 * hour;', expect='silent'),
]
