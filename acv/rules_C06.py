"""C06 - calendar and epoch arithmetic (thin structural clauses): leap-year predicate truth table, month-length and
weekday tables, one-day increment/decrement decision lists with their wrap constants."""
import ast

from .common import AnalysisError, Report
from . import cxx, py
from .ceval import CEval, Obj
from .gnf import SymExec, Poly, Canon, valuations, formula_atoms, poly_key_str
from .ir import walk_stmts, all_exprs, show

META = {
    'explanation': 'LocalDate::isLeapYear, daysInMonth and isYearValid folded through their real bodies (acv/ceval.py, typed) on every '
                   'year 1872..2128 plus the century years / every month, transformer._days_in_month interpreted (E-SEQ) on the same '
                   'years; LocalTime::forSeconds given its integer meaning on all 86,400 seconds of a day; table checks of sDaysInMonth / DAYS_IN_MONTH / sDayOfWeek '
                   '(month-to-month recurrence of the weekday offsets and the epoch-day anchor by constant propagation); '
                   'decision lists of incrementOneDay / decrementOneDay with their wrap constants; the closed arithmetic forms of '
                   'isLeapYear, isYearValid, toEpochDays and extractYearMonthDay are extracted from the source and given their integer '
                   'meaning on every year / every day of 1873..2127 (quick tier: century and boundary years, month ends) against the '
                   'checker\'s own proleptic Gregorian calendar; LocalTime decomposition / recomposition / isError table; the '
                   'floor-division idiom of the two forEpochSeconds.',
    'decided': 'leap-year predicate is the Gregorian one in C++ and Python; month lengths are the calendar\'s in both; the weekday '
               'offset table is consistent with the month lengths around the March-based year and anchored at 2000-01-01 = Saturday; '
               'one-day increment/decrement wrap at day > daysInMonth / day == 0 with the right month/year carries and are mutually '
               'inverse on the decision level; toEpochDays and extractYearMonthDay equal the Gregorian day count and its inverse on '
               'every day of the domain (thorough tier: all 93,136 days); isYearValid accepts exactly 1873..2127; seconds of the day '
               'split and recombine consistently and LocalTime::isError accepts exactly 00:00:00..23:59:59 and 24:00:00; '
               'isError() of LocalDate and LocalDateTime (interpreted on stored field bytes, 0 and the values above the ranges '
               'included) flags the invalid year, months outside 1..12 and days outside 1..31 and no date of the calendar',
    'not_decided': 'the composition of the pieces for all 2^32 epoch seconds (each piece - floor quotient, day formulas, seconds-of-day '
                   'split - is decided on its own domain); the closed form of dayOfWeek beyond its table and anchor',
    'assumptions': ['clang 14 parser', 'CPython ast'],
}

GREG_DAYS = [31, 28, 31, 30, 31, 30, 31, 31, 30, 31, 30, 31]


def _P(k):
    return Poly(dict(k))


def leap_table(formula, year_sym, lang):
    """evaluate the formula on the four consistent valuations; returns list of (d4, d100, d400, value)."""
    from .gnf import arith_assign, eval_formula
    seen = {}
    # the predicate is a closed arithmetic formula in the year: give it its meaning on every year of the supported range
    for y in range(1872, 2129):
        try:
            v = eval_formula(formula, arith_assign({year_sym: y}, lang))
        except (KeyError, TypeError):
            raise AnalysisError('leap-year predicate is not a closed arithmetic formula in %s: %r' % (year_sym, formula))
        key = (int(y % 4 == 0), int(y % 100 == 0), int(y % 400 == 0))
        if key not in seen or seen[key][0] == bool((key[0] and not key[1]) or key[2]):
            seen[key] = (bool(v), y)
    return [(k[0], k[1], k[2], v) for k, (v, _y) in sorted(seen.items())]


def run(cfg):
    R = Report('C06', cfg)
    lib = cxx.load_lib(cfg)
    R.analysed['translation_units'] = ['tu/lib.cpp']
    R.rule('R1', 'leap-year predicate equals the Gregorian rule on every consistent valuation of the divisibility atoms', floor=2)
    R.rule('R2', 'month-length and weekday-offset tables agree with the calendar', floor=4)
    R.rule('R4', 'incrementOneDay / decrementOneDay: wrap conditions and carries', floor=2)

    def ob(rid, c, loc, ok, msg):
        R.instance(rid, c, loc)
        if not ok:
            R.violation(rid, c, loc, msg)
    # R1 C++: the predicate is folded through its real body (constant propagation) for every year of the supported range
    # and every century year around it - whatever its form (one expression, a chain of early returns)
    import calendar
    f = lib.fn('ace_time::LocalDate::isLeapYear')
    years = sorted(set(range(1872, 2129)) | {1600, 1700, 1800, 2200, 2300, 2400})
    ev0 = CEval(lib)
    bad = []
    try:
        for y in years:
            if bool(ev0.call(f, None, (y,))) != calendar.isleap(y):
                bad.append(y)
    except Exception as ex:
        raise AnalysisError('%s: isLeapYear() cannot be folded (%s)' % (f.loc, ex))
    ob('R1', f.name, f.loc, not bad, 'isLeapYear() differs from the Gregorian rule (divisible by 4, not by 100 unless by 400) for the years %s%s' % (bad[:6], ' ...' if len(bad) > 6 else ''))
    # R1 Python: _days_in_month(year, month) is interpreted (E-SEQ) on every month of the same years
    from .pyeval import PyEval, Raised
    tr = py.load(cfg, 'tools/tzdb/transformer.py')
    pf = tr.fn('_days_in_month')
    R.analysed['python_modules'] = [tr.rel]
    bad_leap, bad_len = [], []
    pev = PyEval(cfg, max_steps=5000000)
    for y in years:
        for mth in range(1, 13):
            try:
                v = pev.call(tr, '_days_in_month', [y, mth])
            except Raised as r_:
                v = 'raises %s' % r_.what
            want = calendar.monthrange(y, mth)[1]
            if v != want:
                (bad_leap if mth == 2 and v in (28, 29) else bad_len).append('%04d-%02d -> %s (calendar: %d)' % (y, mth, v, want))
    ob('R1', 'tzdb.transformer._days_in_month:is_leap', pf.loc, not bad_leap, 'February has the wrong length in %d years, e.g. %s' % (len(bad_leap), '; '.join(bad_leap[:3])))
    # R2 tables
    dim = lib.array_values('ace_time::LocalDate::sDaysInMonth')
    ob('R2', 'LocalDate::sDaysInMonth', 'src/ace_time/LocalDate.cpp', dim == GREG_DAYS, 'month lengths are %r' % dim)
    ob('R2', 'tzdb.transformer._days_in_month:DAYS_IN_MONTH', pf.loc, not bad_len, 'Python month lengths differ from the calendar in %d months, e.g. %s' % (len(bad_len), '; '.join(bad_len[:3])))
    dow = lib.array_values('ace_time::LocalDate::sDayOfWeek')
    bad = []
    if len(dow) == 12:
        for m in range(12):
            nxt = (m + 1) % 12
            if nxt == 0:
                continue    # Dec -> Jan crosses the (March-based) year handled by the y + y/4 - ... term
            step = GREG_DAYS[m] - (1 if m == 1 else 0)   # Feb -> Mar: the year term advances by one at March
            if (dow[m] + step) % 7 != dow[nxt] % 7:
                bad.append('%d->%d' % (m + 1, nxt + 1))
    ob('R2', 'LocalDate::sDayOfWeek', 'src/ace_time/LocalDate.cpp', len(dow) == 12 and not bad,
       'weekday offsets are inconsistent with the month lengths at %s' % bad)
    # anchor: constant propagation of the epoch date 2000-01-01 (a Saturday, ISO weekday 6) through dayOfWeek()
    g = lib.fn('ace_time::LocalDate::dayOfWeek')
    ev = CEval(lib)
    try:
        v = ev.call(g, Obj({'mYearTiny': 0, 'mMonth': 1, 'mDay': 1}), ())
    except Exception as e:
        raise AnalysisError('%s: dayOfWeek() cannot be folded on the epoch date (%s)' % (g.loc, e))
    ob('R2', 'LocalDate::dayOfWeek@2000-01-01', g.loc, v == 6, 'the epoch date folds to weekday %r, expected 6 (Saturday)' % v)
    # daysInMonth uses month-1 and adds one for a leap February
    h = lib.fn('ace_time::LocalDate::daysInMonth')
    badm = []
    try:
        for y in (1900, 2000, 2001, 2004, 2100):
            for mth in range(1, 13):
                v = ev.call(h, None, (y, mth))
                if v != calendar.monthrange(y, mth)[1]:
                    badm.append('%04d-%02d -> %r' % (y, mth, v))
    except Exception as e:
        raise AnalysisError('%s: daysInMonth() cannot be folded (%s)' % (h.loc, e))
    ob('R2', h.name, h.loc, not badm, 'daysInMonth() does not give the calendar month length (table entry month-1, 29 for a leap February): %s' % '; '.join(badm[:4]))
    onedays(R, lib, ob)
    localtime_pairing(R, lib, ob)
    localdate_error(R, lib, ob)
    floor_rule(R, lib, ob)
    julian_rule(R, lib, ob)
    year_range_rule(R, lib, ob)
    return R


def julian_rule(R, lib, ob):
    """The two Julian-day formulas are closed arithmetic expressions in the date fields / in the day count.  They are
    extracted from the source (symbolic summary of the straight-line bodies, casts dropped after the range rules of C09)
    and given their integer meaning on every day of the domain 1873-01-01 .. 2127-12-31 (quick tier: every day of the
    century and boundary years and the first, last and 28th/29th days of every month of the other years); the oracle is
    the proleptic Gregorian ordinal of the checker's own calendar."""
    import datetime
    from .gnf import compile_poly
    R.rule('R3', 'toEpochDays / extractYearMonthDay are the proleptic Gregorian day count and its inverse on every day of 1873..2127', floor=2)
    epoch_ord = datetime.date(2000, 1, 1).toordinal()
    full = R.cfg.tier == 'thorough'
    special_years = {1873, 1874, 1899, 1900, 1901, 1903, 1904, 1999, 2000, 2001, 2004, 2038, 2068, 2099, 2100, 2101, 2126, 2127}
    dates = []
    d = datetime.date(1873, 1, 1)
    end = datetime.date(2127, 12, 31)
    one = datetime.timedelta(days=1)
    while d <= end:
        nxt = d + one
        if full or d.year in special_years or d.day in (1, 28, 29) or nxt.day == 1:
            dates.append(d)
        d = nxt
    # -- toEpochDays and its inverse, through the real bodies (constant propagation, acv/ceval.py; typed interpretation when
    #    a body uses something the folder does not follow): LocalDate(y, m, d).toEpochDays() and LocalDate::forEpochDays(e)
    from .aeval import AEval, AObj, CxxModule, cxx_object
    f = lib.fn('ace_time::LocalDate::toEpochDays')
    g = lib.fn('ace_time::LocalDate::forEpochDays')
    amod = CxxModule(lib, ['ace_time::'])
    cev = CEval(lib)

    def to_days(dt, how):
        if how == 'fold':
            return cev.call(f, Obj({'mYearTiny': dt.year - 2000, 'mMonth': dt.month, 'mDay': dt.day}), ())
        o = cxx_object(lib, 'ace_time::LocalDate')
        o.attrs.update({'mYearTiny': dt.year - 2000, 'mMonth': dt.month, 'mDay': dt.day})
        return AEval(module=amod, typed=True, max_steps=20000).call_function(f.name, [], recv=o, chosen=CxxModule._Fn(f))

    def from_days(e, how):
        if how == 'fold':
            r = cev.call(g, None, (e,))
            fl = getattr(r, 'fields', None) or getattr(r, 'f', None) or {}
        else:
            r = AEval(module=amod, typed=True, max_steps=20000).call_function(g.name, [e], chosen=CxxModule._Fn(g))
            fl = r.attrs if isinstance(r, AObj) else {}
        if not {'mYearTiny', 'mMonth', 'mDay'} <= set(fl):
            raise ValueError('forEpochDays does not give a LocalDate (%r)' % (r,))
        return (fl['mYearTiny'] + 2000, fl['mMonth'], fl['mDay'])
    for c, fn_, probe in (('LocalDate::toEpochDays', to_days, dates[0]), ('LocalDate::extractYearMonthDay', from_days, 0)):
        # the folder is the fast path; it is only used when it agrees with the typed interpreter on a few probes (it does not
        # follow every idiom, e.g. reference parameters filled under a condition)
        how = 'fold'
        try:
            probes = [probe] + ([dates[len(dates) // 2], dates[-1]] if fn_ is to_days else [-46385, 31, 46000])
            if any(fn_(p_, 'fold') != fn_(p_, 'interpret') for p_ in probes):
                how = 'interpret'
        except Exception:
            how = 'interpret'
        sample = dates if how == 'fold' or full else [d_ for i, d_ in enumerate(dates) if i % 4 == 0 or d_.year in (1873, 1900, 2000, 2100, 2127)]
        bad = []
        try:
            for dt in sample:
                e = dt.toordinal() - epoch_ord
                if fn_ is to_days:
                    got = fn_(dt, how)
                    if got != e:
                        bad.append('%s -> %r (expected %d)' % (dt.isoformat(), got, e))
                else:
                    got = fn_(e, how)
                    if got != (dt.year, dt.month, dt.day):
                        bad.append('%d -> %s (expected %s)' % (e, got, dt.isoformat()))
        except Exception as ex:
            raise AnalysisError('%s: %s cannot be evaluated (%s)' % (f.loc, c, ex))
        R.note('%s evaluated on %d dates (%s)' % (c, len(sample), how))
        loc_ = f.loc if fn_ is to_days else lib.fn('ace_time::LocalDate::extractYearMonthDay').loc if lib.has_fn('ace_time::LocalDate::extractYearMonthDay') else g.loc
        ob('R3', c, loc_, not bad, ('the day-count formula is wrong for %d of the %d dates evaluated, e.g. %s' if fn_ is to_days else
                                    'the inverse formula is wrong for %d of the %d epoch days evaluated, e.g. %s') % (len(bad), len(sample), '; '.join(bad[:3])))
    # -- dayOfWeek and daysInMonth: constant propagation of every date / every (year, month) through the real bodies
    import calendar
    ev = CEval(lib)
    dw = lib.fn('ace_time::LocalDate::dayOfWeek')
    bad = []
    try:
        for dt in dates:
            v = ev.call(dw, Obj({'mYearTiny': dt.year - 2000, 'mMonth': dt.month, 'mDay': dt.day}), ())
            if v != dt.isoweekday():
                bad.append('%s -> %r (expected %d)' % (dt.isoformat(), v, dt.isoweekday()))
    except Exception as e:
        raise AnalysisError('%s: dayOfWeek() cannot be folded (%s)' % (dw.loc, e))
    ob('R3', 'LocalDate::dayOfWeek', dw.loc, not bad, 'the weekday is wrong for %d of the %d dates evaluated, e.g. %s' % (len(bad), len(dates), '; '.join(bad[:3])))
    dm = lib.fn('ace_time::LocalDate::daysInMonth')
    bad = []
    try:
        for y in range(1873, 2128):
            for mth in range(1, 13):
                v = ev.call(dm, None, (y, mth))
                if v != calendar.monthrange(y, mth)[1]:
                    bad.append('%04d-%02d -> %r' % (y, mth, v))
    except Exception as e:
        raise AnalysisError('%s: daysInMonth() cannot be folded (%s)' % (dm.loc, e))
    ob('R3', 'LocalDate::daysInMonth', dm.loc, not bad, 'the month length is wrong for %d of the 3060 months of 1873..2127, e.g. %s' % (len(bad), '; '.join(bad[:3])))


def year_range_rule(R, lib, ob):
    """isYearValid(y) holds exactly for the years whose offset from 2000 fits the stored int8 without being the error
    sentinel: kEpochYear + kMinYearTiny .. kEpochYear + kMaxYearTiny = 1873 .. 2127 (the domain of the property)."""
    R.rule('R7', 'isYearValid(year) is true exactly for 1873..2127', floor=1)
    f = lib.fn('ace_time::LocalDate::isYearValid')
    lo = lib.const('ace_time::LocalDate::kEpochYear') + lib.const('ace_time::LocalDate::kMinYearTiny')
    hi = lib.const('ace_time::LocalDate::kEpochYear') + lib.const('ace_time::LocalDate::kMaxYearTiny')
    bad = []
    ev = CEval(lib)
    # the predicate is folded through its body for every 16-bit year (quick tier: the years within 300 of the range and a
    # stride over the rest)
    ys = range(-32768, 32768) if R.cfg.tier == 'thorough' else sorted(set(range(1500, 2500)) | set(range(-32768, 32768, 97)) | {-32768, 32767})
    try:
        for y in ys:
            if bool(ev.call(f, None, (y,))) != (lo <= y <= hi):
                bad.append(y)
    except Exception as ex:
        raise AnalysisError('%s: isYearValid() cannot be folded (%s)' % (f.loc, ex))
    ob('R7', f.name, f.loc, not bad and (lo, hi) == (1873, 2127),
       'isYearValid() differs from %d <= year <= %d for the years %s%s' % (lo, hi, bad[:4], ' ...' if len(bad) > 4 else '') if bad else 'the constants give the range %d..%d, not 1873..2127' % (lo, hi))


def floor_rule(R, lib, ob):
    """epoch seconds -> epoch days is a floor division written with truncating '/': (es < 0) ? (es + 1) / 86400 - 1 : es / 86400,
    in both LocalDate::forEpochSeconds and LocalDateTime::forEpochSeconds."""
    from .rules_C05 import floor_days
    R.rule('R6', 'epoch seconds -> epoch days is the floor quotient by 86400 (truncating division corrected for negative values)', floor=2)
    for q in ('ace_time::LocalDate::forEpochSeconds', 'ace_time::LocalDateTime::forEpochSeconds'):
        f = lib.fn(q)
        ok, why, n = floor_days(lib, q)
        R.instance('R6', f.name, f.loc, '%d instants evaluated' % n)
        if not ok:
            R.violation('R6', f.name, f.loc, why)


def localtime_pairing(R, lib, ob):
    """LocalTime::forSeconds decomposes with %60, /60, %60, /60; toSeconds recomposes ((h*60)+m)*60+s; isError bounds the fields."""
    R.rule('R5', 'LocalTime: seconds-of-day decomposition pairs with the recomposition; isError() bounds every field', floor=3)
    f = lib.fn('ace_time::LocalTime::forSeconds')
    S = Poly.atom(('sym', f.params[0][0]))
    s = SymExec(fold_global=lib.global_value).run(f.name, f.body, {})
    ok, why = False, 'no valid-path decomposition found'
    for gd, kind, res, eff in s.paths:
        if kind != 'return' or res is None:
            continue
        a = None
        p = _P(res)
        if len(p.t) == 1:
            (k, v), = p.t.items()
            a = k[0] if len(k) == 1 and v == 1 else None
        if a is None or a[0] != 'init' or len(a[2]) != 3:
            continue
        h, m, sec = (_P(x) for x in a[2])
        if sec.is_const():
            continue        # the sentinel path
        # the three closed forms are given their integer meaning on every second of the day (how the quotients and
        # remainders are spelled - %, /, a helper local, unsigned or signed intermediates - does not matter)
        from .gnf import compile_poly
        pname = f.params[0][0]
        try:
            fh, fm, fs = (compile_poly(x, lambda at: "v['s']" if at == ('sym', pname) else None) for x in (h, m, sec))
            bad = next((t for t in range(86400) if (fh({'s': t}), fm({'s': t}), fs({'s': t})) != (t // 3600, t // 60 % 60, t % 60)), None)
        except AnalysisError as ex:
            bad, why = -1, 'forSeconds builds (hour, minute, second) = (%r, %r, %r): %s' % (h, m, sec, ex)
        ok = bad is None
        if bad is not None and bad >= 0:
            why = 'forSeconds(%d) builds (hour, minute, second) = (%d, %d, %d), expected (%d, %d, %d)' % (
                bad, fh({'s': bad}), fm({'s': bad}), fs({'s': bad}), bad // 3600, bad // 60 % 60, bad % 60)
    ob('R5', f.name, f.loc, ok, why)
    g = lib.fn('ace_time::LocalTime::toSeconds')
    s = SymExec(fold_global=lib.global_value).run(g.name, g.body, {})
    H, M, Sx = (Poly.atom(('sym', 'this.' + n)) for n in ('mHour', 'mMinute', 'mSecond'))
    ok = any(kind == 'return' and res is not None and _P(res) == H * Poly.const(3600) + M * Poly.const(60) + Sx for gd, kind, res, eff in s.paths)
    ob('R5', g.name, g.loc, ok, 'toSeconds() is not (hour*60 + minute)*60 + second on the valid path')
    # isError(), interpreted (E-SEQ, typed) on stored bytes: false exactly for 00:00:00..23:59:59 and 24:00:00
    from .aeval import AEval, CxxModule, Raised, cxx_object
    e = lib.fn('ace_time::LocalTime::isError')
    mod = CxxModule(lib, ['ace_time::'])
    bad = []
    edge = (0, 1, 23, 24, 25, 59, 60, 61, 128, 255)
    for hh in edge:
        for mm in edge:
            for ss in edge:
                o = cxx_object(lib, 'ace_time::LocalTime')
                if not {'mHour', 'mMinute', 'mSecond'} <= set(o.attrs):
                    raise AnalysisError('%s: the time fields mHour / mMinute / mSecond are not where the rule expects them' % e.loc)
                o.attrs.update({'mHour': hh, 'mMinute': mm, 'mSecond': ss})
                try:
                    got = bool(AEval(module=mod, typed=True, max_steps=5000).call_function(e.name, [], recv=o, chosen=CxxModule._Fn(e)))
                except Raised:
                    got = None
                valid = ss < 60 and mm < 60 and (hh < 24 or (hh == 24 and mm == 0 and ss == 0))
                if got is not (not valid):
                    bad.append((hh, mm, ss))
    ob('R5', e.name, e.loc, not bad, 'isError() misclassifies (hour, minute, second) in %s' % bad[:4])


def localdate_error(R, lib, ob):
    """LocalDate::isError() and LocalDateTime::isError(), interpreted (E-SEQ, typed) on stored field values: true for the invalid
    year marker, a month outside 1..12 and a day outside 1..31 (0 and the values above the range, for every byte the members can
    hold at the edges); false for every date of the calendar.  Days 29..31 of a shorter month are left open: the statement
    allows either answer."""
    import calendar
    from .aeval import AEval, CxxModule, Raised, cxx_object
    R.rule('R8', 'LocalDate::isError() / LocalDateTime::isError() flag the invalid year, months outside 1..12 and days outside 1..31, and no date of the calendar', floor=2)
    mod = CxxModule(lib, ['ace_time::'])
    inv = lib.const('ace_time::LocalDate::kInvalidYearTiny')
    years = sorted({-128, -127, -100, -1, 0, 4, 100, 127, inv})
    months = (0, 1, 2, 6, 11, 12, 13, 128, 255)
    days = (0, 1, 2, 28, 29, 30, 31, 32, 128, 255)
    for cls, wrap in (('ace_time::LocalDate', None), ('ace_time::LocalDateTime', 'mLocalDate')):
        f = lib.fn(cls + '::isError')
        bad = None
        n = 0
        for y in years:
            for m in months:
                for d in days:
                    o = cxx_object(lib, cls)
                    ld = o if wrap is None else o.attrs.get(wrap)
                    if ld is None or not {'mYearTiny', 'mMonth', 'mDay'} <= set(ld.attrs):
                        raise AnalysisError('%s: the date fields mYearTiny / mMonth / mDay are not where the rule expects them' % f.loc)
                    ld.attrs.update({'mYearTiny': y, 'mMonth': m, 'mDay': d})
                    try:
                        got = bool(AEval(module=mod, typed=True, max_steps=5000).call_function(f.name, [], recv=o, chosen=CxxModule._Fn(f)))
                    except Raised as x_:
                        got = 'raises %s' % x_.what
                    except IndexError as x_:
                        got = 'reads outside a constant table (%s)' % x_
                    n += 1
                    must_err = y == inv or not 1 <= m <= 12 or not 1 <= d <= 31
                    valid = not must_err and d <= calendar.monthrange(2000 + y, m)[1]
                    if bad is None and ((must_err and got is not True) or (valid and got is not False)):
                        bad = 'stored fields (yearTiny %d, month %d, day %d): isError() is %s, expected %s' % (y, m, d, got, 'true' if must_err else 'false')
        R.instance('R8', f.name, f.loc, '%d field combinations interpreted' % n)
        if bad:
            R.violation('R8', f.name, f.loc, bad)


def _setter_args(eff):
    out = {}
    for tgt, val in eff:
        if tgt == 'call':
            p = _P(val)
            for a in p.atoms():
                if a[0] == 'fn' and a[1].split('::')[-1] in ('day', 'month', 'yearTiny') and len(a[2]) == 2:
                    out[a[1].split('::')[-1]] = _P(a[2][1])
    return out


def onedays(R, lib, ob):
    """incrementOneDay / decrementOneDay are interpreted (E-SEQ, typed, the accessors, setters and daysInMonth through their
    real bodies) on the first and the last days of every month of a common year, a leap year, a century common year and a
    century leap year (thorough tier: every day of those years): the result must be the calendar's next / previous day."""
    import datetime
    from .aeval import AEval, CxxModule, Raised, cxx_object
    mod = CxxModule(lib, ['ace_time::'])
    thorough = R.cfg.tier == 'thorough'
    for name, step in (('incrementOneDay', 1), ('decrementOneDay', -1)):
        f = lib.fn('ace_time::local_date_mutation::' + name)
        bad = None
        n = 0
        for year in (1999, 2000, 2004, 2100):
            d = datetime.date(year, 1, 1)
            while d.year == year:
                nxt = d + datetime.timedelta(days=step)
                edge = d.day <= 2 or (d + datetime.timedelta(days=3)).month != d.month
                if (thorough or edge) and 1873 <= nxt.year <= 2127:
                    ld = cxx_object(lib, 'ace_time::LocalDate')
                    ld.attrs.update({'mYearTiny': d.year - 2000, 'mMonth': d.month, 'mDay': d.day})
                    try:
                        AEval(module=mod, typed=True, max_steps=5000).call_function(f.name, [ld], chosen=CxxModule._Fn(f))
                        got = (2000 + ld.attrs['mYearTiny'], ld.attrs['mMonth'], ld.attrs['mDay'])
                    except Raised as x_:
                        got = 'raises %s' % x_.what
                    n += 1
                    if got != (nxt.year, nxt.month, nxt.day) and bad is None:
                        bad = '%s turns %s into %s, the calendar says %s' % (name, d.isoformat(), got, nxt.isoformat())
                d += datetime.timedelta(days=1)
        R.instance('R4', f.name, f.loc, '%d interpreted dates' % n)
        if bad:
            R.violation('R4', f.name, f.loc, bad)


SELFTEST = [
    dict(id='weekday-400-term-folded', file='src/ace_time/LocalDate.h', find='      int16_t d = y + y/4 - y/100 + y/400 + sDayOfWeek[mMonth-1] + mDay;',
         replace='      int16_t d = y + y/4 - y/100 + 5 + sDayOfWeek[mMonth-1] + mDay;', rule='R3', construct='dayOfWeek'),
    dict(id='weekday-negative-branch-spelling-silent', file='src/ace_time/LocalDate.h', find='      return (d < -1) ? (d + 1) % 7 + 8 : (d + 1) % 7 + 1;',
         replace='      return (d + 1 < 0) ? (d + 1) % 7 + 8 : (d + 1) % 7 + 1;', expect='silent'),
    dict(id='year-2127-invalid', file='src/ace_time/LocalDate.h', find='          && year <= kEpochYear + kMaxYearTiny;', replace='          && year < kEpochYear + kMaxYearTiny;', rule='R7'),
    dict(id='year-1872-valid', file='src/ace_time/LocalDate.h', find='      return year >= kEpochYear + kMinYearTiny', replace='      return year >= kEpochYear + kMinYearTiny - 1', rule='R7'),
    dict(id='century-term-without-month-shift', file='src/ace_time/LocalDate.h', find='          - (3 * ((yy + 4900 + mm)/100))/4', replace='          - (3 * ((yy + 4900)/100))/4', rule='R3', construct='toEpochDays'),
    dict(id='inverse-formula-constant', file='src/ace_time/LocalDate.h', find='      uint32_t f = J + 1401 + (((4 * J + 274277 ) / 146097) * 3) / 4 - 38;',
         replace='      uint32_t f = J + 1401 + (((4 * J + 274277 ) / 146097) * 3) / 4 - 37;', rule='R3', construct='extractYearMonthDay'),
    dict(id='inverse-formula-respelled-silent', file='src/ace_time/LocalDate.h', find='      uint32_t f = J + 1401 + (((4 * J + 274277 ) / 146097) * 3) / 4 - 38;',
         replace='      uint32_t f = J + 1363 + (3 * ((4 * J + 274277 ) / 146097)) / 4;', expect='silent'),
    dict(id='floor-division-negative-midnight', file='src/ace_time/LocalDate.h', regex=True,
         find=r'\? \(epochSeconds \+ 1\) / 86400 - 1', replace='? epochSeconds / 86400 - 1', rule='R6', construct='LocalDate::forEpochSeconds'),
    dict(id='iserror-hour24-and', file='src/ace_time/LocalTime.h', find='        return mSecond != 0 || mMinute != 0;', replace='        return mSecond != 0 && mMinute != 0;', rule='R5', construct='isError'),
    dict(id='iserror-spelling-silent', file='src/ace_time/LocalTime.h', find='        return mSecond != 0 || mMinute != 0;', replace='        return !(mSecond == 0 && mMinute == 0);', expect='silent'),
    dict(id='localtime-minute-from-seconds', file='src/ace_time/LocalTime.h', find='        minute = minutes % 60;', replace='        minute = seconds % 60;', rule='R5'),
    dict(id='localtime-recomposition', file='src/ace_time/LocalTime.h', find='return ((mHour * (int16_t) 60) + mMinute)', replace='return ((mHour * (int16_t) 24) + mMinute)', rule='R5'),
    dict(id='leap-century-rule-dropped', file='src/ace_time/LocalDate.h',
         find='return ((year % 4 == 0) && (year % 100 != 0)) || (year % 400 == 0);', replace='return (year % 4 == 0);', rule='R1', construct='isLeapYear'),
    dict(id='python-leap-rule', file='tools/tzdb/transformer.py',
         find='is_leap = (year % 4 == 0) and ((year % 100 != 0) or (year % 400) == 0)', replace='is_leap = (year % 4 == 0) and (year % 100 != 0)', rule='R1'),
    dict(id='month-length-table', file='src/ace_time/LocalDate.cpp', find='  30 /*Sep=30*/,', replace='  31 /*Sep=30*/,', rule='R2', construct='sDaysInMonth'),
    dict(id='weekday-offset-table', file='src/ace_time/LocalDate.cpp', find='  6 /*Aug=31*/,', replace='  5 /*Aug=31*/,', rule='R2', construct='sDayOfWeek'),
    dict(id='weekday-table-shifted', file='src/ace_time/LocalDate.cpp', regex=True,
         find=r'  5 /\*Jan=31\*/,\n  1 /\*Feb=28\*/,\n  0 /\*Mar=31, start of "year"\*/,\n  3 /\*Apr=30\*/,\n  5 /\*May=31\*/,\n  1 /\*Jun=30\*/,\n  3 /\*Jul=31\*/,\n  6 /\*Aug=31\*/,\n  2 /\*Sep=30\*/,\n  4 /\*Oct=31\*/,\n  0 /\*Nov=30\*/,\n  2 /\*Dec=31\*/,',
         replace='  6,\n  2,\n  1,\n  4,\n  6,\n  2,\n  4,\n  0,\n  3,\n  5,\n  1,\n  3,', rule='R2', construct='dayOfWeek@2000-01-01'),
    dict(id='increment-year-carry', file='src/ace_time/local_date_mutation.h', find='    if (month > 12) {', replace='    if (month > 11) {', rule='R4', construct='incrementOneDay'),
    dict(id='increment-carry-spelling-silent', file='src/ace_time/local_date_mutation.h', find='    if (month > 12) {', replace='    if (month >= 13) {', expect='silent'),
    dict(id='increment-month-reset', file='src/ace_time/local_date_mutation.h', regex=True,
         find=r'(    if \(month > 12\) \{\n      month = )1;', replace=r'\g<1>0;', rule='R4', construct='incrementOneDay'),
    dict(id='decrement-december-length', file='src/ace_time/local_date_mutation.h', find='      day = 31;', replace='      day = 30;', rule='R4', construct='decrementOneDay'),
    dict(id='python-month-table', file='tools/tzdb/transformer.py', find='DAYS_IN_MONTH = [31, 28, 31, 30, 31, 30, 31, 31, 30, 31, 30, 31]',
         replace='DAYS_IN_MONTH = [31, 28, 31, 30, 31, 30, 31, 31, 30, 31, 31, 30]', rule='R2'),
    dict(id='date-range-test-by-subtraction-without-the-cast', file='src/ace_time/LocalDate.h',
         find='          || mDay < 1 || mDay > 31\n          || mMonth < 1 || mMonth > 12;', replace='          || mDay - 1 > 30\n          || mMonth - 1 > 11;', rule='R8'),
    dict(id='date-range-test-by-unsigned-subtraction-silent', file='src/ace_time/LocalDate.h',
         find='          || mDay < 1 || mDay > 31\n          || mMonth < 1 || mMonth > 12;',
         replace='          || (uint8_t) (mDay - 1) > 30\n          || (uint8_t) (mMonth - 1) > 11;', expect='silent'),
    # the write-back moved into the destructor of a scope guard: quiet when it stores all three fields, reported when it forgets one
    dict(id='write-back-in-a-scope-guard-silent', edits=[
        dict(file='src/ace_time/local_date_mutation.h',
             find='inline void incrementOneDay(LocalDate& ld) {\n  uint8_t day = ld.day() + 1;\n  uint8_t month = ld.month();\n  int8_t yearTiny = ld.yearTiny();\n',
             replace='struct DayFields {\n  explicit DayFields(LocalDate& d): day(d.day()), month(d.month()), yearTiny(d.yearTiny()), target(d) {}\n'
                     '  ~DayFields() { target.day(day); target.month(month); target.yearTiny(yearTiny); }\n  uint8_t day; uint8_t month; int8_t yearTiny; LocalDate& target;\n};\n\n'
                     'inline void incrementOneDay(LocalDate& ld) {\n  DayFields f(ld);\n  uint8_t& day = f.day;\n  uint8_t& month = f.month;\n  int8_t& yearTiny = f.yearTiny;\n  day++;\n'),
        dict(file='src/ace_time/local_date_mutation.h', find='      yearTiny++;\n    }\n  }\n  ld.day(day);\n  ld.month(month);\n  ld.yearTiny(yearTiny);\n}',
             replace='      yearTiny++;\n    }\n  }\n}')], expect='silent'),
    dict(id='scope-guard-forgets-the-month', edits=[
        dict(file='src/ace_time/local_date_mutation.h',
             find='inline void incrementOneDay(LocalDate& ld) {\n  uint8_t day = ld.day() + 1;\n  uint8_t month = ld.month();\n  int8_t yearTiny = ld.yearTiny();\n',
             replace='struct DayFields {\n  explicit DayFields(LocalDate& d): day(d.day()), month(d.month()), yearTiny(d.yearTiny()), target(d) {}\n'
                     '  ~DayFields() { target.day(day); target.yearTiny(yearTiny); }\n  uint8_t day; uint8_t month; int8_t yearTiny; LocalDate& target;\n};\n\n'
                     'inline void incrementOneDay(LocalDate& ld) {\n  DayFields f(ld);\n  uint8_t& day = f.day;\n  uint8_t& month = f.month;\n  int8_t& yearTiny = f.yearTiny;\n  day++;\n'),
        dict(file='src/ace_time/local_date_mutation.h', find='      yearTiny++;\n    }\n  }\n  ld.day(day);\n  ld.month(month);\n  ld.yearTiny(yearTiny);\n}',
             replace='      yearTiny++;\n    }\n  }\n}')], rule='R4', construct='incrementOneDay'),
]
