"""C14 decided on schedules: SystemClockLoop::loop() interpreted (E-SEQ, typed) along every interleaving, to a depth bound, of
time advances from a small set of step sizes with the behaviours of the reference clock {response not ready, ready and valid,
ready and invalid}, for several (sync period, initial period, timeout) configurations and reference == backup / distinct /
absent - the family the property is quantified over.

The abstraction boundary is the Clock interface of the reference and backup clocks (sendRequest / isResponseReady /
readResponse / setNow are recorded and answered from the schedule) and clockMillis() (the schedule's time, reported as a 32-bit
counter).  The object is built by interpreting the constructors; loop(), keepAlive(), getNow(), syncNow() and everything they
call go through their real bodies.  A reference description of the protocol - what the property says, nothing about how
loop() is written - runs beside it and every call of loop() is compared with it:

  S1  a request is sent only when none is outstanding, and consecutive requests are separated by at least the retry period in
      force (the initial period, doubled per failure up to the sync period; the sync period after a success);
  S2  a valid response is applied in the same call: the clock reads the response, the last-sync time is the response, and the
      backup clock - when there is one and it is not the reference - receives the same value exactly when the clock changed;
  S3  an invalid response, a timeout, and any call that reads no response leave the reading and the last-sync time alone and
      write nothing to the backup clock;
  S4  the machine always issues another request within a bounded time (due time + two steps), and gives an outstanding request
      up no later than timeout + one step after it was sent (only after asking isResponseReady());
  S5  the clock keeps time: at the end of every schedule the reading is T + floor((m - m0) / 1000) from the last value applied
      (loop() alone must keep the 16-bit millisecond bookkeeping alive);
  S6  with no reference clock nothing is ever sent or written;
  S7  no member without an initialiser is read before it is written."""
from .common import AnalysisError
from .cxx import int_type

SCL = 'ace_time::clock::SystemClockLoop'
SC = 'ace_time::clock::SystemClock'
CLK = 'ace_time::clock::Clock'


class _Uninit:
    """value of a member that has no initialiser and was never written: any arithmetic or comparison on it is a finding"""

    def __repr__(self):
        return '<never written>'


UNINIT = _Uninit()


class NullCall(Exception):
    """a method of the Clock interface is called through a null pointer"""


def schedule_rules(R, lib):
    from .aeval import AEval, AObj, CxxModule, Raised
    R.rule('S1', 'schedules: requests only when none is outstanding, separated by at least the retry period in force', floor=200)
    R.rule('S2', 'schedules: a valid response is applied in the same call (reading, last-sync time, distinct backup clock)', floor=50)
    R.rule('S3', 'schedules: invalid responses, timeouts and idle calls change neither the reading nor the last-sync time nor the backup clock', floor=200)
    R.rule('S4', 'schedules: another request is always issued within a bounded time; an outstanding request is given up after the timeout', floor=200)
    R.rule('S5', 'schedules: the clock keeps time along every schedule, with loop() as the only caller', floor=50)
    R.rule('S6', 'schedules: with no reference clock nothing is sent or written', floor=20)
    R.rule('S7', 'schedules: no member without an initialiser is read before it is written', floor=200)
    thorough = R.cfg.tier == 'thorough'
    mod = CxxModule(lib, ['ace_time::clock::', 'ace_time::'])
    loop = lib.fn(SCL + '::loop')
    getnow = lib.fn(SC + '::getNow')
    inv = lib.const('ace_time::LocalDate::kInvalidEpochSeconds')
    lastsync = [f for f in lib.fns(SC + '::getLastSyncTime')]
    ctor = [f for f in lib.fns(SCL + '::SystemClockLoop') if len(f.params) >= 5]
    if not ctor or not lastsync:
        raise AnalysisError('anchor vanished: SystemClockLoop constructor / SystemClock::getLastSyncTime')
    ctor = ctor[0]
    fields = {}
    for cls in (SC, SCL):
        for n, t, node in lib.fields(cls):
            fields[n] = (t, node)
    ftypes = {n: int_type(t) for n, (t, _n) in fields.items() if int_type(t)}
    state = {'m': 0, 'events': [], 'answer': 'none', 'asked': False}

    def who(recv, what):
        if not isinstance(recv, AObj):
            raise NullCall('%s() is called on a null clock pointer' % what)
        return recv.oid

    def ev_send(ev, recv, args):
        state['events'].append(('send', who(recv, 'sendRequest')))
        return None

    def ev_ready(ev, recv, args):
        state['asked'] = True
        state['events'].append(('ready?', who(recv, 'isResponseReady')))
        return 1 if state['answer'] in ('valid', 'invalid') else 0

    def ev_read(ev, recv, args):
        state['events'].append(('read', who(recv, 'readResponse')))
        return state['value'] if state['answer'] == 'valid' else inv

    def ev_set(ev, recv, args):
        state['events'].append(('set', who(recv, 'setNow'), args[0]))
        return None
    intr = {SC + '::clockMillis': lambda ev, recv, args: state['m'] & 0xffffffff,
            CLK + '::sendRequest': ev_send, CLK + '::isResponseReady': ev_ready, CLK + '::readResponse': ev_read, CLK + '::setNow': ev_set,
            CLK + '::getNow': lambda ev, recv, args: inv,
            'ace_common::TimingStats::update': lambda ev, recv, args: None}

    def call(f, obj, *args):
        return AEval(module=mod, intrinsics=intr, typed=True, max_steps=200000, long_bits=32).call_function(f.name, list(args), recv=obj, chosen=CxxModule._Fn(f))

    def build(ref, backup, sync, initial, timeout):
        attrs = {}
        for n, (t, node) in fields.items():
            attrs[n] = UNINIT
        obj = AObj(attrs, oid='clock', cls=SCL, ftypes=ftypes)
        obj.ptrs = frozenset(n for n, (t, _n) in fields.items() if t and '*' in t)
        argv = {'reference': ref, 'backup': backup, 'syncperiod': sync, 'initialsyncperiod': initial, 'requesttimeout': timeout, 'timingstats': None}
        args = []
        for pn, pt in ctor.params:
            key = [k for k in argv if pn.lower().replace('seconds', '').replace('millis', '').replace('clock', '') == k]
            if not key:
                args = None
                break
            args.append(argv[key[0]])
        if args is None:
            # renamed parameters: the documented order (reference, backup, sync period, initial period, timeout, statistics)
            args = [ref, backup, sync, initial, timeout, None][:len(ctor.params)]
        call(ctor, obj, *args)
        return obj

    # step sizes are chosen so that every phase of the protocol (a retry wait, a full sync period, a timeout) can be crossed in one
    # call or spread over several within the depth bound
    configs = [dict(name='short', sync=8, initial=1, timeout=1000, steps=(600, 1000, 9000), start=5000),
               dict(name='backoff', sync=8, initial=1, timeout=500, steps=(700, 2500), start=100),
               dict(name='cap', sync=5, initial=3, timeout=300, steps=(400, 3100, 4700), start=40000),
               dict(name='wrap32', sync=8, initial=2, timeout=1000, steps=(500, 2000), start=(1 << 32) - 3000),
               dict(name='long', sync=70, initial=70, timeout=2000, steps=(1000, 30000, 50000), start=70000),
               # periods in the upper half of 16 bits: the doubled retry period (40000 -> 80000, capped at 43200) does not fit 16 bits
               # before it is capped
               dict(name='wide', sync=43200, initial=40000, timeout=1000, steps=(1000, 15000000, 44000000), start=1000, coarse=True),
               # loop() called rarely, at gaps that are whole multiples of 65536 ms: a waiting time kept in 16 bits reads 0 at every
               # call, so a request that is never answered is never given up (the timeout is an `unsigned long` comparison)
               dict(name='sparse', sync=300, initial=100, timeout=1000, steps=(600, 65536, 131072), start=3000, coarse=True),
               # the reference clock answers with the epoch itself (0 is a reading like any other) and with a time before it
               dict(name='zero', sync=8, initial=1, timeout=1000, steps=(600, 9000), start=5000, value=lambda t_: 0),
               dict(name='negative', sync=8, initial=1, timeout=1000, steps=(600, 9000), start=5000, value=lambda t_: -86400 + t_ // 1000)]
    kinds = ('distinct', 'same', 'no-backup', 'absent')
    depth = {'short': 9 if thorough else 7, 'backoff': 11 if thorough else 9, 'cap': 9 if thorough else 7, 'wrap32': 8 if thorough else 6, 'long': 8 if thorough else 6,
             'wide': 8 if thorough else 7, 'sparse': 7 if thorough else 6,
             'zero': 7 if thorough else 5, 'negative': 7 if thorough else 5}
    counts = {k: 0 for k in ('S1', 'S2', 'S3', 'S4', 'S5', 'S6', 'S7')}
    first = {}

    def note(rid, c, text):
        first.setdefault((rid, c), text)

    from .aeval import freeze, _copy_value

    def snapshot(obj):
        return freeze(obj)

    def clone(obj):
        # a copy of the clock by value: members of class type are copied, the clocks it points to are shared
        c = _copy_value(obj)
        c.oid = 'clock'
        return c

    for cfg_ in configs:
        for kind in kinds:
            ref = None if kind == 'absent' else AObj({}, oid='reference', cls=CLK)
            backup = ref if kind == 'same' else (None if kind == 'no-backup' else AObj({}, oid='backup', cls=CLK))
            if kind == 'absent':
                backup = AObj({}, oid='backup', cls=CLK)
            label = '%s,%s' % (cfg_['name'], kind)
            try:
                obj0 = build(ref, backup, cfg_['sync'], cfg_['initial'], cfg_['timeout'])
            except Raised as x_:
                raise AnalysisError('%s: the constructor raises %s' % (ctor.loc, x_.what))
            maxstep = max(cfg_['steps'])
            best = {}
            # spec state: period in force, time and outcome of the last request, outstanding?, clock model (value, counter) or None, last sync time
            spec0 = dict(P=cfg_['initial'], last_req=None, outcome='none', t_ok=None, pending=False, t_sent=None, model=None, lastsync=inv, overdue=0)
            if kind == 'absent':
                # nobody synchronises this clock: the user sets it, and loop() alone has to keep it running
                setnow = lib.fn(SC + '::setNow')
                state.update(m=cfg_['start'], events=[], answer='none', asked=False, value=0)
                call(setnow, obj0, 1500000)
                spec0.update(model=(1500000, cfg_['start']), lastsync=None)

            def explore(obj, spec, now, d, trail):
                key = (snapshot(obj), tuple(sorted((k, v) for k, v in spec.items())), now)
                if key in best and best[key] >= d:
                    return
                fresh_state = key not in best
                best[key] = d
                if fresh_state:
                    # S5: the reading the clock would give now, loop() having been the only caller so far
                    # (steps beyond the 65.5 s polling bound of the clock - the 'coarse' configuration, there for the request protocol - say
                    # nothing about the reading)
                    if spec['model'] is not None and not cfg_.get('coarse'):
                        counts['S5'] += 1
                        state['m'] = now
                        o2 = clone(obj)
                        try:
                            v = call(getnow, o2)
                        except (Raised, TypeError) as x_:
                            v = 'raises %s' % x_
                        want = spec['model'][0] + (now - spec['model'][1]) // 1000
                        if v != want:
                            note('S5', 'schedule[%s]:reading' % label, 'schedule %s: the clock was last set to %d at counter %d; after loop() calls only, getNow() at counter %d is %r, expected %d'
                                 % (trail, spec['model'][0], spec['model'][1], now, v, want))
                if d == 0:
                    return
                for step in cfg_['steps']:
                    t = now + step
                    for answer in ('none', 'valid', 'invalid'):
                        o = clone(obj)
                        sp = dict(spec)
                        state.update(m=t, events=[], answer=answer, asked=False, value=cfg_['value'](t) if 'value' in cfg_ else 2000000 + t // 1000 + ((t // 1000) % 2))
                        try:
                            call(loop, o)
                        except TypeError as x_:
                            counts['S7'] += 1
                            note('S7', 'schedule[%s]:uninitialised' % label, 'schedule %s then +%d ms (%s): loop() computes with a member that has no initialiser and was never written (%s)'
                                 % (trail, step, answer, x_))
                            continue
                        except NullCall as x_:
                            note('S6' if kind == 'absent' else 'S2', 'schedule[%s]:null-clock' % label, 'schedule %s then +%d ms (%s): %s' % (trail, step, answer, x_))
                            continue
                        except Raised as x_:
                            note('S1', 'schedule[%s]:raises' % label, 'schedule %s then +%d ms: loop() raises %s' % (trail, step, x_.what))
                            continue
                        except AnalysisError as ex:
                            if '<never written>' in str(ex):
                                counts['S7'] += 1
                                note('S7', 'schedule[%s]:uninitialised' % label, 'schedule %s then +%d ms (%s): loop() computes with a member that has no initialiser and was never written (%s)'
                                     % (trail, step, answer, str(ex).replace('abstract evaluation: ', '')[:160]))
                                continue
                            if 'step budget' in str(ex):
                                note('S4', 'schedule[%s]:terminates' % label, 'schedule %s then +%d ms: loop() does not return' % (trail, step))
                                continue
                            raise
                        counts['S7'] += 1
                        evs = state['events']
                        here = trail + ['+%d:%s' % (step, answer if state['asked'] else '-')]
                        sends = [e for e in evs if e[0] == 'send']
                        reads = [e for e in evs if e[0] == 'read']
                        sets = [e for e in evs if e[0] == 'set']
                        if kind == 'absent':
                            counts['S6'] += 1
                            if evs:
                                note('S6', 'schedule[%s]:silent' % label, 'schedule %s: without a reference clock loop() still does %s' % (here, evs))
                            explore(o, sp, t, d - 1, here)
                            break               # the answers cannot matter
                        # ---- S1
                        counts['S1'] += 1
                        c1 = 'schedule[%s]:requests' % label
                        if len(sends) > 1:
                            note('S1', c1, 'schedule %s: %d requests in one call' % (here, len(sends)))
                        if sends:
                            if sp['pending']:
                                note('S1', c1, 'schedule %s: a request is sent while the request of counter %d is still outstanding' % (here, sp['t_sent']))
                            if sp['outcome'] == 'fail':
                                if t - sp['last_req'] < sp['P'] * 1000:
                                    note('S1', c1, 'schedule %s: the request at counter %d follows the failed request of counter %d after %d ms, the retry period in force is %d s'
                                         % (here, t, sp['last_req'], t - sp['last_req'], sp['P']))
                                sp['P'] = min(2 * sp['P'], cfg_['sync'])
                            elif sp['outcome'] == 'ok':
                                if t - sp['t_ok'] < cfg_['sync'] * 1000:
                                    note('S1', c1, 'schedule %s: the request at counter %d follows the successful sync of counter %d after %d ms, the sync period is %d s'
                                         % (here, t, sp['t_ok'], t - sp['t_ok'], cfg_['sync']))
                            sp.update(pending=True, t_sent=t, last_req=t, outcome='sent', overdue=0)
                        # ---- responses
                        if reads and not sp['pending']:
                            note('S1', c1, 'schedule %s: a response is read although no request is outstanding' % (here,))
                        got_valid = bool(reads) and answer == 'valid'
                        just_failed = False
                        if sp['pending'] and not sends and answer == 'valid' and not reads:
                            counts['S2'] += 1
                            note('S2', 'schedule[%s]:valid-response' % label, 'schedule %s: a request is outstanding since %d ms, the response is ready and valid, and loop() does not read it '
                                 '(a request can only be given up in a call that finds no response ready)' % (here + ['valid'], t - sp['t_sent']))
                        if got_valid and not sends:
                            counts['S2'] += 1
                            c2 = 'schedule[%s]:valid-response' % label
                            value = state['value']
                            prev_reading = None if sp['model'] is None else sp['model'][0] + (t - sp['model'][1]) // 1000
                            o2 = clone(o)
                            state['m'] = t
                            try:
                                r = call(getnow, o2)
                                ls = call(lastsync[0], o2)
                            except (Raised, TypeError) as x_:
                                r, ls = 'raises %s' % x_, None
                            if r != value or ls != value:
                                note('S2', c2, 'schedule %s: the valid response %d is not applied in the call that reads it: getNow() is %r, getLastSyncTime() %r' % (here, value, r, ls))
                            want_backup = (backup is not None and backup is not ref and prev_reading != value)
                            if cfg_.get('coarse'):
                                # what the clock read before is not known here: a write of the value to a distinct backup clock may or may not happen
                                sets = [e for e in sets if not (e[1] == 'backup' and backup is not None and backup is not ref and e[2] == value)]
                                want_backup = False
                            bsets = [e for e in sets if e[1] == 'backup']
                            if want_backup and [e[2] for e in bsets] != [value]:
                                note('S2', c2, 'schedule %s: the clock changes from %r to %d and the distinct backup clock receives %s' % (here, prev_reading, value, [e[2] for e in bsets] or 'nothing'))
                            if not want_backup and sets:
                                note('S2', c2, 'schedule %s: %s is written although %s' % (here, sets, 'the backup clock is the reference clock' if backup is ref else
                                                                                           'there is no backup clock' if backup is None else 'the clock did not change'))
                            sp.update(pending=False, outcome='ok', t_ok=t, P=cfg_['sync'], model=(value, t), lastsync=value)
                        else:
                            counts['S3'] += 1
                            c3 = 'schedule[%s]:no-valid-response' % label
                            if sets:
                                note('S3', c3, 'schedule %s: %s is written in a call that applies no response' % (here, sets))
                            try:
                                ls_now = call(lastsync[0], clone(o))
                            except (Raised, TypeError) as x_:
                                ls_now = 'raises %s' % x_
                            if sp['lastsync'] is not None and ls_now != sp['lastsync']:
                                note('S3', c3, 'schedule %s: getLastSyncTime() changes from %r to %r in a call that applies no response' % (here, sp['lastsync'], ls_now))
                            if reads and answer == 'invalid':
                                sp.update(pending=False, outcome='fail')
                                just_failed = True
                        # ---- S4: timeouts and liveness (what the machine decided is read off its later behaviour: bounds only)
                        counts['S4'] += 1
                        c4 = 'schedule[%s]:progress' % label
                        if sp['pending'] and not sends and not reads and t - sp['t_sent'] >= cfg_['timeout']:
                            # not ready and the timeout has passed: from now on the request counts as failed
                            sp.update(pending=False, outcome='fail')
                            just_failed = True
                        if not sp['pending'] and sp['outcome'] in ('fail', 'ok') and not sends and not (reads and answer == 'valid') and not just_failed:
                            # the first call at or after the due time makes the machine ready, the one after it sends
                            due = (sp['last_req'] + sp['P'] * 1000) if sp['outcome'] == 'fail' else (sp['t_ok'] + cfg_['sync'] * 1000)
                            if t >= due:
                                sp['overdue'] += 1
                                if sp['overdue'] >= 2:
                                    note('S4', c4, 'schedule %s: the next request was due at counter %d (%s, period %d s); this is the second call of loop() since then (counter %d) and none is sent'
                                         % (here, due, 'after the failed request of counter %d' % sp['last_req'] if sp['outcome'] == 'fail' else 'after the sync of counter %d' % sp['t_ok'],
                                            sp['P'] if sp['outcome'] == 'fail' else cfg_['sync'], t))
                        explore(o, sp, t, d - 1, here)
                        if not state['asked'] and answer == 'none' and not spec['pending']:
                            break           # the reference clock was not asked and nothing is outstanding: the other answers give the same call

            explore(obj0, spec0, cfg_['start'], depth[cfg_['name']] - (2 if kind in ('same', 'no-backup') else 0), [])
    for rid in counts:
        cs = sorted({c for (r, c) in first if r == rid})
        R.instance(rid, 'schedules', loop.loc, '%d calls of loop() compared with the protocol' % counts[rid], n=max(1, counts[rid]))
        for c in cs:
            R.instance(rid, c, loop.loc)
            R.violation(rid, c, loop.loc, first[(rid, c)])
