"""The generators of the TZ compiler rendered on a tagged miniature database (E-SEQ over the Python ast, acv/pyeval.py).

The database is a handful of zones / links / policies whose names and reasons are distinct tags; every field of an era
or rule record holds a value that is unique within the database where the type allows it, so that the place a value
appears at in the rendered text tells which field (and which record) it came from.  The generator classes are built by
interpreting their own constructors (parameters matched by name) and their generate_* methods are interpreted; what
comes back is the text they would write.  Nothing is written anywhere and nothing of /repo is executed."""
from .common import AnalysisError
from .pyeval import PyEval, Raised

AR = 'tools/zonedb/argenerator.py'


def era(rules, until_year, fmt, raw, offset=3600, rules_delta=0, until_month=1, until_day=1, until_secs=0, suffix='w'):
    return {'offsetString': '%d:00' % (offset // 3600), 'rules': rules, 'format': fmt, 'untilYear': until_year, 'untilYearOnly': until_month == 1 and until_day == 1,
            'untilMonth': until_month, 'untilDayString': str(until_day), 'untilTime': '%d:00' % (until_secs // 3600), 'untilTimeSuffix': suffix,
            # the untruncated twins differ from the truncated values, so that the text tells which one was rendered
            'rawLine': raw, 'offsetSeconds': offset + 7, 'offsetSecondsTruncated': offset, 'rulesDeltaSeconds': rules_delta + 11,
            'rulesDeltaSecondsTruncated': rules_delta, 'untilDay': until_day, 'untilSeconds': until_secs + 13, 'untilSecondsTruncated': until_secs}


def rule(from_year, to_year, month, dow, dom, at, delta, letter, raw, suffix='w'):
    return {'fromYear': from_year, 'toYear': to_year, 'inMonth': month, 'onDay': 'x', 'atTime': '%d:00' % (at // 3600), 'atTimeSuffix': suffix,
            'deltaOffset': '%d:00' % (delta // 3600), 'letter': letter, 'rawLine': raw, 'onDayOfWeek': dow, 'onDayOfMonth': dom, 'atSeconds': at + 17,
            'atSecondsTruncated': at, 'deltaSeconds': delta + 19, 'deltaSecondsTruncated': delta, 'used': True}


def tagged_db(scope='extended'):
    """names sort differently from their insertion order, and differently again by hash, so an order in the output is
    attributable; 'Tag/Zeta' < 'Tag/alpha' in ASCII."""
    zones = {
        'Tag/alpha': [era('PolB', 2005, 'A%sT', 'Zone Tag/alpha raw-a1', offset=-18000, until_month=3, until_day=9, until_secs=7200, suffix='s'),
                      era('-', 10000, 'AFT', 'raw-a2', offset=-14400, rules_delta=3600)],
        'Tag/Zeta': [era('PolA', 10000, 'Z%sT', 'Zone Tag/Zeta raw-z1', offset=32400)],
        'Tag/Mid-dle': [era('-', 2011, 'MMT', 'Zone Tag/Mid-dle raw-m1', offset=900, until_month=11, until_day=21, until_secs=10800, suffix='u'),
                        era('PolA', 2015, 'M%sT', 'raw-m2', offset=1800, until_month=6, until_day=5),
                        era(':', 10000, 'MXT', 'raw-m3', offset=2700, rules_delta=1800)],
        # these two sort one way by name ('-' < '_') and the other way by C++ symbol (Tag_A_a < Tag_A_b)
        'Tag/A_a': [era('-', 10000, 'UAT', 'Zone Tag/A_a raw-u1', offset=7200)],
        'Tag/A-b': [era('PolB', 10000, 'H%sT', 'Zone Tag/A-b raw-h1', offset=-36000)],
    }
    rules = {
        # the Rule lines of a policy need not come in FROM order (the TZ database lists Syria's 2012 rule before its 2009 one): the
        # first line here starts later than the two after it, so a table that re-orders them differs from one that does not
        'PolB': [rule(2007, 9999, 3, 7, 8, 10800, 3600, 'DD', 'Rule PolB raw-b3', suffix='s'), rule(1998, 2006, 4, 7, 1, 7200, 3600, 'D', 'Rule PolB raw-b1'),
                 rule(1998, 9999, 10, 7, 0, 7200, 0, 'S', 'Rule PolB raw-b2'), rule(2007, 2009, 11, 7, 1, 7200, 0, 'S', 'Rule PolB raw-b4')],
        'PolA': [rule(2001, 2001, 5, 0, 17, 3600, 1800, 'H', 'Rule PolA raw-a1', suffix='u'), rule(2001, 9999, 9, 1, -20, 0, 0, '-', 'Rule PolA raw-a2')],
    }
    if scope == 'basic':
        for es in zones.values():
            for e in es:
                e['untilTimeSuffix'] = 'w'
                if e['rules'] == '-' or e['rules'] == ':':
                    e['rules'] = '-'
        rules['PolB'][0]['letter'] = 'E'
    def coll(prefix, why, n):
        # n entries, inserted in an order that is not the sorted one; the second entry carries two reasons
        out = {}
        for i in [k for k in range(n) if k % 2] + [k for k in range(n) if not k % 2]:
            out['%s%02d' % (prefix, i)] = ['%s-%02d' % (why, i)] + (['%s-more' % why] if i == 1 else [])
        return out
    # the sizes of all collections differ (zones 5, policies 2, links 4, rules 6, eras 8, and 7, 9..13 below), so that a
    # number in the output says which collection was counted
    return {
        'tz_version': '2099z', 'tz_files': ['fileone', 'filetwo'], 'scope': scope, 'start_year': 2000, 'until_year': 2050,
        'until_at_granularity': 60, 'offset_granularity': 60, 'strict': True,
        'zones_map': zones, 'rules_map': rules,
        'links_map': {'Tag/Link-one': 'Tag/Zeta', 'Tag/Another': 'Tag/alpha', 'Tag/Third': 'Tag/Zeta', 'Tag/Bee': 'Tag/Mid-dle'},
        'removed_links': coll('Tag/GoneLink', 'why-gone-link', 7),
        'notable_zones': coll('Tag/NoteZone', 'note-zone', 9),
        'notable_policies': coll('NotePol', 'note-pol', 10),
        'notable_links': coll('Tag/NoteLink', 'note-link', 11),
        'removed_zones': coll('Tag/GoneZone', 'why-gone-zone', 12),
        'removed_policies': coll('GonePol', 'why-gone-pol', 13),
    }


def permuted(db):
    """the same database with every map filled in the reverse order"""
    out = {}
    for k, v in db.items():
        out[k] = dict(reversed(list(v.items()))) if isinstance(v, dict) else v
    return out


def sizes(db):
    """{(category, kind): size} of the collections of a tagged database, plus totals and per-owner counts"""
    out = {('supported', 'zones'): len(db['zones_map']), ('supported', 'links'): len(db['links_map']), ('supported', 'policies'): len(db['rules_map']),
           ('supported', 'rules'): sum(len(v) for v in db['rules_map'].values()), ('supported', 'eras'): sum(len(v) for v in db['zones_map'].values())}
    for cat in ('removed', 'notable'):
        for kind in ('zones', 'links', 'policies'):
            out[(cat, kind)] = len(db['%s_%s' % (cat, kind)])
    return out


def with_sizes(db):
    out = {'invocation': 'tag-invocation --flag', 'db_namespace': 'tagdb', 'generate_zone_strings': False,
           'buf_sizes': {n: 3 + i for i, n in enumerate(sorted(db['zones_map']))}, 'tzdb': db}
    out.update(db)
    return out


class _Sink:
    """what open(path, 'w') gives the interpreted program: it remembers what is printed into it"""

    pyeval_native = ('write', 'writelines', 'close', 'flush')

    def __init__(self, files, path):
        self.files, self.path = files, path
        files[path] = ''

    def write(self, s):
        self.files[self.path] += s
        return len(s)

    def writelines(self, ls):
        for s in ls:
            self.files[self.path] += s

    def close(self):
        return None

    def flush(self):
        return None


def capture(ev):
    """open() / print(file=) of the interpreted program write into the returned dict {path: text}"""
    files = {}

    def p_open(path, mode='r', **kw):
        if 'w' not in mode:
            raise AnalysisError('abstract evaluation: the program reads the file %s' % path)
        return _Sink(files, path)

    def p_print(*a, sep=' ', end='\n', file=None):
        if isinstance(file, _Sink):
            file.files[file.path] += sep.join(str(x) for x in a) + end
        return None
    ev.intr['open'] = p_open
    ev.intr['print'] = p_print
    return files


GENERATORS = {'arduino': ('tools/zonedb/argenerator.py', 'ArduinoGenerator'), 'python': ('tools/zonedb/pygenerator.py', 'PythonGenerator'),
              'zonelist': ('tools/zonedb/zonelistgenerator.py', 'ZoneListGenerator')}


def generate_files(cfg, kind, db, **over):
    """{file name: text} written by <Generator>(...).generate_files('OUT') on the tagged database"""
    import os
    rel, cls = GENERATORS[kind]
    ev = PyEval(cfg, max_steps=over.pop('max_steps', 400000))
    files = capture(ev)
    mod = ev.module(rel)
    vals = with_sizes(db)
    vals.update(over)
    init = mod.funcs.get(cls + '.__init__')
    gf = mod.funcs.get(cls + '.generate_files')
    if init is None or gf is None:
        raise AnalysisError('anchor vanished: %s.__init__ / generate_files in %s' % (cls, rel))
    kwargs = {}
    for p in init.params[1:]:
        if p not in vals:
            raise AnalysisError('%s: constructor parameter %s is not part of the tagged database' % (init.loc, p))
        kwargs[p] = vals[p]
    try:
        obj = ev.instantiate(mod, cls, kwargs=kwargs)
        ev.call(mod, cls + '.generate_files', ['OUT'], recv=obj)
    except Raised as r_:
        raise Raised('%s (%s)' % (r_.what, r_.loc), gf.loc)
    return {os.path.basename(k): v for k, v in files.items()}


class Rendering:
    def __init__(self, cfg, rel=AR):
        self.cfg = cfg
        self.ev = PyEval(cfg)
        self.mod = self.ev.module(rel)

    def build(self, cls, db, **over):
        vals = with_sizes(db)
        vals.update(over)
        init = self.mod.funcs.get(cls + '.__init__')
        if init is None:
            raise AnalysisError('anchor vanished: %s.__init__ in %s' % (cls, self.mod.rel))
        kwargs = {}
        for p in init.params[1:]:
            if p not in vals:
                raise AnalysisError('%s: constructor parameter %s is not part of the tagged database' % (init.loc, p))
            kwargs[p] = vals[p]
        try:
            return self.ev.instantiate(self.mod, cls, kwargs=kwargs)
        except Raised as r_:
            raise AnalysisError('%s: the constructor raises %s on the tagged database' % (init.loc, r_.what))

    def render(self, cls, method, db, **over):
        obj = self.build(cls, db, **over)
        f = self.mod.fn(cls + '.' + method)
        self.ev.steps = 0
        try:
            out = self.ev.call(self.mod, cls + '.' + method, recv=obj)
        except Raised as r_:
            raise AnalysisError('%s: rendering raises %s (%s) on the tagged database' % (f.loc, r_.what, r_.loc))
        if not isinstance(out, str):
            raise AnalysisError('%s: %s.%s does not return the text of the file' % (f.loc, cls, method))
        return out


def sections(text):
    """{heading text: (count, [lines])} for '// Heading words: N' comment headings of a rendered header"""
    import re
    out = {}
    cur = None
    for ln in text.split('\n'):
        m = re.match(r'^//\s*([A-Za-z][A-Za-z ()-]*?):\s*(\d+)\s*$', ln)
        if m:
            cur = m.group(1).strip()
            out[cur] = (int(m.group(2)), [])
        elif cur is not None:
            out[cur][1].append(ln)
    return out
