"""E-GNF: canonical terms (polynomials over opaque atoms), symbolic evaluation of loop-free IR
functions into guarded normal forms, and comparison of summaries over consistent orderings."""
import itertools

from .common import AnalysisError
from .ir import E, show

# ---------------------------------------------------------------------------------------
# Canonical terms.  A term is a Poly: {monomial: coef}, monomial = sorted tuple of atom keys.
# Atoms are tuples: ('sym', name) | ('fn', name, (args as canonical keys...)) | ('div', a, b) ...
# ---------------------------------------------------------------------------------------


class Poly:
    __slots__ = ('t',)

    def __init__(self, t=None):
        self.t = {k: v for k, v in (t or {}).items() if v != 0}

    @staticmethod
    def const(c):
        return Poly({(): c})

    @staticmethod
    def atom(a):
        return Poly({(a,): 1})

    def is_const(self):
        return all(k == () for k in self.t)

    def const_value(self):
        return self.t.get((), 0) if self.is_const() else None

    def __add__(self, o):
        t = dict(self.t)
        for k, v in o.t.items():
            t[k] = t.get(k, 0) + v
        return Poly(t)

    def __neg__(self):
        return Poly({k: -v for k, v in self.t.items()})

    def __sub__(self, o):
        return self + (-o)

    def __mul__(self, o):
        t = {}
        for k1, v1 in self.t.items():
            for k2, v2 in o.t.items():
                k = tuple(sorted(k1 + k2, key=repr))
                t[k] = t.get(k, 0) + v1 * v2
        return Poly(t)

    def key(self):
        return tuple(sorted(((k, v) for k, v in self.t.items()), key=repr))

    def __eq__(self, o):
        return isinstance(o, Poly) and self.key() == o.key()

    def __hash__(self):
        return hash(self.key())

    def atoms(self):
        s = set()
        for k in self.t:
            s.update(k)
        return s

    def coef(self, *atoms):
        return self.t.get(tuple(sorted(atoms, key=repr)), 0)

    def linear_in(self):
        """{atom: coef} and constant when every monomial has degree <= 1, else None."""
        out = {}
        c = 0
        for k, v in self.t.items():
            if len(k) == 0:
                c = v
            elif len(k) == 1:
                out[k[0]] = v
            else:
                return None
        return out, c

    def __repr__(self):
        if not self.t:
            return '0'
        parts = []
        for k, v in sorted(self.t.items(), key=lambda kv: repr(kv[0])):
            if k == ():
                parts.append(str(v))
            else:
                m = '*'.join(atom_str(a) for a in k)
                parts.append(m if v == 1 else '%d*%s' % (v, m))
        return ' + '.join(parts)


def atom_str(a):
    if a[0] == 'sym':
        return a[1]
    if a[0] == 'fn':
        return '%s(%s)' % (a[1], ', '.join(poly_key_str(x) for x in a[2]))
    if a[0] in ('tdiv', 'fdiv', 'tmod', 'fmod', 'and', 'or', 'xor', 'shr'):
        return '%s(%s, %s)' % (a[0], poly_key_str(a[1]), poly_key_str(a[2]))
    return repr(a)


def poly_key_str(k):
    return repr(Poly(dict(k))) if isinstance(k, tuple) else repr(k)


def is_pow2(n):
    return n > 0 and n & (n - 1) == 0


class Canon:
    """IR expression -> Poly.  `env` maps variable names / field paths to Poly (substitution);
    `sym` renames leaves (role maps); `fn` renames callees (role maps);
    casts are dropped (value-preserving by obligation elsewhere) unless keep_casts."""

    def __init__(self, env=None, sym=None, fn=None, lang='c', fold_global=None):
        self.env = env or {}
        self.sym = sym or {}
        self.fn = fn or {}
        self.lang = lang
        self.fold_global = fold_global

    def leaf(self, name):
        if name in self.env:
            return self.env[name]
        name = self.sym.get(name, name)
        if isinstance(name, Poly):
            return name
        if isinstance(name, int):
            return Poly.const(name)
        return Poly.atom(('sym', name))

    def path(self, e):
        if e.k == 'var':
            return e.a[0]
        if e.k == 'this':
            return 'this'
        if e.k == 'field':
            b = self.path(e.a[0])
            return None if b is None else '%s.%s' % (b, e.a[1])
        if e.k in ('deref', 'addr'):
            return self.path(e.a[0])
        if e.k == 'index':
            b = self.path(e.a[0])
            i = self(e.a[1])
            if b is not None and i.is_const():
                return '%s[%d]' % (b, i.const_value())
            if b is not None:
                return '%s[%r]' % (b, i)
        return None

    def __call__(self, e):
        k, a = e.k, e.a
        if k == 'const':
            return Poly.const(a[0])
        if k == 'null':
            return Poly.atom(('sym', 'null'))
        if k == 'str':
            return Poly.atom(('str', a[0]))
        if k in ('var', 'field', 'this', 'index', 'deref', 'addr'):
            p = self.path(e)
            if p is not None:
                if k == 'var' and self.fold_global is not None and p not in self.env and p not in self.sym:
                    v = self.fold_global(p)
                    if v is not None:
                        return Poly.const(v)
                return self.leaf(p)
            return Poly.atom(('opaque', show(e)))
        if k == 'cast':
            return self(a[2])
        if k == 'ptrcast':
            return self(a[1])
        if k == 'un':
            op = a[0]
            s = self(a[1])
            if op == '-':
                return -s
            if op == '!':
                return Poly.atom(('not', s.key()))
            if op == 'bool':
                return s
            if op == '~':
                return -s - Poly.const(1)
            return Poly.atom(('un', op, s.key()))
        if k == 'bin':
            op = a[0]
            l, r = self(a[1]), self(a[2])
            if op == '+':
                return l + r
            if op == '-':
                return l - r
            if op == '*':
                return l * r
            if op == '<<' and r.is_const():
                return l * Poly.const(1 << r.const_value())
            if op == '**' and l.is_const() and r.is_const():
                return Poly.const(l.const_value() ** r.const_value())
            if op in ('/', '//', '%', '%%'):
                if l.is_const() and r.is_const() and r.const_value() != 0:
                    x, y = l.const_value(), r.const_value()
                    if op == '//':
                        return Poly.const(x // y)
                    if op == '%%':
                        return Poly.const(x % y)
                    q = abs(x) // abs(y)
                    q = q if (x >= 0) == (y >= 0) else -q
                    return Poly.const(q if op == '/' else x - q * y)
                tag = {'/': 'tdiv', '//': 'fdiv', '%': 'tmod', '%%': 'fmod'}[op]
                return Poly.atom((tag, l.key(), r.key()))
            if op == '&' and r.is_const() and is_pow2(r.const_value() + 1):
                # x & (2^n - 1)  ==  x mod 2^n  (floor modulus; operands are non-negative where used)
                return Poly.atom(('fmod', l.key(), Poly.const(r.const_value() + 1).key()))
            if op == '&' and l.is_const() and is_pow2(l.const_value() + 1):
                return Poly.atom(('fmod', r.key(), Poly.const(l.const_value() + 1).key()))
            if op == '>>' and r.is_const():
                return Poly.atom(('fdiv', l.key(), Poly.const(1 << r.const_value()).key()))
            if op in ('&', '|', '^'):
                tag = {'&': 'and', '|': 'or', '^': 'xor'}[op]
                x, y = sorted([l.key(), r.key()], key=repr)
                return Poly.atom((tag, x, y))
            return Poly.atom(('cmp', op, l.key(), r.key()))
        if k == 'call':
            name = self.fn.get(a[0], a[0])
            args = []
            if a[1] is not None:
                args.append(self(a[1]).key())
            for x in a[2]:
                if x.k == 'kw':
                    args.append(('kw', x.a[0], self(x.a[1]).key()))
                else:
                    args.append(self(x).key())
            return Poly.atom(('fn', name, tuple(args)))
        if k == 'cond':
            return Poly.atom(('cond', self(a[0]).key(), self(a[1]).key(), self(a[2]).key()))
        if k == 'init':
            return Poly.atom(('init', a[0], tuple(self(x).key() for x in a[1])))
        return Poly.atom(('opaque', show(e)))
