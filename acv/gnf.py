"""E-GNF: canonical terms (polynomials over opaque atoms), symbolic evaluation of loop-free IR
functions into guarded normal forms, and comparison of summaries over consistent orderings."""
import itertools

from .common import AnalysisError
from .ir import E, show

# ---------------------------------------------------------------------------------------
# Canonical terms.  A term is a Poly: {monomial: coef}, monomial = sorted tuple of atom keys.
# Atoms are tuples: ('sym', name) | ('fn', name, (args as canonical keys...)) | ('div', a, b) ...
# ---------------------------------------------------------------------------------------


class Poly:
    __slots__ = ('t',)

    def __init__(self, t=None):
        self.t = {k: v for k, v in (t or {}).items() if v != 0}

    @staticmethod
    def const(c):
        return Poly({(): c})

    @staticmethod
    def atom(a):
        return Poly({(a,): 1})

    def is_const(self):
        return all(k == () for k in self.t)

    def const_value(self):
        return self.t.get((), 0) if self.is_const() else None

    def __add__(self, o):
        t = dict(self.t)
        for k, v in o.t.items():
            t[k] = t.get(k, 0) + v
        return Poly(t)

    def __neg__(self):
        return Poly({k: -v for k, v in self.t.items()})

    def __sub__(self, o):
        return self + (-o)

    def __mul__(self, o):
        t = {}
        for k1, v1 in self.t.items():
            for k2, v2 in o.t.items():
                k = tuple(sorted(k1 + k2, key=repr))
                t[k] = t.get(k, 0) + v1 * v2
        return Poly(t)

    def key(self):
        return tuple(sorted(((k, v) for k, v in self.t.items()), key=repr))

    def __eq__(self, o):
        return isinstance(o, Poly) and self.key() == o.key()

    def __hash__(self):
        return hash(self.key())

    def atoms(self):
        s = set()
        for k in self.t:
            s.update(k)
        return s

    def coef(self, *atoms):
        return self.t.get(tuple(sorted(atoms, key=repr)), 0)

    def linear_in(self):
        """{atom: coef} and constant when every monomial has degree <= 1, else None."""
        out = {}
        c = 0
        for k, v in self.t.items():
            if len(k) == 0:
                c = v
            elif len(k) == 1:
                out[k[0]] = v
            else:
                return None
        return out, c

    def __repr__(self):
        if not self.t:
            return '0'
        parts = []
        for k, v in sorted(self.t.items(), key=lambda kv: repr(kv[0])):
            if k == ():
                parts.append(str(v))
            else:
                m = '*'.join(atom_str(a) for a in k)
                parts.append(m if v == 1 else '%d*%s' % (v, m))
        return ' + '.join(parts)


def atom_str(a):
    if a[0] == 'sym':
        return a[1]
    if a[0] == 'fn':
        return '%s(%s)' % (a[1], ', '.join(poly_key_str(x) for x in a[2]))
    if a[0] in ('tdiv', 'fdiv', 'tmod', 'fmod', 'and', 'or', 'xor', 'shr'):
        return '%s(%s, %s)' % (a[0], poly_key_str(a[1]), poly_key_str(a[2]))
    return repr(a)


def poly_key_str(k):
    if isinstance(k, tuple) and k and k[0] in ('kw', 'kv') and len(k) == 3:
        return '%s=%s' % (k[1] if isinstance(k[1], str) else poly_key_str(k[1]), poly_key_str(k[2]))
    try:
        return repr(Poly(dict(k))) if isinstance(k, tuple) else repr(k)
    except (ValueError, TypeError):
        return repr(k)


def atom_children(a):
    """the argument keys of a compound atom"""
    k = a[0]
    if k in ('sym', 'str', 'opaque'):
        return []
    if k in ('fn', 'init', 'fstr'):
        return [x[2] if (isinstance(x, tuple) and x and x[0] == 'kw') else x for x in a[-1]]
    if k in ('cmp', 'un'):
        return list(a[2:])
    if k == 'proj':
        return [a[2]]
    return [x for x in a[1:] if isinstance(x, tuple)]


def poly_leaves(p, kinds=('sym',), out=None, depth=0):
    """all atoms of the given kinds reachable in p (through the arguments of compound atoms)"""
    out = set() if out is None else out
    if depth > 16:
        return out
    for a in p.atoms():
        if a[0] in kinds:
            out.add(a)
        for x in atom_children(a):
            try:
                poly_leaves(Poly(dict(x)), kinds, out, depth + 1)
            except (TypeError, ValueError):
                pass
    return out


def small_helper_inliner(lib, prefixes, api_prefixes=('for', 'to', 'is', 'print', 'compare', 'convert', 'get', 'set', 'operator'), max_stmts=12):
    """inliner for SymExec: a call to a small loop-free function of the library that is not part of the public conversion /
    query vocabulary (a private helper extracted from, or forwarding for, the function under analysis) is summarised in place"""
    from .ir import walk_stmts

    def inliner(name, nargs):
        short = name.split('::')[-1]
        if not name.startswith(tuple(prefixes)) or short.startswith(tuple(api_prefixes)) or short[:1].isupper():
            return None
        for g in lib.fns(name):
            if len(g.params) == nargs and g.body:
                ss = list(walk_stmts(g.body))
                if len(ss) <= max_stmts and not any(x.k == 'loop' for x in ss):
                    return g
        return None
    return inliner


def _text_parts(p):
    """parts of a term that is a piece of text: a string literal, a template, or str(x) (the hole x); else None"""
    if len(p.t) != 1:
        return None
    (k, v), = p.t.items()
    if v != 1 or len(k) != 1:
        return None
    a = k[0]
    if a[0] == 'str':
        return [p.key()]
    if a[0] == 'fstr':
        return list(a[1])
    if a[0] == 'fn' and a[1] == 'str' and len(a[2]) == 1:
        return [a[2][0]]
    return None


def is_pow2(n):
    return n > 0 and n & (n - 1) == 0


class Canon:
    """IR expression -> Poly.  `env` maps variable names / field paths to Poly (substitution);
    `sym` renames leaves (role maps); `fn` renames callees (role maps);
    casts are dropped (value-preserving by obligation elsewhere) unless keep_casts."""

    def __init__(self, env=None, sym=None, fn=None, lang='c', fold_global=None, unify_divmod=False):
        self.env = env or {}
        self.sym = sym or {}
        self.fn = fn or {}
        self.lang = lang
        self.fold_global = fold_global
        # when the rule declares the operands non-negative, truncating and flooring division coincide
        self.unify_divmod = unify_divmod
        self.str_map = {}
        self.ctor_roles = {}

    @staticmethod
    def _ity(e):
        """(bits, signed) of a C++ integer expression when the front end recorded it, else None"""
        if e.k == 'cast':
            return (e.a[0], e.a[1]) if isinstance(e.a[0], int) else None
        if e.ty:
            from .cxx import int_type
            return int_type(e.ty)
        return None

    def nonneg(self, e):
        """the C++ expression cannot be negative, by its type alone (an unsigned value, a strictly widening conversion of
        one, a non-negative literal, or an arithmetic combination of such)"""
        if e.k == 'const':
            return isinstance(e.a[0], int) and e.a[0] >= 0
        t = self._ity(e)
        if e.k == 'cast':
            if t is None:
                return False
            if not t[1]:
                return True
            it = self._ity(e.a[2])
            return it is not None and it[0] < t[0] and self.nonneg(e.a[2])
        if e.k == 'bin' and e.a[0] == '&':
            return self.nonneg(e.a[1]) or self.nonneg(e.a[2])
        if e.k == 'bin' and e.a[0] in ('%', '/', '>>'):
            return self.nonneg(e.a[1]) and self.nonneg(e.a[2])
        if t is not None and not t[1]:
            return True
        return False

    def leaf(self, name):
        if name in self.env:
            return self.env[name]
        name = self.sym.get(name, name)
        if isinstance(name, Poly):
            return name
        if isinstance(name, int):
            return Poly.const(name)
        return Poly.atom(('sym', name))

    def path(self, e):
        if e.k == 'var':
            v = self.env.get(e.a[0])
            if isinstance(v, Poly) and len(v.t) == 1:
                (k, c), = v.t.items()
                if c == 1 and len(k) == 1 and k[0][0] == 'sym':
                    return k[0][1]
            return e.a[0]
        if e.k == 'this':
            return getattr(self, 'this_path', None) or 'this'
        if e.k == 'field':
            b = self.path(e.a[0])
            return None if b is None else '%s.%s' % (b, e.a[1])
        if e.k in ('deref', 'addr'):
            return self.path(e.a[0])
        if e.k == 'index':
            b = self.path(e.a[0])
            i = self(e.a[1])
            if b is not None and i.is_const():
                return '%s[%d]' % (b, i.const_value())
            if b is not None:
                return '%s[%r]' % (b, i)
        return None

    def __call__(self, e):
        k, a = e.k, e.a
        if k == 'const':
            return Poly.const(a[0])
        if k == 'null':
            return Poly.atom(('sym', 'null'))
        if k == 'str':
            if a[0] in self.str_map:
                return Poly.const(self.str_map[a[0]])
            return Poly.atom(('str', a[0]))
        if k in ('var', 'field', 'this', 'index', 'deref', 'addr'):
            p = self.path(e)
            if p is not None:
                if k == 'var' and self.fold_global is not None and p not in self.env and p not in self.sym:
                    v = self.fold_global(p)
                    if v is not None:
                        return Poly.const(v)
                return self.leaf(p)
            return Poly.atom(('opaque', show(e)))
        if k == 'cast':
            return self(a[2])
        if k == 'ptrcast':
            return self(a[1])
        if k == 'un':
            op = a[0]
            s = self(a[1])
            if op == '-':
                return -s
            if op == '!':
                return Poly.atom(('not', s.key()))
            if op == 'bool':
                return s
            if op == '~':
                return -s - Poly.const(1)
            return Poly.atom(('un', op, s.key()))
        if k == 'bin':
            op = a[0]
            l, r = self(a[1]), self(a[2])
            if op == '+' and self.lang == 'py':
                # concatenation of text pieces is the template those pieces spell: "(" + str(x) + " + 4)" is f"({x} + 4)"
                lp, rp = _text_parts(l), _text_parts(r)
                if lp is not None and rp is not None:
                    return Poly.atom(('fstr', tuple(lp + rp)))
            if op == '+':
                return l + r
            if op == '-':
                return l - r
            if op == '*':
                return l * r
            if op == '<<' and r.is_const():
                return l * Poly.const(1 << r.const_value())
            if op == '**' and l.is_const() and r.is_const():
                return Poly.const(l.const_value() ** r.const_value())
            if op in ('/', '//', '%', '%%'):
                if l.is_const() and r.is_const() and r.const_value() != 0:
                    x, y = l.const_value(), r.const_value()
                    if op == '//':
                        return Poly.const(x // y)
                    if op == '%%':
                        return Poly.const(x % y)
                    q = abs(x) // abs(y)
                    q = q if (x >= 0) == (y >= 0) else -q
                    return Poly.const(q if op == '/' else x - q * y)
                tag = {'/': 'tdiv', '//': 'fdiv', '%': 'tmod', '%%': 'fmod'}[op]
                if self.lang == 'c' and tag in ('tdiv', 'tmod') and self.nonneg(a[1]) and self.nonneg(a[2]):
                    # truncation and flooring coincide on non-negative operands (x % 16 on a uint8_t is x & 0x0f)
                    tag = {'tdiv': 'fdiv', 'tmod': 'fmod'}[tag]
                if self.unify_divmod:
                    tag = {'tdiv': 'div', 'fdiv': 'div', 'tmod': 'mod', 'fmod': 'mod'}[tag]
                return Poly.atom((tag, l.key(), r.key()))
            if op == '&' and r.is_const() and is_pow2(r.const_value() + 1):
                # x & (2^n - 1)  ==  x mod 2^n  (floor modulus; operands are non-negative where used)
                return Poly.atom(('fmod', l.key(), Poly.const(r.const_value() + 1).key()))
            if op == '&' and l.is_const() and is_pow2(l.const_value() + 1):
                return Poly.atom(('fmod', r.key(), Poly.const(l.const_value() + 1).key()))
            if op == '>>' and r.is_const():
                return Poly.atom(('fdiv', l.key(), Poly.const(1 << r.const_value()).key()))
            if op in ('&', '|', '^'):
                tag = {'&': 'and', '|': 'or', '^': 'xor'}[op]
                x, y = sorted([l.key(), r.key()], key=repr)
                return Poly.atom((tag, x, y))
            return Poly.atom(('cmp', op, l.key(), r.key()))
        if k == 'call' and a[0] in self.ctor_roles:
            # keyword constructor of a record: positional by the declared field order
            order = self.ctor_roles[a[0]]
            vals = {}
            pos = []
            for x in a[2]:
                if x.k == 'kw':
                    vals[x.a[0]] = self(x.a[1]).key()
                else:
                    pos.append(self(x).key())
            for i, v in enumerate(pos):
                vals[order[i]] = v
            if set(vals) == set(order):
                return Poly.atom(('init', self.fn.get(a[0], a[0]), tuple(vals[f] for f in order)))
        if k == 'call' and self.lang == 'py' and a[0] == 'divmod' and a[1] is None and len(a[2]) == 2 and all(x.k != 'kw' for x in a[2]):
            l, r = self(a[2][0]), self(a[2][1])
            q = self(E('bin', '//', a[2][0], a[2][1], loc=e.loc))
            m = self(E('bin', '%%', a[2][0], a[2][1], loc=e.loc))
            return Poly.atom(('init', 'tuple', (q.key(), m.key())))
        if k == 'call':
            name = self.fn.get(a[0], a[0])
            args = []
            if a[1] is not None:
                args.append(self(a[1]).key())
            for x in a[2]:
                if x.k == 'kw':
                    args.append(('kw', x.a[0], self(x.a[1]).key()))
                else:
                    args.append(self(x).key())
            return Poly.atom(('fn', name, tuple(args)))
        if k == 'cond':
            c0, c1, c2 = self(a[0]), self(a[1]), self(a[2])
            if c0 == c1 and c2.is_const() and c2.const_value() == 0:
                return c1       # `x if x else 0` on integers is x
            return Poly.atom(('cond', c0.key(), c1.key(), c2.key()))
        if k == 'kv':
            return Poly.atom(('kv', self(a[0]).key(), self(a[1]).key()))
        if k == 'init':
            tname = self.fn.get(a[0], a[0])
            return Poly.atom(('init', tname, tuple(self(x).key() for x in a[1])))
        return Poly.atom(('opaque', show(e)))


# ---------------------------------------------------------------------------------------
# Conditions: boolean formulas over comparison atoms
#   formula := ('true',) | ('false',) | ('atom', base_key, rel, c) | ('bool', key)
#            | ('not', f) | ('and', f, g) | ('or', f, g)
#   ('atom', base, rel, c) means  base  rel  c   with rel in '<', '<=', '==' and base a Poly key
#   whose constant term is zero and whose first coefficient is positive (sign-normalised).
# ---------------------------------------------------------------------------------------

def _split_base(p):
    """Poly -> (sign-normalised base Poly without constant, sign, constant)."""
    c = p.t.get((), 0)
    b = Poly({k: v for k, v in p.t.items() if k != ()})
    if not b.t:
        return b, 1, c
    first = sorted(b.t.items(), key=lambda kv: repr(kv[0]))[0][1]
    if first < 0:
        return -b, -1, c
    return b, 1, c


def cmp_formula(op, l, r):
    """l op r over integers -> formula."""
    d = l - r
    if d.is_const():
        v = d.const_value()
        t = {'<': v < 0, '<=': v <= 0, '>': v > 0, '>=': v >= 0, '==': v == 0, '!=': v != 0}[op]
        return ('true',) if t else ('false',)
    b, s, c = _split_base(d)
    # d = s*b + c ; d op 0
    if op in ('==', '!='):
        # s*b == -c  ->  b == -c*s   (s is +-1)
        f = ('atom', b.key(), '==', -c * s)
        return f if op == '==' else ('not', f)
    if op in ('>', '>='):
        # d > 0  <=>  -d < 0
        s, c = -s, -c
        op = '<' if op == '>' else '<='
    # now s*b + c  op  0 with op in <, <=
    if s > 0:
        return ('atom', b.key(), op, -c)           # b op -c
    # -b + c op 0  <=>  b >= c (for <=)  or b > c (for <)
    if op == '<=':
        return ('not', ('atom', b.key(), '<', c))   # b >= c
    return ('not', ('atom', b.key(), '<=', c))      # b > c


def f_not(f):
    if f == ('true',):
        return ('false',)
    if f == ('false',):
        return ('true',)
    if f[0] == 'not':
        return f[1]
    return ('not', f)


def f_and(f, g):
    if f == ('false',) or g == ('false',):
        return ('false',)
    if f == ('true',):
        return g
    if g == ('true',):
        return f
    return ('and', f, g)


def f_or(f, g):
    if f == ('true',) or g == ('true',):
        return ('true',)
    if f == ('false',):
        return g
    if g == ('false',):
        return f
    return ('or', f, g)


def formula_atoms(f, out=None):
    out = set() if out is None else out
    if f[0] in ('atom', 'bool'):
        out.add(f)
    elif f[0] == 'not':
        formula_atoms(f[1], out)
    elif f[0] in ('and', 'or'):
        formula_atoms(f[1], out)
        formula_atoms(f[2], out)
    return out


def term_formula(p):
    """truth of a canonical term: a term that *is* a comparison, a negation or a conjunction / disjunction of such (the value
    of a named boolean local, say) is read back as that formula; any other term t as the opaque proposition "t is true"."""
    if p.is_const():
        return ('true',) if p.const_value() else ('false',)
    atoms = p.atoms()
    if len(p.t) == 1 and len(atoms) == 1 and list(p.t.values()) == [1]:
        a0 = next(iter(atoms))
        if a0[0] == 'not':
            return f_not(term_formula(Poly(dict(a0[1]))))
        if a0[0] == 'cmp':
            if a0[1] in ('<', '<=', '>', '>=', '==', '!='):
                return cmp_formula(a0[1], Poly(dict(a0[2])), Poly(dict(a0[3])))
            if a0[1] == '&&':
                return f_and(term_formula(Poly(dict(a0[2]))), term_formula(Poly(dict(a0[3]))))
            if a0[1] == '||':
                return f_or(term_formula(Poly(dict(a0[2]))), term_formula(Poly(dict(a0[3]))))
        if a0[0] == 'cond':
            c = term_formula(Poly(dict(a0[1])))
            return f_or(f_and(c, term_formula(Poly(dict(a0[2])))), f_and(f_not(c), term_formula(Poly(dict(a0[3])))))
    return ('bool', p.key())


def formula_poly(f):
    """a formula as a 0/1-valued term (for use as the condition of a conditional term)"""
    k = f[0]
    if k == 'true':
        return Poly.const(1)
    if k == 'false':
        return Poly.const(0)
    if k == 'atom':
        return Poly.atom(('cmp', f[2], f[1], Poly.const(f[3]).key()))
    if k == 'bool':
        return Poly.atom(('cmp', '!=', f[1], Poly.const(0).key()))
    if k == 'not':
        return Poly.atom(('not', formula_poly(f[1]).key()))
    return Poly.atom(('cmp', '&&' if k == 'and' else '||', formula_poly(f[1]).key(), formula_poly(f[2]).key()))


def formula_str(f):
    if f[0] == 'true':
        return 'true'
    if f[0] == 'false':
        return 'false'
    if f[0] == 'atom':
        return '%r %s %d' % (Poly(dict(f[1])), f[2], f[3])
    if f[0] == 'bool':
        return 'B[%s]' % poly_key_str(f[1])
    if f[0] == 'not':
        return '!(%s)' % formula_str(f[1])
    return '(%s %s %s)' % (formula_str(f[1]), '&&' if f[0] == 'and' else '||', formula_str(f[2]))


class Valuation:
    """Assignment: base_key -> ('pt', c) | ('gap', lo, hi) (lo/hi may be None) and bool key -> 0/1."""

    def __init__(self, regions, bools):
        self.regions = regions
        self.bools = bools

    def eval(self, f):
        k = f[0]
        if k == 'true':
            return True
        if k == 'false':
            return False
        if k == 'not':
            return not self.eval(f[1])
        if k == 'and':
            return self.eval(f[1]) and self.eval(f[2])
        if k == 'or':
            return self.eval(f[1]) or self.eval(f[2])
        if k == 'bool':
            return bool(self.bools[f[1]])
        _, base, rel, c = f
        reg = self.regions[base]
        if reg[0] == 'pt':
            v = reg[1]
            return {'<': v < c, '<=': v <= c, '==': v == c}[rel]
        lo, hi = reg[1], reg[2]   # open gap (lo, hi): every value strictly between
        if rel == '==':
            return False
        # thresholds are region boundaries, so c <= lo or c >= hi
        if hi is not None and c >= hi:
            return True
        return False

    def describe(self):
        out = []
        for b, reg in sorted(self.regions.items(), key=repr):
            bs = repr(Poly(dict(b)))
            if reg[0] == 'pt':
                out.append('%s = %d' % (bs, reg[1]))
            else:
                lo = '-inf' if reg[1] is None else str(reg[1])
                hi = '+inf' if reg[2] is None else str(reg[2])
                out.append('%s in (%s, %s)' % (bs, lo, hi))
        for b, v in sorted(self.bools.items(), key=repr):
            out.append('B[%s] = %s' % (poly_key_str(b), bool(v)))
        return ', '.join(out)


def valuations(formulas, facts=None, limit=200000):
    """All region assignments over the bases occurring in the formulas.  `facts` maps a base key to
    (lo, hi) integer bounds (type facts such as unsigned >= 0) that prune regions."""
    atoms = set()
    for f in formulas:
        formula_atoms(f, atoms)
    thresholds = {}
    bools = set()
    for a in atoms:
        if a[0] == 'bool':
            bools.add(a[1])
        else:
            thresholds.setdefault(a[1], set()).add(a[3])
    facts = facts or {}
    dims = []
    for b, cs in sorted(thresholds.items(), key=repr):
        cs = sorted(cs)
        regs = []
        prev = None
        for c in cs:
            if prev is None:
                regs.append(('gap', None, c))
            elif c - prev > 1:
                regs.append(('gap', prev, c))
            regs.append(('pt', c))
            prev = c
        regs.append(('gap', prev, None))
        lo, hi = facts.get(b, (None, None))
        keep = []
        for r in regs:
            if r[0] == 'pt':
                if (lo is not None and r[1] < lo) or (hi is not None and r[1] > hi):
                    continue
            else:
                rlo = r[1] + 1 if r[1] is not None else None
                rhi = r[2] - 1 if r[2] is not None else None
                if lo is not None and rhi is not None and rhi < lo:
                    continue
                if hi is not None and rlo is not None and rlo > hi:
                    continue
            keep.append(r)
        dims.append((b, keep))
    bl = sorted(bools, key=repr)
    total = 1
    for _b, regs in dims:
        total *= max(1, len(regs))
    total *= 2 ** len(bl)
    if total > limit:
        raise AnalysisError('ordering abstraction: %d assignments exceed the bound %d' % (total, limit))
    for combo in itertools.product(*[regs for _b, regs in dims]):
        regions = {b: r for (b, _), r in zip(dims, combo)}
        for bv in itertools.product((0, 1), repeat=len(bl)):
            yield Valuation(regions, dict(zip(bl, bv)))


# ---------------------------------------------------------------------------------------
# Symbolic execution of loop-free IR into guarded normal forms
# ---------------------------------------------------------------------------------------

class PathState:
    __slots__ = ('env', 'guard', 'effects')

    def __init__(self, env, guard=('true',), effects=()):
        self.env = env
        self.guard = guard
        self.effects = effects

    def fork(self, cond):
        return PathState(dict(self.env), f_and(self.guard, cond), self.effects)


class Summary:
    """Result of symbolic execution: list of (guard formula, outcome kind, result key, effects)."""

    def __init__(self, name):
        self.name = name
        self.paths = []

    def add(self, guard, kind, result, effects):
        if guard != ('false',):
            self.paths.append((guard, kind, result, tuple(effects)))

    def guards(self):
        return [p[0] for p in self.paths]

    def outcome(self, val):
        hits = [p for p in self.paths if val.eval(p[0])]
        return hits

    def dump(self):
        out = []
        for g, k, r, eff in self.paths:
            out.append('  [%s] -> %s %s%s' % (formula_str(g), k, poly_key_str(r) if r is not None else '',
                                             (' effects=' + '; '.join('%s:=%s' % (a, poly_key_str(b)) for a, b in eff)) if eff else ''))
        return '\n'.join(out)


class SymExec:
    def __init__(self, sym=None, fn=None, resolve=None, fold_global=None, lang='c', inline_bound=3,
                 local_prefixes=(), bool_calls=(), unify_divmod=False):
        self.unify_divmod = unify_divmod
        self.sym = sym or {}
        self.fn = fn or {}
        self.resolve = resolve
        self.fold_global = fold_global
        self.lang = lang
        self.inline_bound = inline_bound
        self.out_params = set()
        self.str_map = {}
        self.cmp_calls = {}     # resolved callee name -> comparison operator on its two arguments
        self.bool_return = False   # summarise `return <boolean expr>` as two guarded paths returning 1 / 0
        self.ctor_roles = {}
        # opt-in normalisations (a rule switches them on when the spelling must not matter to it):
        self.split_cond = False    # `x = c ? a : b`, `return c ? a : b` are summarised as the if/else they abbreviate
        self.tables = None         # name -> list of IR element expressions of a constant table; `for x in TABLE` is unrolled
        self.inliner = None        # (callee name, number of arguments) -> function (params, body) to be summarised in place
        self._nest = []            # 'loop' / 'switch' markers: which construct a `break` leaves
        self._brk = []
        self._cont = []
        self._inline_depth = 0

    def canon(self, env):
        return _InliningCanon(self, env)

    def cond(self, e, env):
        """IR expression in boolean position -> formula."""
        k, a = e.k, e.a
        if k == 'un' and a[0] == '!':
            return f_not(self.cond(a[1], env))
        if k == 'un' and a[0] == 'bool':
            return self.cond(a[1], env)
        if k == 'cast':
            return self.cond(a[2], env)
        if k == 'bin':
            op = a[0]
            if op == '&&':
                return f_and(self.cond(a[1], env), self.cond(a[2], env))
            if op == '||':
                return f_or(self.cond(a[1], env), self.cond(a[2], env))
            if op in ('<', '<=', '>', '>=', '==', '!='):
                c = self.canon(env)
                return cmp_formula(op, c(a[1]), c(a[2]))
        if k == 'const':
            return ('true',) if a[0] else ('false',)
        if k == 'call' and a[0] in self.cmp_calls and len(a[2]) + (1 if a[1] is not None else 0) == 2:
            c = self.canon(env)
            args = ([a[1]] if a[1] is not None else []) + list(a[2])
            return cmp_formula(self.cmp_calls[a[0]], c(args[0]), c(args[1]))
        p = self.canon(env)(e)
        return term_formula(p)

    def run(self, func_name, body, env):
        s = Summary(func_name)
        st = PathState(dict(env))
        falls = self._block(body, [st], s, 0)
        for f in falls:
            s.add(f.guard, 'fallthrough', None, f.effects)
        return s

    def _block(self, block, states, summary, depth):
        for stmt in block:
            if not states:
                break
            states = self._stmt(stmt, states, summary, depth)
        return states

    @staticmethod
    def _as_cond(e):
        """e is `c ? x : y` possibly under conversions -> (c, x, y) with the conversions pushed into the arms"""
        wraps = []
        while e is not None and e.k == 'cast':
            wraps.append(e)
            e = e.a[2]
        if e is None or e.k != 'cond':
            return None
        x, y = e.a[1], e.a[2]
        for w in reversed(wraps):
            x = E('cast', w.a[0], w.a[1], x, loc=w.loc, ty=w.ty)
            y = E('cast', w.a[0], w.a[1], y, loc=w.loc, ty=w.ty)
        return e.a[0], x, y

    def _table_elems(self, it):
        x = it.a[0] if it.k == 'iter' else it
        if x.k == 'init' and x.a[0] in ('tuple', 'list'):
            return list(x.a[1])
        if x.k == 'var' and self.tables is not None:
            return self.tables(x.a[0])
        return None

    def _stmt(self, s, states, summary, depth):
        """statement-level inlining: `x = helper(...)` / `return helper(...)` where the helper (accepted by self.inliner) has
        several guarded results forks the state once per result; everything else goes to _stmt0."""
        k, a = s.k, s.a
        if self.inliner is not None and k in ('decl', 'assign', 'return') and self._inline_depth < 3 and (k != 'assign' or a[2] == '='):
            from .ir import S as _S
            val = a[2] if k == 'decl' else a[1] if k == 'assign' else a[0]
            call = val
            while call is not None and call.k == 'cast':
                call = call.a[2]
            if call is not None and call.k == 'call' and self.inliner(call.a[0], len(call.a[2])) is not None:
                out = []
                forked = False
                for st in states:
                    paths = self.canon(st.env)._inline_paths(call)
                    if paths is None or len(paths) < 2:
                        out.extend(self._stmt0(s, [st], summary, depth))
                        continue
                    forked = True
                    for i, (g, r) in enumerate(paths):
                        st2 = st.fork(g)
                        if st2.guard == ('false',):
                            continue
                        tmp = '\x00inl:%s:%d' % (s.loc, i)
                        st2.env[tmp] = r
                        v2 = E('var', tmp, loc=s.loc)
                        s2 = _S('decl', a[0], a[1], v2, loc=s.loc) if k == 'decl' else _S('assign', a[0], v2, '=', loc=s.loc) if k == 'assign' else _S('return', v2, loc=s.loc)
                        out.extend(self._stmt0(s2, [st2], summary, depth))
                return out
        return self._stmt0(s, states, summary, depth)

    def _stmt0(self, s, states, summary, depth):
        k, a = s.k, s.a
        out = []
        if self.split_cond and k in ('decl', 'assign', 'return'):
            from .ir import S as _S
            val = a[2] if k == 'decl' else a[1] if k == 'assign' else a[0]
            sp = self._as_cond(val) if (val is not None and (k != 'assign' or a[2] == '=')) else None
            if sp is not None:
                c, x, y = sp
                if k == 'return':
                    arms = ([_S('return', x, loc=s.loc)], [_S('return', y, loc=s.loc)])
                elif k == 'assign':
                    arms = ([_S('assign', a[0], x, '=', loc=s.loc)], [_S('assign', a[0], y, '=', loc=s.loc)])
                else:
                    arms = ([_S('decl', a[0], a[1], x, loc=s.loc)], [_S('decl', a[0], a[1], y, loc=s.loc)])
                return self._stmt(_S('if', c, arms[0], arms[1], loc=s.loc), states, summary, depth)
        if k == 'loop' and a[0] == 'foreach' and a[1] and a[1][0].k == 'assign':
            elems = self._table_elems(a[1][0].a[1])
            if elems is not None and len(elems) <= 32:
                from .ir import S as _S
                tgt = a[1][0].a[0]
                cur = states
                left = []
                for el in elems:
                    self._nest.append('loop')
                    self._brk.append([])
                    self._cont.append([])
                    try:
                        falls = self._block([_S('assign', tgt, el, '=', loc=s.loc)] + list(a[4]), cur, summary, depth)
                    finally:
                        self._nest.pop()
                        brk = self._brk.pop()
                        cont = self._cont.pop()
                    left.extend(brk)
                    cur = list(falls) + cont
                    if not cur:
                        break
                return cur + left
        if k == 'decl':
            for st in states:
                if a[2] is not None:
                    st.env[a[0]] = self.canon(st.env)(a[2])
                    if a[0] in getattr(self, 'trace_locals', ()):
                        # the rule wants to know what this local was bound to on this path (fields read through it are
                        # named after the local, not after the value it holds)
                        st.effects = st.effects + (('local:' + a[0], st.env[a[0]].key()),)
                out.append(st)
            return out
        if k == 'assign':
            for st in states:
                c = self.canon(st.env)
                v = c(a[1])
                if a[2] != '=':
                    from .ir import E as _E
                    v = c(_E('bin', a[2][:-1], a[0], a[1]))
                tgt = a[0]
                if tgt.k == 'var':
                    st.env[tgt.a[0]] = v
                    if tgt.a[0] in self.out_params:
                        st.effects = st.effects + ((tgt.a[0], v.key()),)
                    elif tgt.a[0] in getattr(self, 'trace_locals', ()):
                        st.effects = st.effects + (('local:' + tgt.a[0], v.key()),)
                elif tgt.k == 'init' and tgt.a[0] in ('tuple', 'list'):
                    self._unpack(st, tgt, v)
                else:
                    p = c.path(tgt)
                    if p is None:
                        raise AnalysisError('%s: assignment target %s is not a recognised l-value' % (s.loc, show(tgt)))
                    st.env[p] = v
                    root = p.split('.')[0].split('[')[0]
                    st.effects = st.effects + ((self.sym.get(p, p), v.key()),)
                out.append(st)
            return out
        if k == 'expr':
            for st in states:
                e = a[0]
                if e.k == 'call':
                    st.effects = st.effects + (('call', self.canon(st.env)(e).key()),)
                out.append(st)
            return out
        if k == 'if':
            for st in states:
                f = self.cond(a[0], st.env)
                t = st.fork(f)
                e = st.fork(f_not(f))
                if t.guard != ('false',):
                    out.extend(self._block(a[1], [t], summary, depth))
                if e.guard != ('false',):
                    out.extend(self._block(a[2], [e], summary, depth))
            return out
        if k == 'return':
            for st in states:
                if self.bool_return and a[0] is not None:
                    f = self.cond(a[0], st.env)
                    summary.add(f_and(st.guard, f), 'return', Poly.const(1).key(), st.effects)
                    summary.add(f_and(st.guard, f_not(f)), 'return', Poly.const(0).key(), st.effects)
                    continue
                r = self.canon(st.env)(a[0]).key() if a[0] is not None else None
                summary.add(st.guard, 'return', r, st.effects)
            return []
        if k == 'raise':
            for st in states:
                summary.add(st.guard, 'raise', None, st.effects)
            return []
        if k == 'block':
            return self._block(a[0], states, summary, depth)
        if k in ('break', 'continue'):
            if self._nest and (self._nest[-1] == 'loop' or (k == 'continue' and 'loop' in self._nest)):
                # inside an unrolled table loop: the state leaves the iteration with everything it has computed
                (self._brk if k == 'break' else self._cont)[-1].extend(states)
                return []
            for st in states:
                summary.add(st.guard, k, None, st.effects)
            return []
        if k == 'switch':
            for st in states:
                c = self.canon(st.env)
                subj = c(a[0])
                taken = ('false',)
                arms = a[1]
                pending = []
                for i, (labels, blk) in enumerate(arms):
                    f = ('false',)
                    has_default = False
                    for l in labels:
                        if l is None:
                            has_default = True
                        else:
                            f = f_or(f, cmp_formula('==', subj, c(l)))
                    pending.append((f, has_default, i))
                alln = ('false',)
                for f, _d, _i in pending:
                    alln = f_or(alln, f)
                for f, has_default, i in pending:
                    g = f_or(f, f_not(alln)) if has_default else f
                    t = st.fork(g)
                    if t.guard == ('false',):
                        continue
                    cur = [t]
                    j = i
                    while cur and j < len(arms):
                        sub = Summary('arm')
                        self._nest.append('switch')
                        try:
                            cur = self._block(arms[j][1], cur, sub, depth)
                        finally:
                            self._nest.pop()
                        for (gg, kk, rr, ee) in sub.paths:
                            if kk == 'break':
                                out.append(PathState(dict(t.env), gg, ee))
                            else:
                                summary.add(gg, kk, rr, ee)
                        j += 1
                    out.extend(cur)
                if not any(d for _f, d, _i in pending):
                    e = st.fork(f_not(alln))
                    if e.guard != ('false',):
                        out.append(e)
            return out
        if k == 'loop':
            raise AnalysisError('%s: loop in a function summarised as loop-free' % s.loc)
        if k == 'try':
            return self._block(a[0], states, summary, depth)
        raise AnalysisError('%s: statement kind %s not supported by the summariser' % (s.loc, k))

    def _unpack(self, st, tgt, v):
        elts = tgt.a[1]
        at = v.atoms()
        if len(v.t) == 1 and len(at) == 1:
            a0 = next(iter(at))
            if a0[0] == 'init' and len(a0[2]) == len(elts):
                for e, k in zip(elts, a0[2]):
                    if e.k == 'var':
                        st.env[e.a[0]] = Poly(dict(k))
                return
        for i, e in enumerate(elts):
            if e.k == 'var':
                st.env[e.a[0]] = Poly.atom(('proj', i, v.key()))


class _InliningCanon(Canon):
    def __init__(self, sx, env):
        Canon.__init__(self, env=env, sym=sx.sym, fn=sx.fn, lang=sx.lang, fold_global=sx.fold_global,
                       unify_divmod=sx.unify_divmod)
        self.str_map = sx.str_map
        self.ctor_roles = sx.ctor_roles
        self.sx = sx
        self.this_path = getattr(sx, '_this_path', None)

    def _inline_paths(self, e):
        """guarded values [(guard, value)] of a call to a small pure function, obtained by summarising its body in place:
        return paths without effects, by-value parameters; the receiver's fields are read through the receiver's own path"""
        sx = self.sx
        f = sx.inliner(e.a[0], len(e.a[2]))
        if f is None or sx._inline_depth >= 3:
            return None
        params = list(f.params)
        names = []
        for p in params:
            n_, t_ = (p if isinstance(p, tuple) else (p, None))
            if t_ and ('&' in t_ or '*' in t_) and 'const' not in t_:
                return None
            names.append(n_)
        if names and names[0] == 'self' and len(names) == len(e.a[2]) + 1:
            names = names[1:]
        if len(names) != len(e.a[2]) or any(x.k == 'kw' for x in e.a[2]):
            return None
        env = {n_: self(x) for n_, x in zip(names, e.a[2])}
        this_path = None
        if e.a[1] is not None:
            this_path = self.path(e.a[1])
            if this_path is None:
                return None
        sub = SymExec(sym=sx.sym, fn=sx.fn, resolve=sx.resolve, fold_global=sx.fold_global, lang=sx.lang, unify_divmod=sx.unify_divmod)
        sub.cmp_calls, sub.str_map, sub.ctor_roles = sx.cmp_calls, sx.str_map, sx.ctor_roles
        sub.inliner, sub.tables, sub.split_cond = sx.inliner, sx.tables, sx.split_cond
        sub._inline_depth = sx._inline_depth + 1
        sub._this_path = this_path
        try:
            summ = sub.run(e.a[0], f.body, env)
        except AnalysisError:
            return None
        # a path that raises is kept out: the caller then has no result for that guard (as in the callee)
        rets = [(g, kind, res, eff) for g, kind, res, eff in summ.paths if kind != 'raise']
        if not rets or any(kind != 'return' or res is None or eff for _g, kind, res, eff in rets) or len(rets) > 8:
            return None
        return [(g, Poly(dict(res))) for g, _k, res, _e in rets]

    def _inline(self, e):
        paths = self._inline_paths(e)
        if paths is None:
            return None
        if len(paths) == 1:
            return paths[0][1] if paths[0][0] == ('true',) else None
        # several guarded results: one conditional term  g1 ? r1 : (g2 ? r2 : ... rn)
        out = paths[-1][1]
        for g, res in reversed(paths[:-1]):
            out = Poly.atom(('cond', formula_poly(g).key(), res.key(), out.key()))
        return out

    def __call__(self, e):
        if e.k == 'call' and self.sx.resolve is not None:
            r = self.sx.resolve(e, self)
            if r is not None:
                return r
        if e.k == 'call' and self.sx.inliner is not None:
            r = self._inline(e)
            if r is not None:
                return r
        if e.k == 'fstr':
            return Poly.atom(('fstr', tuple(self(x).key() for x in e.a[0])))
        if e.k == 'kw':
            return Poly.atom(('kw', e.a[0], self(e.a[1]).key()))
        return Canon.__call__(self, e)


def compare_summaries(sa, sb, facts=None, project=None, constraint=None, limit=200000):
    """Outcome comparison on every consistent valuation of the union of atoms.
    project(path) -> comparable outcome (default: kind, result, effects);
    constraint(valuation) -> False to skip valuations excluded by a stated precondition.
    Returns (number of valuations examined, list of (valuation description, outcome a, outcome b))."""
    project = project or (lambda p: (p[1], p[2], p[3]))
    diffs = []
    n = 0
    for val in valuations(sa.guards() + sb.guards(), facts=facts, limit=limit):
        if constraint is not None and not constraint(val):
            continue
        ha, hb = sa.outcome(val), sb.outcome(val)
        if len(ha) != 1 or len(hb) != 1:
            if not ha and not hb:
                continue
            raise AnalysisError('summary of %s/%s is not a partition under valuation {%s}: %d/%d paths' %
                                (sa.name, sb.name, val.describe(), len(ha), len(hb)))
        n += 1
        oa, ob = project(ha[0]), project(hb[0])
        if oa != ob:
            diffs.append((val.describe(), oa, ob))
    return n, diffs


def formulas_equivalent(f, g, facts=None):
    """f <=> g on every valuation of the union of their atoms."""
    for val in valuations([f, g], facts=facts):
        if val.eval(f) != val.eval(g):
            return False, val.describe()
    return True, None


def eval_poly(p, assign):
    """numeric value of a Poly under {atom: int}; atoms may also be given by a callable assign(atom)."""
    tot = 0
    for mono, c in p.t.items():
        v = c
        for a in mono:
            x = assign(a) if callable(assign) else assign.get(a)
            if x is None:
                raise KeyError(a)
            v *= x
        tot += v
    return tot


def arith_assign(env, lang='c'):
    """assign callable for eval_poly/eval_formula that gives arithmetic atoms their integer meaning over the symbol
    values in env: truncating / flooring division and modulus, comparisons (0/1), bit operations, conditionals."""
    def tdiv(a, b):
        q = abs(a) // abs(b)
        return q if (a >= 0) == (b >= 0) else -q

    def val(key):
        return eval_poly(Poly(dict(key)), assign)

    def assign(a):
        k = a[0]
        if k == 'sym':
            return env.get(a[1])
        if k in ('tdiv', 'fdiv', 'div', 'tmod', 'fmod', 'mod'):
            x, y = val(a[1]), val(a[2])
            if y == 0:
                return None
            if k == 'tdiv' or (k == 'div' and lang == 'c'):
                return tdiv(x, y)
            if k in ('fdiv', 'div'):
                return x // y
            if k == 'tmod' or (k == 'mod' and lang == 'c'):
                return x - tdiv(x, y) * y
            return x % y
        if k == 'cmp':
            x, y = val(a[2]), val(a[3])
            return int({'<': x < y, '<=': x <= y, '>': x > y, '>=': x >= y, '==': x == y, '!=': x != y,
                        '&&': bool(x) and bool(y), '||': bool(x) or bool(y)}[a[1]])
        if k == 'not':
            return int(not val(a[1]))
        if k in ('and', 'or', 'xor'):
            x, y = val(a[1]), val(a[2])
            return x & y if k == 'and' else x | y if k == 'or' else x ^ y
        if k == 'cond':
            return val(a[2]) if val(a[1]) else val(a[3])
        return None
    return assign


def compile_poly(p, leaf, lang='c'):
    """Poly -> python function of one dict argument `v` (values of the leaves), for evaluating a closed arithmetic form on
    every point of a finite domain.  leaf(atom) -> python expression text for 'sym' / 'fn' atoms (e.g. "v['y']"), or None."""
    def td(a, b):
        q = abs(a) // abs(b)
        return q if (a >= 0) == (b >= 0) else -q

    def tm(a, b):
        return a - td(a, b) * b

    def key_src(key):
        return poly_src(Poly(dict(key)))

    def atom_src(a):
        k = a[0]
        if k in ('sym', 'fn'):
            s = leaf(a)
            if s is None:
                raise AnalysisError('cannot evaluate the leaf %r of the formula' % (a,))
            return s
        if k in ('tdiv', 'fdiv', 'div', 'tmod', 'fmod', 'mod'):
            x, y = key_src(a[1]), key_src(a[2])
            if k == 'tdiv' or (k == 'div' and lang == 'c'):
                return '_td(%s, %s)' % (x, y)
            if k in ('fdiv', 'div'):
                return '((%s) // (%s))' % (x, y)
            if k == 'tmod' or (k == 'mod' and lang == 'c'):
                return '_tm(%s, %s)' % (x, y)
            return '((%s) %% (%s))' % (x, y)
        if k == 'cmp':
            op = {'&&': 'and', '||': 'or'}.get(a[1], a[1])
            return 'int((%s) %s (%s))' % (key_src(a[2]), op, key_src(a[3]))
        if k == 'not':
            return 'int(not (%s))' % key_src(a[1])
        if k in ('and', 'or', 'xor'):
            return '((%s) %s (%s))' % (key_src(a[1]), {'and': '&', 'or': '|', 'xor': '^'}[k], key_src(a[2]))
        if k == 'cond':
            return '((%s) if (%s) else (%s))' % (key_src(a[2]), key_src(a[1]), key_src(a[3]))
        raise AnalysisError('cannot evaluate the atom %r of the formula' % (a,))

    def poly_src(q):
        terms = []
        for mono, c in q.t.items():
            parts = [str(c)] + [atom_src(a) for a in mono]
            terms.append('*'.join('(%s)' % x for x in parts))
        return ' + '.join(terms) if terms else '0'
    src = 'lambda v: ' + poly_src(p)
    return eval(src, {'_td': td, '_tm': tm})


def eval_formula(f, assign):
    k = f[0]
    if k == 'true':
        return True
    if k == 'false':
        return False
    if k == 'not':
        return not eval_formula(f[1], assign)
    if k == 'and':
        return eval_formula(f[1], assign) and eval_formula(f[2], assign)
    if k == 'or':
        return eval_formula(f[1], assign) or eval_formula(f[2], assign)
    if k == 'bool':
        return bool(eval_poly(Poly(dict(f[1])), assign))
    v = eval_poly(Poly(dict(f[1])), assign)
    return {'<': v < f[3], '<=': v <= f[3], '==': v == f[3]}[f[2]]
