"""C20 - generated artefacts are deterministic and mutually consistent (structural clauses)."""
import ast
import re

from .common import AnalysisError, Report
from . import py, tables, tzline
from .rules_C11 import normalize_name
from .tables import Ref

META = {
    'explanation': 'E-SEQ over the Python ast (acv/pyeval.py, acv/genrender.py): ArduinoGenerator, PythonGenerator and '
                   'ZoneListGenerator write their files for a tagged miniature database whose collections all have different sizes; '
                   'every count in a comment heading, every `N /*numX*/` cell, kZoneRegistrySize and the registry array length must '
                   'be the size of the collection its words name (per zone / per policy inside an item), and the same files must '
                   'come out byte for byte when every map of the database is filled in the reverse order; ast rules over the '
                   'generator classes (every loop that accumulates rendered text iterates a sorted() map, a list or '
                   'a range; every class-level template receives all of its placeholders; InlineGenerator and PythonGenerator map '
                   'every TypedDict key from the same source field) and E-TAB over the checked-in tools/zonedbpy (header counts, map keys, policy '
                   'references, every entry against its recorded TZ line, basic names inside extended names).',
    'decided': 'rendered order does not depend on dict/set iteration order (apart from the exempt reason lists): every walk over a '
               'set-typed local on the whole compile path is sorted or order-free; no class on the compile path fills a class-level '
               'mutable container through self (two compilations in one process are independent); template/argument '
               'agreement; header counters; in-memory and file Python tables are built from the same fields; the zone list is the '
               'set of emitted zones; the checked-in Python database is internally consistent and equals its recorded lines; '
               'basic zone names are a subset of extended zone names; the in-memory and the file tables keep the rules of a policy in '
               'the order of its Rule lines (also when that is not FROM order); the zone-name and format string collections handed to '
               'the generators name exactly what is emitted',
    'not_decided': 'byte identity of two runs of the compiler; agreement of tools/zonedbpy with zic at every instant',
    'assumptions': ['CPython ast', 'TZ line grammar of acv/tzline.py', 'str(list) of the exempt reason lists is outside the claim'],
}

GEN_FILES = ['tools/zonedb/argenerator.py', 'tools/zonedb/pygenerator.py', 'tools/zonedb/zonelistgenerator.py', 'tools/validation/arvalgenerator.py']
COMPILE_PATH = GEN_FILES + ['tools/zonedb/ingenerator.py', 'tools/zonedb/bufestimator.py', 'tools/tzdb/extractor.py', 'tools/tzdb/transformer.py',
                            'tools/tzdb/tzdbcollector.py', 'tools/tzcompiler.py']
ORDERED_OK = {
    # loop iterable (unparsed) -> reason it is deterministic although it is a map without sorted()
    'letters.items()': 'indexed letters map is an OrderedDict filled from sorted(letters) in _collect_letter_strings()',
    'indexed_letters.items()': 'same OrderedDict as above',
    "self.format_strings['ordered_map'].items()": 'OrderedDict built by create_format_strings() from a sorted list of names',
    "self.zone_strings['ordered_map'].items()": 'OrderedDict built by create_zone_strings() from a sorted list of names',
}


def run(cfg):
    R = Report('C20', cfg)
    R.analysed['python_modules'] = list(GEN_FILES) + ['tools/zonedb/ingenerator.py', 'tools/zonedb/zone_specifier.py',
                                                      'tools/zonedbpy/zone_infos.py', 'tools/zonedbpy/zone_policies.py']
    R.rule('R1', 'every rendering loop over a map iterates sorted(...); the files written for the tagged database do not depend on the insertion order of its maps', floor=25)
    R.rule('R2', 'every class-level template is formatted with all of its placeholders', floor=35)
    R.rule('R3', 'the in-memory tables of InlineGenerator and the files of PythonGenerator carry the same value under every TypedDict key for every rule and era of the tagged database', floor=20)
    R.rule('R4', 'every count in the files written for the tagged database is the size of the collection its words name', floor=12)
    R.rule('R6', 'checked-in tools/zonedbpy: counts, map keys, policy references, entries == recorded lines; basic subset of extended', floor=1500)
    R.rule('R1-set', 'no order-dependent computation walks a set without sorted() anywhere on the compile path', floor=2)
    mods = [py.load(cfg, f) for f in GEN_FILES]
    order_rule(R, mods)
    set_order_rule(R, [py.load(cfg, f) for f in COMPILE_PATH])
    R.rule('R7', 'no class on the compile path fills a class-level mutable container through self', floor=8)
    shared_state_rule(R, [py.load(cfg, f) for f in COMPILE_PATH])
    template_rule(R, mods)
    rendered_counts(cfg, R)
    rendered_order(cfg, R)
    inline_rule(cfg, R)
    pydb_rule(cfg, R)
    scope_subset_rule(cfg, R)
    zone_list_rule(cfg, R)
    strings_rule(cfg, R)
    return R


def zone_list_rule(cfg, R):
    """R9 (E-SEQ, acv/genrender.py): the three generators write their files for one tagged database that also holds zones whose
    names have no '/', a digit, a '+' and a '-' (EST, MST7MDT, Etc/GMT+1 are such names); the zones listed in zones.txt, the keys
    of ZONE_INFO_MAP in zone_infos.py and the zones named in zone_registry.cpp must all be exactly the zones of the database."""
    from .genrender import tagged_db, era
    R.rule('R9', 'the zone list, the Python zone map and the C++ registry written for one database name exactly its zones (names without "/" included)', floor=3)
    for scope in ('extended', 'basic'):
        db = tagged_db(scope)
        db['zones_map'] = dict(db['zones_map'])
        for i, name in enumerate(('EST', 'MST7MDT', 'Tag/GMT+1', 'WET')):
            db['zones_map'][name] = [era('-', 10000, 'X%dT' % i, 'Zone %s raw-x%d' % (name, i), offset=-3600 * (i + 1))]
        want = set(db['zones_map'])
        for gen, fname in (('zonelist', 'zones.txt'), ('python', 'zone_infos.py'), ('arduino', 'zone_registry.cpp')):
            f, files = _files(cfg, R, gen, db)
            c = '%s:%s[%s]:zones' % (gen, fname, scope)
            R.instance('R9', c, f.loc)
            if not isinstance(files, dict):
                R.violation('R9', c, f.loc, 'writing the files of the tagged database raises %s' % files.what)
                continue
            text = files.get(fname)
            if text is None:
                R.violation('R9', c, f.loc, 'no file %s is written (files: %s)' % (fname, sorted(files)))
                continue
            if gen == 'zonelist':
                got = {ln.strip() for ln in text.split('\n') if ln.strip() and not ln.lstrip().startswith('#')}
            elif gen == 'python':
                P = tables.PyTables(cfg, texts=files)
                got = set(P.info_map)
            else:
                got = {n for n in want if re.search(r'&kZone%s\b' % re.escape(normalize_name(n)), text)} | \
                      {m for m in re.findall(r'&kZone(\w+)', text) if m not in {normalize_name(n) for n in want}}
            if got != want:
                R.violation('R9', c, f.loc, '[%s] %s names %s; the database has the zones %s: missing %s, extra %s' % (
                    scope, fname, sorted(got)[:12], sorted(want)[:12], sorted(want - got), sorted(got - want)))


def scope_subset_rule(cfg, R):
    """R8 (E-SEQ, acv/pipeline.py): the same sweep TZ source is compiled for both scopes by interpreting the compiler; every
    zone and link emitted for the basic scope must be emitted for the extended scope as well (basic is the restricted
    database: its filters are the common ones plus basic-only ones)."""
    from . import pipeline
    R.rule('R8', 'sweep: every zone and link the compiler emits in basic scope it also emits in extended scope from the same source', floor=40)
    tr = py.load(cfg, pipeline.TR)
    loc = tr.fn('Transformer.transform').loc
    for strict in ((False, True) if cfg.tier == 'thorough' else (False,)):
        text = pipeline.sweep_text('both')
        label = 'strict' if strict else 'default'
        try:
            b, _rb = pipeline.compile_text(cfg, text, 'basic', strict=strict)
            x, _rx = pipeline.compile_text(cfg, text, 'extended', strict=strict)
        except pipeline.Raised as r_:
            R.instance('R8', 'sweep[%s]:compile' % label, loc)
            R.violation('R8', 'sweep[%s]:compile' % label, loc, '%s' % r_.what)
            continue
        for kind, key, rem in (('zone', 'zones_map', 'removed_zones'), ('link', 'links_map', 'removed_links')):
            c = 'sweep[%s]:%ss' % (label, kind)
            for name in sorted(b[key]):
                R.instance('R8', c, loc)
                if name not in x[key]:
                    R.violation('R8', c, loc, '[%s] %s %s is emitted in basic scope but not in extended scope (extended lists it as removed: %s)' % (
                        label, kind, name, x[rem].get(name)))
                    break


def strings_rule(cfg, R):
    """R10 (E-SEQ, acv/pipeline.py): the collections of zone-name and FORMAT / LETTER strings the compiler hands to the generators
    (written as kZoneStrings / kFormatStrings and into tzdb.json) are computed from the zones and policies it emits - a zone that a
    later filter drops (two names that normalise to one symbol) has no string.  Decided on the feature source, both scopes."""
    from . import pipeline
    R.rule('R10', 'the zone-name and format string collections name exactly the emitted zones and the formats / letters of the emitted eras and rules', floor=4)
    tr = py.load(cfg, pipeline.TR)
    loc = tr.fn('Transformer.transform').loc
    text = pipeline.feature_text()
    for scope in ('basic', 'extended'):
        try:
            db, _raw = pipeline.compile_text(cfg, text, scope)
        except pipeline.Raised as r_:
            R.instance('R10', 'features[%s]:compile' % scope, loc)
            R.violation('R10', 'features[%s]:compile' % scope, loc, '%s' % r_.what)
            continue

        def keys(coll):
            om = coll.get('ordered_map') if isinstance(coll, dict) else getattr(coll, 'ordered_map', None)
            if om is None and hasattr(coll, 'attrs'):
                om = coll.attrs.get('ordered_map')
            if om is None:
                raise AnalysisError('%s: a string collection without ordered_map (%r)' % (loc, coll))
            return set(om)
        c = 'features[%s]:zone_strings' % scope
        R.instance('R10', c, loc)
        got, want = keys(db['zone_strings']), set(db['zones_map'])
        if got != want:
            R.violation('R10', c, loc, '[%s] the zone-name strings and the emitted zones differ: strings without a zone %s, zones without a string %s' % (
                scope, sorted(got - want)[:6], sorted(want - got)[:6]))
        c = 'features[%s]:format_strings' % scope
        R.instance('R10', c, loc)
        got = keys(db['format_strings'])
        want = {e_['format'].replace('%s', '%') for es_ in db['zones_map'].values() for e_ in es_} | {r_['letter'] for rs_ in db['rules_map'].values() for r_ in rs_}
        if got != want:
            R.violation('R10', c, loc, '[%s] the format strings and the formats / letters of what is emitted differ: extra %s, missing %s' % (
                scope, sorted(got - want)[:6], sorted(want - got)[:6]))


def order_rule(R, mods):
    for m in mods:
        modn = m.rel.split('/')[-1][:-3]
        for q, f in m.funcs.items():
            for n in ast.walk(f.node):
                if not isinstance(n, ast.For):
                    continue
                it = n.iter
                src = ast.unparse(it)
                is_map_iter = isinstance(it, ast.Call) and isinstance(it.func, ast.Attribute) and it.func.attr in ('items', 'keys', 'values')
                is_sorted = isinstance(it, ast.Call) and isinstance(it.func, ast.Name) and it.func.id == 'sorted'
                is_setish = isinstance(it, ast.Call) and isinstance(it.func, ast.Name) and it.func.id == 'set'
                if not (is_map_iter or is_sorted or is_setish):
                    continue
                c = '%s.%s:for(%s)' % (modn, q, re.sub(r'\s+', '', src)[:60])
                R.instance('R1', c, m.loc(n))
                if is_sorted:
                    continue
                if src in ORDERED_OK:
                    R.exception('R1', c, ORDERED_OK[src])
                    continue
                # does the loop render text (augmented string assignment / append / format)?
                renders = any(isinstance(x, ast.AugAssign) for x in ast.walk(n)) or any(
                    isinstance(x, ast.Call) and isinstance(x.func, ast.Attribute) and x.func.attr in ('append', 'format') for x in ast.walk(n))
                # a loop that only fills another map/set keyed by the loop key is order-insensitive
                if renders and not any(isinstance(x, ast.AugAssign) and isinstance(x.op, ast.Add) and not isinstance(x.value, (ast.Constant,)) or
                                       (isinstance(x, ast.Call) and isinstance(x.func, ast.Attribute) and x.func.attr in ('append', 'format'))
                                       for x in ast.walk(n)):
                    renders = False
                if renders:
                    R.violation('R1', c, m.loc(n), 'rendered text is accumulated while iterating %s without sorted(): the output order follows the insertion/hash '
                                'order of the input' % src)


ORDER_FREE_CONSUMERS = {'sorted', 'set', 'frozenset', 'len', 'min', 'max', 'sum', 'any', 'all'}


SET_WALK_OK = {
    'tzcompiler.main:walk(actions)': 'dispatch over the requested actions: every arm writes its own files (zonedb sources / tzdb.json / zones.txt) '
                                     'from the same tzdb value and no arm binds a name another arm reads (checked: the body is a pure if/elif '
                                     'dispatch on the loop variable without assignments), so the order of the walk only orders independent writes',
}


def _is_dispatch_loop(n):
    """for v in S: if v == K1: <calls> elif v == K2: <calls> ... else: <calls>  with no assignment in any arm except fresh locals
    that are used only inside the arm that binds them."""
    if len(n.body) != 1 or not isinstance(n.body[0], ast.If) or not isinstance(n.target, ast.Name):
        return False
    cur = n.body[0]
    arms = []
    while True:
        t = cur.test
        if not (isinstance(t, ast.Compare) and isinstance(t.left, ast.Name) and t.left.id == n.target.id and len(t.ops) == 1
                and isinstance(t.ops[0], ast.Eq) and isinstance(t.comparators[0], ast.Constant)):
            return False
        arms.append(cur.body)
        if len(cur.orelse) == 1 and isinstance(cur.orelse[0], ast.If):
            cur = cur.orelse[0]
            continue
        arms.append(cur.orelse)
        break
    bound = []
    for arm in arms:
        b = set()
        for s in arm:
            for x in ast.walk(s):
                if isinstance(x, (ast.AugAssign, ast.Global, ast.Nonlocal)):
                    return False
                if isinstance(x, ast.Assign):
                    for tg in x.targets:
                        if not isinstance(tg, ast.Name):
                            return False
                        b.add(tg.id)
        bound.append(b)
    for i, arm in enumerate(arms):
        reads = {x.id for s in arm for x in ast.walk(s) if isinstance(x, ast.Name) and isinstance(x.ctx, ast.Load)}
        for j, b in enumerate(bound):
            if j != i and reads & b:
                return False
    return True


def _set_locals(f):
    """names of the function that are bound to a set: x = set(...), a set display/comprehension, or annotated Set[...]"""
    out = {}
    for x in ast.walk(f.node):
        tgt = val = ann = None
        if isinstance(x, ast.Assign) and len(x.targets) == 1 and isinstance(x.targets[0], ast.Name):
            tgt, val = x.targets[0].id, x.value
        elif isinstance(x, ast.AnnAssign) and isinstance(x.target, ast.Name):
            tgt, val, ann = x.target.id, x.value, ast.unparse(x.annotation)
        if tgt is None:
            continue
        is_set = isinstance(val, (ast.Set, ast.SetComp)) or (
            isinstance(val, ast.Call) and isinstance(val.func, ast.Name) and val.func.id in ('set', 'frozenset')) or (
            ann is not None and re.match(r'^(typing\.)?(Set|FrozenSet|set|frozenset)\b', ann) is not None)
        if is_set:
            out[tgt] = x
        elif tgt in out and val is not None:
            del out[tgt]          # rebound to something else (e.g. x = sorted(x))
    return out


def set_order_rule(R, mods):
    """A set has no defined iteration order across interpreter runs (string hashing is seeded per process): whatever is
    computed by walking one must be order-free, or walk sorted(set)."""
    for m in mods:
        modn = m.rel.split('/')[-1][:-3]
        for q, f in m.funcs.items():
            sets = _set_locals(f)
            if not sets:
                continue
            parents = {}
            for p in ast.walk(f.node):
                for ch in ast.iter_child_nodes(p):
                    parents[ch] = p
            for n in ast.walk(f.node):
                it = None
                if isinstance(n, ast.For):
                    it = n.iter
                elif isinstance(n, ast.comprehension):
                    it = n.iter
                elif isinstance(n, ast.Call) and isinstance(n.func, ast.Attribute) and n.func.attr == 'join' and len(n.args) == 1:
                    it = n.args[0]
                elif isinstance(n, ast.Call) and isinstance(n.func, ast.Name) and n.func.id in ('list', 'tuple', 'enumerate') and len(n.args) >= 1:
                    it = n.args[0]
                if isinstance(n, ast.Call) and isinstance(n.func, ast.Name) and n.func.id == 'sorted' and n.args and \
                        isinstance(n.args[0], ast.Name) and n.args[0].id in sets:
                    R.instance('R1-set', '%s.%s:sorted(%s)' % (modn, q, n.args[0].id), m.loc(n))
                    continue
                if not (isinstance(it, ast.Name) and it.id in sets):
                    continue
                c = '%s.%s:walk(%s)' % (modn, q, it.id)
                R.instance('R1-set', c, m.loc(n if hasattr(n, 'lineno') else it))
                if isinstance(n, ast.For):
                    # order-free bodies: only set.add / dict[key] = value / counters by constants
                    free = True
                    for x in ast.walk(ast.Module(body=n.body, type_ignores=[])):
                        if isinstance(x, ast.Call):
                            fn = x.func
                            if isinstance(fn, ast.Attribute) and fn.attr in ('add', 'discard', 'update') :
                                continue
                            if isinstance(fn, ast.Name) and fn.id in ORDER_FREE_CONSUMERS | {'isinstance', 'int', 'str'}:
                                continue
                            free = False
                        elif isinstance(x, ast.AugAssign) and not isinstance(x.value, ast.Constant):
                            free = False
                    if free:
                        continue
                    if c in SET_WALK_OK and _is_dispatch_loop(n):
                        R.exception('R1-set', c, SET_WALK_OK[c])
                        continue
                else:
                    # a comprehension / join / list() is fine when an order-free consumer takes it directly
                    holder = n
                    if isinstance(n, ast.comprehension):
                        holder = next(p for p in ast.walk(f.node) if isinstance(p, (ast.ListComp, ast.GeneratorExp, ast.SetComp, ast.DictComp)) and n in p.generators)
                        if isinstance(holder, (ast.SetComp, ast.DictComp)):
                            continue
                    par = parents.get(holder)
                    if isinstance(par, ast.Call) and isinstance(par.func, ast.Name) and par.func.id in ORDER_FREE_CONSUMERS and holder in par.args:
                        continue
                R.violation('R1-set', c, m.loc(it), 'the set %s is walked without sorted() and what is computed depends on the order of the walk: '
                            'the generated text differs between interpreter runs (per-process string hash seed)' % it.id)


def shared_state_rule(R, mods):
    """Two compilations in one process must not see each other: a mutable container bound at class level is one object
    shared by every instance, so a generator that fills it through self keeps the entries of the previous compilation."""
    MUT = ('append', 'extend', 'insert', 'update', 'add', 'setdefault', 'pop', 'clear', 'remove')
    for m in mods:
        modn = m.rel.split('/')[-1][:-3]
        for cname, cnode in m.classes.items():
            shared = {}
            for s in cnode.body:
                tgt = val = None
                if isinstance(s, ast.Assign) and len(s.targets) == 1 and isinstance(s.targets[0], ast.Name):
                    tgt, val = s.targets[0].id, s.value
                elif isinstance(s, ast.AnnAssign) and isinstance(s.target, ast.Name) and s.value is not None:
                    tgt, val = s.target.id, s.value
                if tgt is None:
                    continue
                if isinstance(val, (ast.Dict, ast.List, ast.Set, ast.DictComp, ast.ListComp, ast.SetComp)) or (
                        isinstance(val, ast.Call) and ast.unparse(val.func).split('.')[-1] in ('dict', 'list', 'set', 'OrderedDict', 'defaultdict')):
                    shared[tgt] = s
            rebinds = set()
            for q, f in m.funcs.items():
                if f.cls == cname and q.endswith('.__init__'):
                    for x in ast.walk(f.node):
                        if isinstance(x, (ast.Assign, ast.AnnAssign)):
                            for t in (x.targets if isinstance(x, ast.Assign) else [x.target]):
                                if isinstance(t, ast.Attribute) and isinstance(t.value, ast.Name) and t.value.id == 'self':
                                    rebinds.add(t.attr)
            c0 = '%s.%s:class-attributes' % (modn, cname)
            R.instance('R7', c0, m.loc(cnode))
            for name, node in sorted(shared.items()):
                if name in rebinds:
                    continue
                for q, f in m.funcs.items():
                    if f.cls != cname:
                        continue
                    hit = None
                    for x in ast.walk(f.node):
                        def is_self_attr(n):
                            return isinstance(n, ast.Attribute) and n.attr == name and isinstance(n.value, ast.Name) and n.value.id == 'self'
                        if isinstance(x, ast.Subscript) and isinstance(x.ctx, ast.Store) and is_self_attr(x.value):
                            hit = x
                        elif isinstance(x, ast.Call) and isinstance(x.func, ast.Attribute) and x.func.attr in MUT and is_self_attr(x.func.value):
                            hit = x
                        elif isinstance(x, ast.AugAssign) and is_self_attr(x.target):
                            hit = x
                    if hit is not None:
                        R.violation('R7', '%s.%s.%s' % (modn, cname, name), m.loc(hit),
                                    '%s.%s is a mutable container bound at class level and %s() fills it through self: every instance in the process '
                                    'shares it, so a second compilation starts with the tables of the first' % (cname, name, q.split('.')[-1]))
                        break


def placeholders(text):
    out = set()
    i = 0
    for mm in re.finditer(r'\{\{|\}\}|\{(\w+)(?:[:!][^{}]*)?\}', text):
        if mm.group(1):
            out.add(mm.group(1))
    return out


def template_rule(R, mods):
    for m in mods:
        modn = m.rel.split('/')[-1][:-3]
        for q, f in m.funcs.items():
            for n in ast.walk(f.node):
                if isinstance(n, ast.Call) and isinstance(n.func, ast.Attribute) and n.func.attr == 'format' and isinstance(n.func.value, ast.Attribute) \
                        and isinstance(n.func.value.value, ast.Name) and n.func.value.value.id == 'self' and f.cls:
                    tname = n.func.value.attr
                    tv = m.class_consts.get('%s.%s' % (f.cls, tname))
                    if not (isinstance(tv, ast.Constant) and isinstance(tv.value, str)):
                        continue
                    c = '%s.%s:%s.format' % (modn, q, tname)
                    R.instance('R2', c, m.loc(n))
                    if any(k.arg is None for k in n.keywords):
                        continue
                    need = placeholders(tv.value)
                    have = {k.arg for k in n.keywords}
                    if n.args:
                        R.violation('R2', c, m.loc(n), 'positional arguments are passed to a template with named placeholders')
                    elif need - have:
                        R.violation('R2', c, m.loc(n), 'template %s has placeholder(s) %s that format() does not receive: KeyError at generation time' % (tname, sorted(need - have)))


KIND_WORDS = (('rules', ('rule',)), ('eras', ('era',)), ('policies', ('polic',)), ('links', ('link',)), ('zones', ('zone', 'info')))
CAT_WORDS = (('removed', ('unsupported', 'removed')), ('notable', ('notable',)), ('supported', ('supported',)))
SKIP_WORDS = ('memory', 'string', 'byte', 'size', 'letter')


def _files(cfg, R, kind, db):
    from .genrender import generate_files, GENERATORS
    from .pyeval import Raised
    rel, cls = GENERATORS[kind]
    m = py.load(cfg, rel)
    f = m.fn(cls + '.generate_files')
    try:
        return f, generate_files(cfg, kind, db)
    except Raised as r_:
        return f, r_


def rendered_counts(cfg, R):
    """R4 on the files the generators write for the tagged database (E-SEQ, acv/genrender.py): the sizes of all its
    collections differ, so a number tells which collection was counted.  Every "<words>: N" comment heading, every
    `N /*numX*/` cell and kZoneRegistrySize must carry the size of the collection its words name (zones / links /
    policies / rules / eras; removed or notable where the heading says so); a count rendered inside the item of one
    zone or policy must be that zone's or policy's own count."""
    from .genrender import tagged_db, sizes
    db = tagged_db('extended')
    sz = sizes(db)
    per = {'eras': {n: len(v) for n, v in db['zones_map'].items()}, 'rules': {n: len(v) for n, v in db['rules_map'].items()},
           'letters': {n: len({r['letter'] for r in v if len(r['letter']) > 1}) for n, v in db['rules_map'].items()}}
    owners = {'eras': list(db['zones_map']), 'rules': list(db['rules_map']), 'letters': list(db['rules_map'])}

    def kind_of(words):
        w = words.lower()
        if any(s in w for s in SKIP_WORDS):
            return None
        for k, ws in KIND_WORDS:
            if any(x in w for x in ws):
                return k
        return None

    def cat_of(words):
        w = words.lower()
        for c_, ws in CAT_WORDS:
            if any(x in w for x in ws):
                return c_
        return None
    for gen in ('arduino', 'python', 'zonelist'):
        f, files = _files(cfg, R, gen, db)
        if not isinstance(files, dict):
            R.instance('R4', '%s:generate_files' % gen, f.loc)
            R.violation('R4', '%s:generate_files' % gen, f.loc, 'writing the files of the tagged database raises %s' % files.what)
            continue
        for fname, text in sorted(files.items()):
            lines = text.split('\n')
            cxx = fname.endswith(('.h', '.cpp'))
            owner = {'zones': None, 'policies': None}
            prose = None
            for i, ln in enumerate(lines):
                for n in db['zones_map']:
                    if n in ln or normalize_name(n) in ln:
                        owner['zones'] = n         # the item being rendered: the zone / policy named last
                for n in db['rules_map']:
                    if n in ln:
                        owner['policies'] = n
                found = []
                m = re.match(r'^\s*(?://|#)\s*([A-Za-z][A-Za-z ()-]*?):\s*(\d+)\s*$', ln)
                if m:
                    found.append((m.group(1), int(m.group(2)), True))
                for m in re.finditer(r'(\d+)\s*/\*\s*(num\w+)\s*\*/', ln):
                    found.append((m.group(2), int(m.group(1)), False))
                m = re.search(r'kZoneRegistrySize\s*=\s*(\d+)', ln)
                if m:
                    found.append(('zone registry size', int(m.group(1)), False))
                m = re.search(r'kZoneRegistry\[(\d+)\]', ln)
                if m:
                    found.append(('zone registry rows', int(m.group(1)), False))
                for words, v, heading in found:
                    k = kind_of(words)
                    if 'letter' in words.lower() and not heading:
                        k = 'letters'
                    if k is None:
                        continue
                    c = '%s:%s:%s' % (gen, fname, re.sub(r'\s+', '', words))
                    R.instance('R4', c, f.loc, 'line %d: %s' % (i + 1, ln.strip()[:60]))
                    cat = cat_of(words) or 'supported'
                    if k in ('eras', 'rules', 'letters'):
                        own = owner['zones' if k == 'eras' else 'policies']
                        in_item = own is not None
                        want = per[k][own] if in_item else sz.get(('supported', k))
                        where = ('of %s' % own) if in_item else 'in total'
                        if v != want:
                            R.violation('R4', c, f.loc, '%s line %d "%s": the tagged database has %s %s %s' % (fname, i + 1, ln.strip()[:70], want, k, where))
                        continue
                    want = sz.get((cat, k))
                    if not cxx and cat_of(words) is None and v in [n_ for (c_, k_), n_ in sz.items() if k_ == k]:
                        continue        # "# numInfos: N" under a prose paragraph: the category is not in the heading itself
                    if v != want:
                        which = [('%s %s' % ck) for ck, n_ in sz.items() if n_ == v]
                        R.violation('R4', c, f.loc, '%s line %d "%s": the %s %s of the tagged database number %s%s' % (
                            fname, i + 1, ln.strip()[:70], cat, k, want, (', %d is the number of %s' % (v, ' / '.join(which))) if which else ''))


def rendered_order(cfg, R):
    """R1 on the rendered files: the tagged database filled in the reverse order must give the same files, byte for byte."""
    from .genrender import tagged_db, permuted
    for gen in ('arduino', 'python', 'zonelist'):
        for scope in ('basic', 'extended'):
            db = tagged_db(scope)
            f, a = _files(cfg, R, gen, db)
            _f, b = _files(cfg, R, gen, permuted(db))
            c = '%s:generate_files:insertion-order[%s]' % (gen, scope)
            R.instance('R1', c, f.loc)
            if not isinstance(a, dict) or not isinstance(b, dict):
                x = a if not isinstance(a, dict) else b
                R.violation('R1', c, f.loc, 'writing the files of the tagged database raises %s' % x.what)
                continue
            for fname in sorted(a):
                if a[fname] != b.get(fname):
                    la, lb = a[fname].split('\n'), (b.get(fname) or '').split('\n')
                    k = next((i for i, (x, y) in enumerate(zip(la, lb)) if x != y), min(len(la), len(lb)))
                    R.violation('R1', c, f.loc, '%s differs when the maps of the database are filled in the reverse order: line %d is %r in one and %r in the other: '
                                'the output order follows the insertion order of the input' % (fname, k + 1, la[k][:70] if k < len(la) else '', lb[k][:70] if k < len(lb) else ''))
                    break


def inline_rule(cfg, R):
    """R3 by interpretation (E-SEQ over the Python ast): InlineGenerator.generate_maps() builds its in-memory tables from the
    tagged database (whose truncated and untruncated fields differ), PythonGenerator writes zone_policies.py / zone_infos.py
    for the same database and the files are read back with the table reader; every rule and every era must carry the same
    value under every key of the ZoneRule / ZoneEra TypedDicts on both sides (a policy reference by the policy it names)."""
    from .pyeval import PyEval, Raised
    from .genrender import tagged_db, generate_files
    ev = PyEval(cfg)
    ing = ev.module('tools/zonedb/ingenerator.py')
    zs = py.load(cfg, 'tools/zonedb/zone_specifier.py')
    db = tagged_db('extended')
    # one policy gets a name that normalize_name() rewrites (the TZ database has 'C-Eur', 'E-EurAsia', ...), so that "which of the
    # two spellings ends up in the table" is visible
    db['rules_map'] = {('Pol-B' if k == 'PolB' else k): v for k, v in db['rules_map'].items()}
    for es_ in db['zones_map'].values():
        for e_ in es_:
            if e_['rules'] == 'PolB':
                e_['rules'] = 'Pol-B'
    init = ing.fn('InlineGenerator.__init__')
    gm = ing.fn('InlineGenerator.generate_maps')
    kwargs = {}
    for p_ in init.params[1:]:
        if p_ not in db:
            raise AnalysisError('%s: constructor parameter %s is not part of the tagged database' % (init.loc, p_))
        kwargs[p_] = db[p_]
    try:
        obj = ev.instantiate(ing, 'InlineGenerator', kwargs=kwargs)
        maps = ev.call(ing, 'InlineGenerator.generate_maps', recv=obj)
        files = generate_files(cfg, 'python', db)
    except Raised as r_:
        R.instance('R3', 'ingenerator~pygenerator:tables', gm.loc)
        R.violation('R3', 'ingenerator~pygenerator:tables', gm.loc, 'building the tables of the tagged database raises %s (%s)' % (r_.what, r_.loc))
        return
    if not (isinstance(maps, (tuple, list)) and len(maps) == 2 and all(isinstance(x, dict) for x in maps)):
        raise AnalysisError('%s: generate_maps() does not return (zone_infos, zone_policies)' % gm.loc)
    zinfos, zpols = maps
    P = tables.PyTables(cfg, texts=files)
    for tname, what in (('ZoneRule', 'rule'), ('ZoneEra', 'era')):
        keys = ing.typed_dict_keys(tname)
        c0 = 'ingenerator~pygenerator:%s:keys' % tname
        R.instance('R3', c0, gm.loc)
        pairs = []          # (where, in-memory record, file record)
        if what == 'rule':
            for pname, rules in db['rules_map'].items():
                norm = normalize_name(pname)
                mem = (zpols.get(norm) or {}).get('rules') if isinstance(zpols.get(norm), dict) else None
                fil = P.rules.get('ZONE_RULES_' + norm)
                if mem is None or fil is None or len(mem) != len(rules) or len(fil) != len(rules):
                    R.violation('R3', c0, gm.loc, 'policy %s: %s rules in memory, %s in the generated file, %d in the database' % (
                        pname, None if mem is None else len(mem), None if fil is None else len(fil), len(rules)))
                    continue
                pairs += [('%s rule %d' % (pname, i), m_, f_) for i, (m_, f_) in enumerate(zip(mem, fil))]
        else:
            for zname, eras in db['zones_map'].items():
                norm = normalize_name(zname)
                mem = (zinfos.get(zname) or {}).get('eras') if isinstance(zinfos.get(zname), dict) else None
                fil = P.eras.get('ZONE_ERAS_' + norm)
                if mem is None or fil is None or len(mem) != len(eras) or len(fil) != len(eras):
                    R.violation('R3', c0, gm.loc, 'zone %s: %s eras in memory, %s in the generated file, %d in the database' % (
                        zname, None if mem is None else len(mem), None if fil is None else len(fil), len(eras)))
                    continue
                pairs += [('%s era %d' % (zname, i), m_, f_) for i, (m_, f_) in enumerate(zip(mem, fil))]
        badk = next(((w, sorted(m_), sorted(f_.cells if hasattr(f_, 'cells') else f_)) for w, m_, f_ in pairs
                     if set(m_) != set(keys) or set(f_.cells if hasattr(f_, 'cells') else f_) != set(keys)), None)
        if badk:
            R.violation('R3', c0, gm.loc, '%s: InlineGenerator builds keys %s, the generated file has %s, TypedDict %s declares %s' % (badk[0], badk[1], badk[2], tname, sorted(keys)))
        for k in keys:
            c = 'ingenerator~pygenerator:%s.%s' % (tname, k)
            R.instance('R3', c, gm.loc)
            for w, m_, f_ in pairs:
                a_ = m_.get(k) if isinstance(m_, dict) else None
                b_ = f_.get(k) if hasattr(f_, 'get') else None
                if k == 'zonePolicy':
                    a_ = ('ZONE_POLICY_' + normalize_name(a_['name'])) if isinstance(a_, dict) and 'name' in a_ else a_
                    b_ = b_.name if isinstance(b_, Ref) else b_
                if a_ != b_:
                    R.violation('R3', c, gm.loc, '%s: the in-memory table has %s = %r, the generated file %r' % (w, k, a_, b_))
                    break
        # the record that owns the list: every other key of its TypedDict (today: 'name') equal on both sides
        oname = 'ZonePolicy' if what == 'rule' else 'ZoneInfo'
        okeys = ing.typed_dict_keys(oname)
        owners = []
        if what == 'rule':
            for pname in db['rules_map']:
                norm = normalize_name(pname)
                owners.append(('policy %s' % pname, zpols.get(norm), P.policies.get('ZONE_POLICY_' + norm), P.policy_map.get(norm), 'ZONE_POLICY_' + norm))
        else:
            for zname in db['zones_map']:
                norm = normalize_name(zname)
                owners.append(('zone %s' % zname, zinfos.get(zname), P.infos.get('ZONE_INFO_' + norm), P.info_map.get(zname), 'ZONE_INFO_' + norm))
        c1 = 'ingenerator~pygenerator:%s:keys' % oname
        R.instance('R3', c1, gm.loc)
        for w, m_, f_, ref_, sym in owners:
            if not isinstance(m_, dict) or f_ is None:
                R.violation('R3', c1, gm.loc, '%s: %s' % (w, 'missing from the in-memory map' if not isinstance(m_, dict) else 'missing from the generated file'))
                break
            if not (isinstance(ref_, Ref) and ref_.name == sym):
                R.violation('R3', c1, gm.loc, '%s: the map of the generated file has %r under the key the in-memory map uses, expected %s' % (w, ref_, sym))
                break
            fk = set(f_.cells if hasattr(f_, 'cells') else f_)
            if set(m_) != set(okeys) or fk != set(okeys):
                R.violation('R3', c1, gm.loc, '%s: InlineGenerator builds keys %s, the generated file has %s, TypedDict %s declares %s' % (w, sorted(m_), sorted(fk), oname, sorted(okeys)))
                break
        for k in okeys:
            if k in ('rules', 'eras'):
                continue
            c = 'ingenerator~pygenerator:%s.%s' % (oname, k)
            R.instance('R3', c, gm.loc)
            for w, m_, f_, ref_, sym in owners:
                if not isinstance(m_, dict) or f_ is None:
                    continue
                a_, b_ = m_.get(k), (f_.get(k) if hasattr(f_, 'get') else None)
                if a_ != b_:
                    R.violation('R3', c, gm.loc, '%s: the in-memory table has %s = %r, the generated file %r' % (w, k, a_, b_))
                    break
        cooked = tname + 'Cooked'
        if cooked in zs.classes:
            slots = zs.class_consts.get('%s.__slots__' % cooked)
            sl = [e.value for e in slots.elts] if isinstance(slots, (ast.List, ast.Tuple)) else []
            c = 'zone_specifier.%s.__slots__' % cooked
            R.instance('R3', c, zs.loc(zs.classes[cooked]))
            if not set(keys) <= set(sl):
                R.violation('R3', c, zs.loc(zs.classes[cooked]), '%s.__slots__ lacks %s' % (cooked, sorted(set(keys) - set(sl))))


def py_entries(R, rid, P, prefix, delta_gran=60, offset_gran=60):
    """every rule and era entry of Python tables (checked in, or rendered by the checker) against the TZ line recorded above it"""
    for arr, entries in P.rules.items():
        for e in entries:
            c = '%s:%s[%d]' % (prefix, arr, e.index)
            R.instance(rid, c, e.loc)
            try:
                ln = tzline.parse_rule(e.comment)
            except tzline.LineError as x:
                R.violation(rid, c, e.loc, 'recorded line is not a Rule line (%s)' % x)
                continue
            if ln['anchor']:
                want = dict(fromYear=0, toYear=0, inMonth=1, onDayOfWeek=0, onDayOfMonth=1, atSeconds=0, atTimeSuffix='w', deltaSeconds=0, letter=ln['letter'])
            else:
                want = dict(fromYear=ln['from_year'], toYear=ln['to_year'], inMonth=ln['month'], onDayOfWeek=ln['dow'], onDayOfMonth=ln['dom'],
                            atSeconds=tzline.trunc_to(ln['at_seconds'], 60), atTimeSuffix=ln['at_suffix'], deltaSeconds=tzline.trunc_to(ln['save_seconds'], delta_gran),
                            letter=ln['letter'])
            bad = ['%s=%r (line says %r)' % (k, e.get(k), v) for k, v in want.items() if e.get(k) != v]
            if 'ZONE_RULES_' + normalize_name(ln['name']) != arr:
                bad.append('rule of policy %r stored under %s' % (ln['name'], arr))
            if bad:
                R.violation(rid, c, e.loc, '; '.join(bad))
    for arr, entries in P.eras.items():
        for e in entries:
            c = '%s:%s[%d]' % (prefix, arr, e.index)
            R.instance(rid, c, e.loc)
            try:
                ln = tzline.parse_era(e.comment)
            except tzline.LineError as x:
                R.violation(rid, c, e.loc, 'recorded line is not an era line (%s)' % x)
                continue
            fixed = ln['rules'][1] if isinstance(ln['rules'], tuple) and ln['rules'][0] == 'fixed' else 0
            want = dict(offsetSeconds=tzline.trunc_to(ln['offset_seconds'], offset_gran), rulesDeltaSeconds=tzline.trunc_to(fixed, delta_gran), format=ln['format'],
                        untilYear=10000 if ln['until_year'] is None else ln['until_year'], untilMonth=ln['until_month'], untilDay=ln['until_day'],
                        untilSeconds=tzline.trunc_to(ln['until_seconds'], 60), untilTimeSuffix=ln['until_suffix'])
            bad = ['%s=%r (line says %r)' % (k, e.get(k), v) for k, v in want.items() if e.get(k) != v]
            pol = e.get('zonePolicy')
            if isinstance(ln['rules'], tuple) and ln['rules'][0] == 'policy':
                wantp = 'ZONE_POLICY_' + normalize_name(ln['rules'][1])
                if not (isinstance(pol, Ref) and pol.name == wantp):
                    bad.append('zonePolicy=%r (line says %s)' % (pol, wantp))
                elif wantp not in P.policies:
                    bad.append('policy %s is not defined' % wantp)
            else:
                wantv = '-' if ln['rules'] == '-' else ':'
                if pol != wantv:
                    bad.append('zonePolicy=%r (line says %r)' % (pol, wantv))
            if bad:
                R.violation(rid, c, e.loc, '; '.join(bad))


def pydb_rule(cfg, R):
    P = tables.PyTables(cfg)
    hdr = P.header
    # header counts
    checks = (('infos:numInfos', len(P.infos), 0), ('infos:numEras', sum(len(v) for v in P.eras.values()), 0),
              ('policies:numPolicies', len(P.policies), 0), ('policies:numRules', sum(len(v) for v in P.rules.values()), 0))
    for key, actual, idx in checks:
        c = 'zonedbpy:%s' % key
        R.instance('R6', c, 'tools/zonedbpy')
        v = hdr.get(key, [None])
        if not v or v[idx] != actual:
            R.violation('R6', c, 'tools/zonedbpy', 'header says %s, the file defines %d' % (v[idx] if v else None, actual))
    R.instance('R6', 'zonedbpy:ZONE_INFO_MAP', P.info_map_loc)
    if len(P.info_map) != len(P.infos):
        R.violation('R6', 'zonedbpy:ZONE_INFO_MAP', P.info_map_loc, '%d map entries for %d zone infos' % (len(P.info_map), len(P.infos)))
    for name, ref in P.info_map.items():
        c = 'zonedbpy:ZONE_INFO_MAP[%s]' % name
        R.instance('R6', c, P.info_map_loc)
        if not isinstance(ref, Ref) or ref.name not in P.infos:
            R.violation('R6', c, P.info_map_loc, 'entry does not reference a ZONE_INFO_* definition')
            continue
        info = P.infos[ref.name]
        if info['name'] != name or ref.name != 'ZONE_INFO_' + normalize_name(name):
            R.violation('R6', c, info.loc, 'map key %r points to %s whose name field is %r' % (name, ref.name, info['name']))
        er = info['eras']
        if not isinstance(er, Ref) or er.name not in P.eras or er.name != 'ZONE_ERAS_' + normalize_name(name):
            R.violation('R6', c, info.loc, 'eras field does not reference the era list of this zone')
    for name, ref in P.policy_map.items():
        c = 'zonedbpy:ZONE_POLICY_MAP[%s]' % name
        R.instance('R6', c, P.policy_map_loc)
        if not isinstance(ref, Ref) or ref.name not in P.policies or P.policies[ref.name]['name'] != name:
            R.violation('R6', c, P.policy_map_loc, 'entry does not reference the ZONE_POLICY_* definition of that name')
    py_entries(R, 'R6', P, 'zonedbpy')
    # basic subset of extended (C++ databases)
    B = tables.CxxTables(cfg, 'zonedb')
    X = tables.CxxTables(cfg, 'zonedbx')
    R.instance('R6', 'zonedb<=zonedbx', B.registry_loc)
    missing = sorted(set(B.names()) - set(X.names()))
    if missing:
        R.violation('R6', 'zonedb<=zonedbx', B.registry_loc, 'basic zones missing from the extended database: %s' % missing[:5])


SELFTEST = [
    dict(id='unsorted-registry-loop', file='tools/zonedb/argenerator.py', unique=False, nth=0,
         find='        for zone_name, eras in sorted(self.zones_map.items()):\n            info_items += self.ZONE_INFOS_H_INFO_ITEM.format(',
         replace='        for zone_name, eras in self.zones_map.items():\n            info_items += self.ZONE_INFOS_H_INFO_ITEM.format(', rule='R1'),
    dict(id='unsorted-python-policy-loop', file='tools/zonedb/pygenerator.py',
         find='        for name, rules in sorted(rules_map.items()):\n            policy_items +=', replace='        for name, rules in rules_map.items():\n            policy_items +=', rule='R1'),
    dict(id='inline-maps-at-class-level', file='tools/zonedb/ingenerator.py', edits=[
        dict(file='tools/zonedb/ingenerator.py', find='    def __init__(self, zones_map: ZonesMap, rules_map: RulesMap):',
             replace='    zone_infos: ZoneInfoMap = {}\n    zone_policies: ZonePolicyMap = {}\n\n    def __init__(self, zones_map: ZonesMap, rules_map: RulesMap):'),
        dict(file='tools/zonedb/ingenerator.py', find='        self.zone_infos: ZoneInfoMap = {}\n        self.zone_policies: ZonePolicyMap = {}\n', replace='')],
         rule='R7'),
    dict(id='inline-maps-declared-and-rebound-silent', file='tools/zonedb/ingenerator.py',
         find='    def __init__(self, zones_map: ZonesMap, rules_map: RulesMap):',
         replace='    zone_infos: ZoneInfoMap = {}\n    zone_policies: ZonePolicyMap = {}\n\n    def __init__(self, zones_map: ZonesMap, rules_map: RulesMap):', expect='silent'),
    dict(id='letters-set-walked-unsorted', file='tools/zonedb/argenerator.py', find='            for letter in sorted(letters):', replace='            for letter in letters:', rule='R1-set'),
    dict(id='letters-set-listed-unsorted', file='tools/zonedb/argenerator.py', find='            for letter in sorted(letters):', replace='            for letter in list(letters):', rule='R1-set'),
    dict(id='actions-dispatch-carries-state', file='tools/tzcompiler.py', find="        elif action == 'tzdb':\n            logging.info('======== Creating JSON zonedb files')",
         replace="        elif action == 'tzdb':\n            invocation += ' tzdb'\n            logging.info('======== Creating JSON zonedb files')", rule='R1-set'),
    dict(id='letters-sorted-with-key-silent', file='tools/zonedb/argenerator.py', find='            for letter in sorted(letters):', replace='            for letter in sorted(letters, key=str):', expect='silent'),
    dict(id='placeholder-without-argument', file='tools/zonedb/pygenerator.py', find='            numEras=num_eras,\n', replace='', rule='R2'),
    dict(id='inline-uses-untruncated-field', file='tools/zonedb/ingenerator.py', find="                    'atSeconds': rule['atSecondsTruncated'],", replace="                    'atSeconds': rule['atSeconds'],", rule='R3'),
    dict(id='inline-policy-carries-raw-name', file='tools/zonedb/ingenerator.py', find="                'name': normalized_name,", replace="                'name': name,", rule='R3'),
    dict(id='inline-info-named-by-symbol', file='tools/zonedb/ingenerator.py', find="{'name': zone_name, 'eras': zone_eras}", replace="{'name': normalize_name(zone_name), 'eras': zone_eras}", rule='R3'),
    dict(id='inline-policy-name-through-local-silent', file='tools/zonedb/ingenerator.py', find="                'name': normalized_name,", replace="                'name': normalize_name(name),", expect='silent'),
    dict(id='file-generator-crosses-fields', file='tools/zonedb/pygenerator.py', find="            untilMonth=era['untilMonth'],", replace="            untilMonth=era['untilDay'],", rule='R3'),
    dict(id='counter-of-other-collection', file='tools/zonedb/argenerator.py', find='            numLinks=len(self.links_map),', replace='            numLinks=len(self.zones_map),', rule='R4'),
    dict(id='counter-of-unrendered-collection', file='tools/zonedb/argenerator.py', find='            numRemovedLinks=len(self.removed_links),', replace='            numRemovedLinks=len(self.removed_policies),', rule='R4'),
    dict(id='pydb-header-count', file='tools/zonedbpy/zone_infos.py', find='# numEras: 668', replace='# numEras: 667', rule='R6'),
    dict(id='pydb-cell-changed', file='tools/zonedbpy/zone_policies.py', regex=True, unique=False, nth=0, find=r"'atSeconds': 7200,", replace="'atSeconds': 3600,", rule='R6'),
    dict(id='pydb-map-crossed', file='tools/zonedbpy/zone_infos.py', find="    'Africa/Accra': ZONE_INFO_Africa_Accra, # Africa/Accra", replace="    'Africa/Accra': ZONE_INFO_Africa_Algiers, # Africa/Accra", rule='R6'),
    dict(id='zone-list-skips-names-without-slash', file='tools/zonedb/zonelistgenerator.py',
         find="        for name, eras in sorted(self.zones_map.items()):\n            zone_strings += name + '\\n'",
         replace="        for name, eras in sorted(self.zones_map.items()):\n            if '/' not in name:\n                continue\n            zone_strings += name + '\\n'", rule='R9'),
    dict(id='sorted-with-key-silent', file='tools/zonedb/zonelistgenerator.py', find='        for name, eras in sorted(self.zones_map.items()):', replace='        for name, eras in sorted(self.zones_map.items(), key=lambda kv: kv[0]):', expect='silent'),
]
