"""C19 - reference-data generators (structural clauses): rendered field order/units against testing::ValidationItem,
TestItem schema discipline, agreement of the two generator copies, bracket pairs and samples."""
import ast
import re

from .common import AnalysisError, Report
from . import cxx, py

META = {
    'explanation': 'E-SEQ over the Python ast (acv/pyeval.py). ArduinoValidationGenerator.generate_files() is interpreted on tagged '
                   'TestData; every initialiser of the validation_data.cpp it writes is read back and compared, member by member '
                   '(member order of testing::ValidationItem from the clang AST), with the item it was rendered from (seconds -> '
                   'minutes, quoted string or nullptr, char literal), numItems with the list length. Both reference-data '
                   'generators (compare_pytz, compare_dateutil) are interpreted with pytz / dateutil.tz replaced by the checker\'s '
                   'model library (acv/tzmodel.py: eight zones as period lists implementing tzinfo with folds, localize / normalize, '
                   'gettz / resolve_imaginary - yearly DST, a permanent shift at an odd minute, a DST-only change, negative DST, a '
                   'jump at local midnight on the first of a month, a shift at local New Year far east, a fixed zone), sampling '
                   'every 22 h and every 40 h: the items must be exactly those the model calls for and the same from both copies; '
                   '_add_test_item must refuse an item that repeats an epoch with any numeric field changed. ast rules for the '
                   'TestItem schema (keys constructed == declared, subscripts only).',
    'decided': 'rendering preserves every field in the order and unit the C++ struct expects; on the model library every transition '
               'inside the years gets a left and a right item one minute apart with the right tags, every month and year end gets its '
               'sample, every field is what the library reports at that instant, items are ordered by epoch, both copies agree; '
               'de-duplication compares every numeric field; schema discipline of TestItem',
    'not_decided': 'what the real pytz / dateutil report for the real zones (outside the repository); transitions closer together than '
                   'the sampling interval',
    'assumptions': ['CPython ast', 'clang 14 parser (member order of testing::ValidationItem)',
                    'the model of pytz / dateutil.tz in acv/tzmodel.py (PEP 495 folds; localize picks the non-DST reading of an ambiguous time)'],
}

ROLE = {'epoch': 'epochSeconds', 'total_offset': 'timeOffsetMinutes', 'dst_offset': 'deltaOffsetMinutes', 'y': 'year', 'M': 'month',
        'd': 'day', 'h': 'hour', 'm': 'minute', 's': 'second', 'abbrev': 'abbrev', 'type': 'type'}
SECONDS_KEYS = {'total_offset', 'dst_offset'}
ADAPTER_TOKENS = ('localize', 'normalize', 'resolve_imaginary', 'gettz', 'timezone(', 'UnknownTimeZoneError', '__version__', 'utc', 'UTC')


def run(cfg):
    R = Report('C19', cfg)
    lib = cxx.load_lib(cfg)
    R.analysed['translation_units'] = ['tu/lib.cpp']
    data = py.load(cfg, 'tools/validation/data.py')
    arv = py.load(cfg, 'tools/validation/arvalgenerator.py')
    gp = py.load(cfg, 'tools/compare_pytz/tdgenerator.py')
    gd = py.load(cfg, 'tools/compare_dateutil/tdgenerator.py')
    zst = py.load(cfg, 'tools/validator/zstdgenerator.py')
    R.analysed['python_modules'] = [data.rel, arv.rel, gp.rel, gd.rel, zst.rel]
    R.rule('R1', 'rendered ValidationItem initialisers carry, member by member, the values of the TestItem they are rendered from (seconds -> minutes, quoted string or nullptr, char type), numItems is the list length (files rendered from tagged items)', floor=13)
    R.rule('R2', 'TestItem keys constructed == declared == read (TypedDict subscripts / NamedTuple attributes)', floor=6)
    R.rule('R3', 'the pytz and dateutil generators produce the same items on every zone of the model library', floor=5)
    R.rule('R4', 'on the model library: a left and a right item around every transition, monthly and year-end samples for every year, every field as the model reports it, ordered by epoch; de-duplication compares all fields', floor=20)

    def ob(rid, c, loc, ok, msg):
        R.instance(rid, c, loc)
        if not ok:
            R.violation(rid, c, loc, msg)
    members = [n for n, _t, _x in lib.fields('ace_time::testing::ValidationItem')]
    declared = data.typed_dict_keys('TestItem')
    ob('R2', 'validation.data.TestItem', 'tools/validation/data.py', set(declared) == set(ROLE),
       'TestItem declares %s; the role map of the renderer knows %s' % (sorted(declared), sorted(ROLE)))
    # ---- R1 by rendering (E-SEQ over the Python ast): the generator writes its files for a tagged TestData; every
    # initialiser of validation_data.cpp is read back and compared, member by member, with the item it was rendered from
    from .pyeval import PyEval, Raised
    from .genrender import capture
    from .rules_C11 import normalize_name

    def item(epoch, tot, dst, y, mo, d, h, mi, s, ab, ty):
        return {'epoch': epoch, 'total_offset': tot, 'dst_offset': dst, 'y': y, 'M': mo, 'd': d, 'h': h, 'm': mi, 's': s, 'abbrev': ab, 'type': ty}
    tdata = {'Tag/Zone-A': [item(7000001, -28800, 0, 2001, 2, 3, 4, 5, 6, 'PQT', 'A'), item(7000061, -25200, 3600, 2002, 7, 8, 9, 10, 11, 'PQDT', 'B'),
                            item(7100000, -12600, -1800, 2003, 12, 13, 14, 15, 16, None, 'S')],
             'Tag/B': [item(-5, 19800, 0, 1999, 11, 30, 23, 59, 55, '+0530', 'Y')]}
    f = arv.fn('ArduinoValidationGenerator.generate_files')
    ev = PyEval(cfg)
    files = capture(ev)
    vals = dict(invocation='tag-invocation', tz_version='2099z', scope='extended', db_namespace='tagdb', blacklist={},
                validation_data={'start_year': 2000, 'until_year': 2002, 'source': 'model', 'version': '0', 'has_valid_abbrev': True, 'has_valid_dst': True,
                                 'test_data': tdata})
    init = arv.fn('ArduinoValidationGenerator.__init__')
    for p_ in init.params[1:]:
        if p_ not in vals:
            raise AnalysisError('%s: constructor parameter %s is not part of the abstraction' % (init.loc, p_))
    try:
        obj = ev.instantiate(arv, 'ArduinoValidationGenerator', kwargs={p_: vals[p_] for p_ in init.params[1:]})
        ev.call(arv, 'ArduinoValidationGenerator.generate_files', ['OUT'], recv=obj)
    except Raised as r_:
        raise AnalysisError('%s: generating the validation files of the tagged data raises %s (%s)' % (f.loc, r_.what, r_.loc))
    cpp = [v for k, v in files.items() if k.endswith('_data.cpp')]
    if len(cpp) != 1:
        raise AnalysisError('%s: generate_files() writes %s: no single *_data.cpp' % (f.loc, sorted(files)))
    text = cpp[0]
    inv = {v: k for k, v in ROLE.items()}

    def want_token(it, member):
        k = inv.get(member)
        if k is None:
            return None
        v = it[k]
        if k in SECONDS_KEYS:
            return str(int(v / 60))
        if k == 'abbrev':
            return '"%s"' % v if v else 'nullptr'
        if k == 'type':
            return "'%s'" % v
        return str(v)
    blocks = {}
    for zn in tdata:
        m = re.search(r'kValidationItems%s\s*\[\s*\]\s*=\s*\{(.*?)\n\};' % re.escape(normalize_name(zn)), text, re.S)
        blocks[zn] = re.findall(r'\{\s*([^{}]*?)\s*\}', m.group(1)) if m else None
    for i_, m in enumerate(members):
        c = 'validation.arvalgenerator:ValidationItem.%s' % m
        R.instance('R1', c, f.loc)
        bad = None
        for zn, its in tdata.items():
            rows = blocks[zn]
            if rows is None or len(rows) != len(its):
                continue
            for it, row in zip(its, rows):
                toks = [x.strip() for x in row.split(',')]
                w = want_token(it, m)
                if i_ >= len(toks) or toks[i_] != w:
                    got = toks[i_] if i_ < len(toks) else '<nothing>'
                    src = [k for k in it if any(want_token(it, ROLE[k]) == got for _ in [0])]
                    bad = bad or 'position %d (member %s) of the initialiser {%s} is %s; the item has %s = %r, rendered %s%s' % (
                        i_, m, row.strip(), got, inv.get(m), it.get(inv.get(m)), w, (' - %s is the rendering of %s' % (got, src)) if src else '')
        if bad:
            R.violation('R1', c, f.loc, bad)
    ar_ok = all(blocks[zn] is not None and len(blocks[zn]) == len(its) and all(len(r_.split(',')) == len(members) for r_ in blocks[zn]) for zn, its in tdata.items())
    ob('R1', 'validation.arvalgenerator:ValidationItem:arity', f.loc, ar_ok,
       'the rendered arrays do not carry one initialiser of %d values per item: %s' % (len(members), {zn: (None if b is None else [len(r_.split(",")) for r_ in b]) for zn, b in blocks.items()}))
    ob('R1', 'validation.arvalgenerator:ValidationItem:type-literal', f.loc, all(b is not None and all(re.search(r"'.'\s*$", r_) for r_ in b) for b in blocks.values()),
       'the type is not rendered as a character literal')
    nums = {}
    for zn in tdata:
        m = re.search(r'kValidationData%s\s*=\s*\{\s*(\d+)\s*/\*\s*numItems\s*\*/' % re.escape(normalize_name(zn)), text)
        nums[zn] = int(m.group(1)) if m else None
    ob('R1', 'validation.arvalgenerator:numItems', f.loc, all(nums[zn] == len(its) for zn, its in tdata.items()),
       'numItems is not the length of the list that is rendered: %s for lists of %s items' % (nums, {zn: len(v) for zn, v in tdata.items()}))
    # ---- R2 schema
    for mod, name in ((gp, 'compare_pytz.tdgenerator'), (gd, 'compare_dateutil.tdgenerator')):
        cf = mod.fn('TestDataGenerator._create_test_item')
        dicts = [n for n in ast.walk(cf.node) if isinstance(n, ast.Return) and isinstance(n.value, ast.Dict)]
        # a dict display with constant keys is compared as written; one assembled from parts (**, a comprehension, a helper) is
        # decided by R4, which compares the interpreted items - keys and values - with the model
        literal = bool(dicts) and all(isinstance(k, ast.Constant) for k in dicts[0].value.keys)
        keys = [k.value for k in dicts[0].value.keys] if literal else []
        ob('R2', '%s._create_test_item' % name, cf.loc, (not literal) or sorted(keys) == sorted(declared), '_create_test_item builds keys %s, TestItem declares %s' % (sorted(keys), sorted(declared)))
        af = mod.fn('TestDataGenerator._add_test_item')
        reads = {x.slice.value for x in ast.walk(af.node) if isinstance(x, ast.Subscript) and isinstance(x.slice, ast.Constant) and isinstance(x.slice.value, str)}
        attrs = [x.attr for x in ast.walk(af.node) if isinstance(x, ast.Attribute) and isinstance(x.value, ast.Name) and x.value.id in ('item', 'current')]
        ob('R2', '%s._add_test_item' % name, af.loc, reads <= set(declared) and not attrs,
           '_add_test_item reads %s / attributes %s of a TestItem (a TypedDict must be subscripted with declared keys)' % (sorted(reads - set(declared)), attrs))
    # that the renderer reads every declared key (and no other) is decided by R1: each member is rendered from its key
    # zstdgenerator: its own NamedTuple
    zt = zst.consts.get('TestItem')
    zfields = []
    if isinstance(zt, ast.Call) and len(zt.args) == 2 and isinstance(zt.args[1], ast.List):
        zfields = [e.elts[0].value for e in zt.args[1].elts if isinstance(e, ast.Tuple)]
    if not zfields:
        raise AnalysisError('tools/validator/zstdgenerator.py: TestItem NamedTuple declaration not found')
    ctor = [n for n in ast.walk(zst.tree) if isinstance(n, ast.Call) and isinstance(n.func, ast.Name) and n.func.id == 'TestItem']
    for n in ctor:
        kws = [k.arg for k in n.keywords]
        ob('R2', 'validator.zstdgenerator:TestItem()', zst.loc(n), sorted(kws) == sorted(zfields) and not n.args,
           'TestItem(...) is built with %s, the NamedTuple declares %s' % (sorted(kws), sorted(zfields)))
    # every attribute read off a name that holds a TestItem - a parameter or local annotated TestItem, or bound to the result of a
    # look-up in a map of them next to such a name ('current') - wherever in the module the function stands
    holders = {'item', 'current'}
    for n in ast.walk(zst.tree):
        if isinstance(n, ast.arg) and n.annotation is not None and ast.unparse(n.annotation).strip('\'"') == 'TestItem':
            holders.add(n.arg)
        if isinstance(n, ast.AnnAssign) and isinstance(n.target, ast.Name) and ast.unparse(n.annotation).strip('\'"') == 'TestItem':
            holders.add(n.target.id)
    reads = [x for x in ast.walk(zst.tree) if isinstance(x, ast.Attribute) and isinstance(x.value, ast.Name) and x.value.id in holders and not x.attr.startswith('_')]
    if not reads:
        raise AnalysisError('tools/validator/zstdgenerator.py: no attribute of a TestItem is read any more (anchor moved)')
    attrs = {x.attr for x in reads}
    ob('R2', 'validator.zstdgenerator:TestItem.<field>', zst.loc(reads[0]), attrs <= set(zfields), 'reads attributes %s that the NamedTuple does not declare' % sorted(attrs - set(zfields)))
    # ---- R3 / R4 by interpretation on a model of the third-party library (acv/tzmodel.py)
    model_rules(cfg, R, ob, gp, gd, declared)
    return R


def model_rules(cfg, R, ob, gp, gd, declared):
    """Both generator copies are interpreted (E-SEQ) with pytz / dateutil.tz replaced by the checker's model zones: yearly
    DST, a permanent offset shift at an odd minute, a DST-only change, a fixed zone, a zone east of UTC.  R3: the two
    copies produce the same items for every model zone.  R4: the items are exactly what the model says - a left and a
    right item around every transition (tags A/B, a/b for DST-only), a sample on the first of every month and on 31
    December of every year, every field equal to the model's value at that instant, ordered by epoch; an item that
    repeats an epoch with a different field is refused."""
    import datetime as _dt
    from .pyeval import PyEval, Raised
    from . import tzmodel
    zones = tzmodel.model_zones()

    def tz_lookup(name):
        if name not in zones:
            raise KeyError(name)
        return zones[name]
    intr = {'pytz.timezone': tz_lookup, 'pytz.utc': tzmodel.UTC, 'pytz.UTC': tzmodel.UTC, 'pytz.__version__': '0-model', 'pytz.UnknownTimeZoneError': KeyError,
            'dateutil.tz.gettz': lambda name: zones.get(name), 'dateutil.tz.resolve_imaginary': tzmodel.resolve_imaginary, 'dateutil.tz.UTC': tzmodel.UTC,
            'dateutil.tz.tzutc': lambda: tzmodel.UTC, 'dateutil.__version__': '0-model', 'dateutil.tz.datetime_exists': lambda dt, tz=None: (tz or dt.tzinfo).exists(dt)}
    START, UNTIL = 2000, 2002
    results = {}
    for mod, name in ((gp, 'compare_pytz.tdgenerator'), (gd, 'compare_dateutil.tdgenerator')):
        ev = PyEval(cfg, intrinsics=intr, max_steps=3000000)
        init = mod.fn('TestDataGenerator.__init__')
        vals = dict(start_year=START, until_year=UNTIL, sampling_interval=22, detect_dst_transition=True)
        kwargs = {}
        for p_ in init.params[1:]:
            if p_ not in vals:
                raise AnalysisError('%s: constructor parameter %s is not part of the abstraction' % (init.loc, p_))
            kwargs[p_] = vals[p_]
        cf = mod.fn('TestDataGenerator.create_test_data')
        try:
            g = ev.instantiate(mod, 'TestDataGenerator', kwargs=kwargs)
            # the zone the library does not know stands between known ones: skipping it must not end the walk
            names = list(zones)
            names.insert(1, 'Model/Unknown')
            ev.call(mod, 'TestDataGenerator.create_test_data', [names], recv=g)
            vd = ev.call(mod, 'TestDataGenerator.get_validation_data', recv=g)
        except Raised as r_:
            R.instance('R4', '%s:create_test_data' % name, cf.loc)
            R.violation('R4', '%s:create_test_data' % name, cf.loc, 'generating the reference data of the model zones raises %s (%s)' % (r_.what, r_.loc))
            continue
        td = vd.get('test_data') if isinstance(vd, dict) else None
        if not isinstance(td, dict):
            raise AnalysisError('%s: get_validation_data() carries no test_data map' % cf.loc)
        results[name] = td
        ob('R4', '%s:unknown-zone' % name, cf.loc, 'Model/Unknown' not in td, 'a zone the library does not know is given test items')
        for zn, tz in zones.items():
            want = tzmodel.expected_items(tz, START, UNTIL)
            got = td.get(zn)
            kinds = (('_add_test_items_for_transitions', lambda it: it['type'] in 'AaBb'), ('_add_test_items_for_samples', lambda it: it['type'] in 'SY'))
            for kname, sel in kinds:
                c = '%s.%s[%s]' % (name, kname, zn)
                R.instance('R4', c, mod.funcs.get('TestDataGenerator.' + kname, cf).loc)
                if not isinstance(got, list):
                    R.violation('R4', c, cf.loc, 'no item list is produced for the model zone %s' % zn)
                    continue
                w_ = [it for it in want if sel(it)]
                g_ = [it for it in got if isinstance(it, dict) and sel(it)]
                if w_ != g_:
                    we, ge = {it['epoch']: it for it in w_}, {it['epoch']: it for it in g_}
                    miss = sorted(set(we) - set(ge))
                    extra = sorted(set(ge) - set(we))
                    diff = [e for e in we if e in ge and we[e] != ge[e]]
                    if miss:
                        msg = 'the item %s is missing' % we[miss[0]]
                    elif extra:
                        msg = 'the item %s is not one the model calls for' % ge[extra[0]]
                    elif diff:
                        msg = 'the item at epoch %d is %s, the model says %s' % (diff[0], ge[diff[0]], we[diff[0]])
                    else:
                        msg = 'the items are not ordered by epoch'
                    R.violation('R4', c, mod.funcs.get('TestDataGenerator.' + kname, cf).loc, 'zone %s (%s): %s' % (zn, [(str(p[0]), p[1], p[2]) for p in tz.periods[1:]], msg))
            c = '%s:order[%s]' % (name, zn)
            R.instance('R4', c, cf.loc)
            if isinstance(got, list) and [it.get('epoch') for it in got] != sorted(it.get('epoch') for it in got):
                R.violation('R4', c, cf.loc, 'the items of %s are not ordered by epoch' % zn)
        # a coarser sampling grid (40 h) must bracket the same transitions to the same minute
        ev2 = PyEval(cfg, intrinsics=intr, max_steps=3000000)
        kw2 = dict(kwargs)
        kw2['sampling_interval'] = 40
        coarse = ['Model/Yearly', 'Model/Shift']
        try:
            g2 = ev2.instantiate(mod, 'TestDataGenerator', kwargs=kw2)
            ev2.call(mod, 'TestDataGenerator.create_test_data', [coarse], recv=g2)
            vd2 = ev2.call(mod, 'TestDataGenerator.get_validation_data', recv=g2)
            td2 = vd2.get('test_data') if isinstance(vd2, dict) else {}
        except Raised as r_:
            td2 = r_
        for zn in coarse:
            c = '%s.binary_search_transition[%s@40h]' % (name, zn)
            R.instance('R4', c, cf.loc)
            if isinstance(td2, Raised):
                R.violation('R4', c, cf.loc, 'with a sampling interval of 40 hours the generator raises %s' % td2.what)
                continue
            w_ = [it for it in tzmodel.expected_items(zones[zn], START, UNTIL) if it['type'] in 'AaBb']
            g_ = [it for it in (td2.get(zn) or []) if isinstance(it, dict) and it.get('type') in ('A', 'a', 'B', 'b')]
            if w_ != g_:
                R.violation('R4', c, cf.loc, 'with a sampling interval of 40 hours the transitions of %s are bracketed by items at epochs %s, the model has them at %s (one minute apart)'
                            % (zn, [it.get('epoch') for it in g_][:6], [it['epoch'] for it in w_][:6]))
        # de-duplication: the same epoch with one field changed must be refused
        af = mod.fn('TestDataGenerator._add_test_item')
        c = '%s._add_test_item:dedup' % name
        R.instance('R4', c, af.loc)
        base = tzmodel.item_at(zones['Model/Fixed'], _dt.datetime(2000, 5, 5, 5, 5), 'S')
        missed = []
        for k in sorted(set(declared) - {'epoch', 'abbrev', 'type'}):
            other = dict(base)
            other[k] = base[k] + 1
            m_ = {base['epoch']: dict(base)}
            try:
                ev.call(mod, 'TestDataGenerator._add_test_item', [m_, other], recv=g)
                missed.append(k)
            except Raised:
                pass
        same = {base['epoch']: dict(base)}
        try:
            ev.call(mod, 'TestDataGenerator._add_test_item', [same, dict(base, type='A')], recv=g)
            ok_same = same[base['epoch']]['type'] == 'A'
        except Raised:
            ok_same = False
        if missed:
            R.violation('R4', c, af.loc, 'an item that repeats an epoch with a different %s is accepted: duplicate epochs must be compared on %s and raise on a mismatch'
                        % (missed, sorted(set(declared) - {'epoch', 'abbrev', 'type'})))
        elif not ok_same:
            R.violation('R4', c, af.loc, 'a transition item (A/B) that repeats the epoch of an equal sample does not replace it')
    # R3 the copies agree
    a, b = results.get('compare_pytz.tdgenerator'), results.get('compare_dateutil.tdgenerator')
    for zn in zones:
        c = 'tdgenerator:%s' % zn
        R.instance('R3', c, gd.rel)
        if a is None or b is None:
            continue
        if a.get(zn) != b.get(zn):
            la, lb = a.get(zn) or [], b.get(zn) or []
            d = next(((x, y) for x, y in zip(la, lb) if x != y), (la[len(lb):][:1], lb[len(la):][:1]))
            R.violation('R3', c, gd.rel, 'the pytz and dateutil generators produce different items for the model zone %s: %s vs %s' % (zn, d[0], d[1]))
    fa = {q for q, f_ in gp.funcs.items() if f_.cls == 'TestDataGenerator' and not f_.short.startswith('_')}
    fb = {q for q, f_ in gd.funcs.items() if f_.cls == 'TestDataGenerator' and not f_.short.startswith('_')}
    ob('R3', 'tdgenerator:methods', 'tools/compare_dateutil/tdgenerator.py', fa == fb, 'the public methods differ: %s' % sorted(fa ^ fb))


def _lit_before(joined, varname):
    out = []
    prev = None
    for v in joined.values:
        if isinstance(v, ast.FormattedValue) and isinstance(v.value, ast.Name) and v.value.id == varname:
            return [prev] if prev is not None else []
        prev = v.value if isinstance(v, ast.Constant) else None
    return out


def _fold_binop(n):
    if isinstance(n.left, ast.Constant) and isinstance(n.right, ast.Constant) and type(n.left.value) is int and type(n.right.value) is int:
        a, b = n.left.value, n.right.value
        v = {ast.Add: lambda: a + b, ast.Sub: lambda: a - b, ast.Mult: lambda: a * b}.get(type(n.op))
        if v is not None:
            return ast.copy_location(ast.Constant(value=v()), n)
    return n


class _Fold(ast.NodeTransformer):
    def visit_BinOp(self, n):
        self.generic_visit(n)
        return _fold_binop(n)


def _u(node):
    """source text of an expression with integer constant arithmetic folded."""
    import copy
    return ast.unparse(_Fold().visit(copy.deepcopy(node)))


def _is_adapter(stmt):
    s = ast.unparse(stmt)
    return any(t in s for t in ADAPTER_TOKENS)


def _stmts(fn):
    out = []
    for n in ast.walk(fn):
        if isinstance(n, ast.stmt) and not isinstance(n, (ast.FunctionDef, ast.For, ast.While, ast.If, ast.Try, ast.With)):
            if isinstance(n, ast.Expr) and isinstance(n.value, ast.Constant) and isinstance(n.value.value, str):
                continue   # docstring
            out.append('<adapter>' if _is_adapter(n) else ast.dump(n))
    return out


def _masked(fn):
    """structure of the function with docstrings, adapter statements (library-specific calls), their feeders (locals used
    only by adapter statements) and the error exit of the zone look-up removed."""
    adapters, others = [], []
    for n in ast.walk(fn):
        if isinstance(n, ast.stmt) and not isinstance(n, (ast.FunctionDef, ast.For, ast.While, ast.If, ast.Try, ast.With)):
            (adapters if _is_adapter(n) else others).append(n)
    used_elsewhere = set()
    for n in others:
        for x in ast.walk(n):
            if isinstance(x, ast.Name) and isinstance(x.ctx, ast.Load):
                used_elsewhere.add(x.id)
    used_in_adapters = {x.id for n in adapters for x in ast.walk(n) if isinstance(x, ast.Name) and isinstance(x.ctx, ast.Load)}
    out = []
    local_names = {x.id for x in ast.walk(fn) if isinstance(x, ast.Name) and isinstance(x.ctx, ast.Store)} | \
        {a.arg for a in fn.args.args + fn.args.kwonlyargs}

    class Norm(ast.NodeTransformer):
        """names of locals are replaced by the order of their first appearance in the retained statements, dict displays are
        ordered by key and the operands of and/or by their text: spelling differences between the copies that cannot change
        what the generator produces."""
        names = {}

        def visit_Name(self, n):
            if n.id in local_names:
                return ast.copy_location(ast.Name(id=self.names.setdefault(n.id, 'v%d' % len(self.names)), ctx=n.ctx), n)
            return n

        def visit_Dict(self, n):
            self.generic_visit(n)
            if all(isinstance(k, ast.Constant) for k in n.keys):
                pairs = sorted(zip(n.keys, n.values), key=lambda kv: repr(kv[0].value))
                n.keys, n.values = [k for k, _ in pairs], [v for _, v in pairs]
            return n

        def visit_BoolOp(self, n):
            self.generic_visit(n)
            n.values = sorted(n.values, key=ast.dump)
            return n

        def visit_BinOp(self, n):
            self.generic_visit(n)
            return _fold_binop(n)
    norm = Norm()

    def dump(node):
        import copy
        return ast.dump(norm.visit(copy.deepcopy(node)))

    def is_lookup_error_exit(node):
        body = node.body if isinstance(node, ast.If) else [s for h in node.handlers for s in h.body]
        rets = [x for x in body if isinstance(x, ast.Return) and isinstance(x.value, ast.Constant) and x.value.value is None]
        rest = [x for x in body if not isinstance(x, ast.Return)]
        return bool(rets) and all(isinstance(x, ast.Expr) and 'logging.' in ast.unparse(x) for x in rest)

    def rec(node, depth):
        if not isinstance(node, ast.stmt):
            return
        if isinstance(node, ast.Expr) and isinstance(node.value, ast.Constant) and isinstance(node.value.value, str):
            return
        if isinstance(node, ast.Try) and is_lookup_error_exit(node):
            return
        if isinstance(node, ast.If) and is_lookup_error_exit(node) and not node.orelse:
            return
        compound = isinstance(node, (ast.For, ast.While, ast.If, ast.Try, ast.With, ast.FunctionDef))
        if not compound:
            if _is_adapter(node):
                return
            if isinstance(node, ast.Assign) and isinstance(node.targets[0], ast.Name) and node.targets[0].id in used_in_adapters \
                    and node.targets[0].id not in used_elsewhere:
                return
            out.append((depth, dump(node)))
            return
        head = type(node).__name__
        if isinstance(node, ast.For):
            head += ':' + dump(node.target) + ':' + dump(node.iter)
        elif isinstance(node, (ast.While, ast.If)):
            head += ':' + dump(node.test)
        out.append((depth, head))
        for fld in ('body', 'orelse', 'finalbody'):
            for st in getattr(node, fld, []) or []:
                rec(st, depth + 1)
    for st in fn.body:
        rec(st, 0)
    return out


SELFTEST = [
    dict(id='namedtuple-field-misspelled', file='tools/validator/zstdgenerator.py', find='current.total_offset != item.total_offset', replace='current.total_offset != item.utc_offset', rule='R2'),
    dict(id='dedup-helper-as-instance-method-silent', file='tools/validator/zstdgenerator.py', expect='silent', edits=[
        dict(file='tools/validator/zstdgenerator.py', find='    @staticmethod\n    def _add_test_item(items_map: Dict[int, TestItem], item: TestItem) -> None:', replace='    def _add_test_item(self, items_map: Dict[int, TestItem], item: TestItem) -> None:')]),
    dict(id='render-dst-before-total', file='tools/validation/arvalgenerator.py',
         find='{total_offset_minutes:4}, {delta_offset_minutes:4}', replace='{delta_offset_minutes:4}, {total_offset_minutes:4}', rule='R1'),
    dict(id='render-offset-in-seconds', file='tools/validation/arvalgenerator.py',
         find="total_offset_minutes = div_to_zero(test_item['total_offset'], 60)", replace="total_offset_minutes = test_item['total_offset']", rule='R1', construct='timeOffsetMinutes'),
    dict(id='render-hour-from-minute-key', file='tools/validation/arvalgenerator.py', find="hour = test_item['h']", replace="hour = test_item['m']", rule='R1'),
    dict(id='num-items-of-other-list', file='tools/validation/arvalgenerator.py', find='  {len(test_items)} /*numItems*/,', replace='  {len(test_data)} /*numItems*/,', rule='R1', construct='numItems'),
    dict(id='struct-members-reordered', file='src/ace_time/testing/ValidationDataType.h',
         find='  uint8_t const month;\n  uint8_t const day;', replace='  uint8_t const day;\n  uint8_t const month;', rule='R1'),
    dict(id='created-item-misses-key', file='tools/compare_dateutil/tdgenerator.py', find="            'abbrev': abbrev,\n", replace='', rule='R2'),
    dict(id='attribute-access-on-typeddict', file='tools/compare_pytz/tdgenerator.py', find="            if item['type'] in ['A', 'B']:", replace="            if item.type in ['A', 'B']:", rule='R2'),
    dict(id='copies-diverge', file='tools/compare_dateutil/tdgenerator.py', find='            delta_minutes //= 2', replace='            delta_minutes //= 3', rule='R3'),
    dict(id='right-item-from-left-instant', file='tools/compare_pytz/tdgenerator.py',
         find="            right_item = self._create_test_item(\n                right,", replace="            right_item = self._create_test_item(\n                left,", rule='R'),
    dict(id='eleven-months', file='tools/compare_pytz/tdgenerator.py', find='            for month in range(1, 13):', replace='            for month in range(1, 12):', rule='R'),
    dict(id='dedup-ignores-hour', edits=[
        dict(file='tools/compare_pytz/tdgenerator.py', find="or current['d'] != item['d'] or current['h'] != item['h']", replace="or current['d'] != item['d']"),
        dict(file='tools/compare_dateutil/tdgenerator.py', find="or current['d'] != item['d'] or current['h'] != item['h']", replace="or current['d'] != item['d']")], rule='R4'),
    # behaviour-preserving rewrites: the rules must stay quiet
    dict(id='render-locals-reordered-silent', file='tools/validation/arvalgenerator.py',
         find="            year = test_item['y']\n            month = test_item['M']\n", replace="            month = test_item['M']\n            year = test_item['y']\n", expect='silent'),
    dict(id='render-local-renamed-silent', edits=[
        dict(file='tools/validation/arvalgenerator.py', find="            hour = test_item['h']\n", replace="            hh = test_item['h']\n"),
        dict(file='tools/validation/arvalgenerator.py', find='{hour:2}', replace='{hh:2}')], expect='silent'),
    dict(id='months-range-spelled-differently-silent', edits=[
        dict(file='tools/compare_pytz/tdgenerator.py', find='            for month in range(1, 13):', replace='            for month in range(1, 12 + 1):'),
        dict(file='tools/compare_dateutil/tdgenerator.py', find='            for month in range(1, 13):', replace='            for month in range(1, 12 + 1):')], expect='silent'),
    dict(id='one-copy-renames-a-local-silent', file='tools/compare_dateutil/tdgenerator.py', regex=True,
         find=r'(def binary_search_transition.*?return dt_left, dt_right)', replace=lambda m: m.group(1).replace('dt_mid', 'middle'), expect='silent'),
    dict(id='one-copy-reorders-item-keys-silent', file='tools/compare_dateutil/tdgenerator.py',
         find="            'y': dt.year,\n            'M': dt.month,\n", replace="            'M': dt.month,\n            'y': dt.year,\n", expect='silent'),
    dict(id='dedup-comparisons-reordered-silent', file='tools/compare_pytz/tdgenerator.py',
         find="            if (current['total_offset'] != item['total_offset']\n                    or current['dst_offset'] != item['dst_offset']",
         replace="            if (current['dst_offset'] != item['dst_offset']\n                    or current['total_offset'] != item['total_offset']", expect='silent'),
]
