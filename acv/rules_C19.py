"""C19 - reference-data generators (structural clauses): rendered field order/units against testing::ValidationItem,
TestItem schema discipline, agreement of the two generator copies, bracket pairs and samples."""
import ast
import re

from .common import AnalysisError, Report
from . import cxx, py

META = {
    'explanation': 'ast rules over tools/validation/arvalgenerator.py, tools/validation/data.py, tools/compare_pytz/tdgenerator.py, '
                   'tools/compare_dateutil/tdgenerator.py and tools/validator/zstdgenerator.py, with the member order of '
                   'testing::ValidationItem taken from the clang AST: the rendered initialiser lists the values in member order, each '
                   'from the TestItem key of the same role, seconds are turned into minutes, strings are quoted, the item count is '
                   'the length of the rendered list; TestItem keys constructed = declared = read; the pytz and dateutil generators '
                   'are the same program outside their adapter statements; every detected transition yields a left and a right item, '
                   'the monthly and year-end samples are emitted for every year, de-duplication compares every numeric field.',
    'decided': 'rendering preserves every field in the order and unit the C++ struct expects; schema discipline of TestItem in all '
               'three generators; structural agreement of the pytz/dateutil copies; bracket pairs, samples and de-duplication',
    'not_decided': 'that every transition of the third-party library is detected (sampling interval, loop exit before the last '
                   'interval) and that item fields equal what the library reports',
    'assumptions': ['CPython ast', 'clang 14 parser (member order of testing::ValidationItem)'],
}

ROLE = {'epoch': 'epochSeconds', 'total_offset': 'timeOffsetMinutes', 'dst_offset': 'deltaOffsetMinutes', 'y': 'year', 'M': 'month',
        'd': 'day', 'h': 'hour', 'm': 'minute', 's': 'second', 'abbrev': 'abbrev', 'type': 'type'}
SECONDS_KEYS = {'total_offset', 'dst_offset'}
ADAPTER_TOKENS = ('localize', 'normalize', 'resolve_imaginary', 'gettz', 'timezone(', 'UnknownTimeZoneError', '__version__', 'utc', 'UTC')


def run(cfg):
    R = Report('C19', cfg)
    lib = cxx.load_lib(cfg)
    R.analysed['translation_units'] = ['tu/lib.cpp']
    data = py.load(cfg, 'tools/validation/data.py')
    arv = py.load(cfg, 'tools/validation/arvalgenerator.py')
    gp = py.load(cfg, 'tools/compare_pytz/tdgenerator.py')
    gd = py.load(cfg, 'tools/compare_dateutil/tdgenerator.py')
    zst = py.load(cfg, 'tools/validator/zstdgenerator.py')
    R.analysed['python_modules'] = [data.rel, arv.rel, gp.rel, gd.rel, zst.rel]
    R.rule('R1', 'ValidationItem initialiser: values in member order, same-role keys, seconds -> minutes, quoted string, char type', floor=13)
    R.rule('R2', 'TestItem keys constructed == declared == read (TypedDict subscripts / NamedTuple attributes)', floor=6)
    R.rule('R3', 'the pytz and dateutil generators are the same program outside their adapter statements', floor=8)
    R.rule('R4', 'each transition yields a left and a right item; monthly and year-end samples for every year; de-duplication compares all fields', floor=6)

    def ob(rid, c, loc, ok, msg):
        R.instance(rid, c, loc)
        if not ok:
            R.violation(rid, c, loc, msg)
    members = [n for n, _t, _x in lib.fields('ace_time::testing::ValidationItem')]
    declared = data.typed_dict_keys('TestItem')
    ob('R2', 'validation.data.TestItem', 'tools/validation/data.py', set(declared) == set(ROLE),
       'TestItem declares %s; the role map of the renderer knows %s' % (sorted(declared), sorted(ROLE)))
    # ---- R1
    f = arv.fn('ArduinoValidationGenerator._generate_validation_data_cpp_test_items')
    loop = [n for n in ast.walk(f.node) if isinstance(n, ast.For)]
    if len(loop) != 1:
        raise AnalysisError('%s: expected one loop over the test items' % f.loc)
    item = loop[0].target.id
    src = {}        # local var -> (key, transform)
    for s in loop[0].body:
        if isinstance(s, ast.Assign) and isinstance(s.targets[0], ast.Name):
            v = s.value
            key, how = None, 'plain'
            for x in ast.walk(v):
                if isinstance(x, ast.Subscript) and isinstance(x.value, ast.Name) and x.value.id == item and isinstance(x.slice, ast.Constant):
                    key = x.slice.value
            if isinstance(v, ast.Call) and isinstance(v.func, ast.Name) and v.func.id == 'div_to_zero' and len(v.args) == 2:
                how = 'div%s' % (ast.unparse(v.args[1]))
            if key is None:
                # derived from another local (abbrev = f'"{abbrev_value}"' if abbrev_value else 'nullptr')
                names = [x.id for x in ast.walk(v) if isinstance(x, ast.Name) and x.id in src]
                if names:
                    key = src[names[0]][0]
                    how = 'quoted' if isinstance(v, ast.IfExp) and isinstance(v.body, ast.JoinedStr) and '"' in ast.unparse(v.body) and 'nullptr' in ast.unparse(v.orelse) else 'derived'
            if key is not None:
                src[s.targets[0].id] = (key, how)
    fstr = [n for n in ast.walk(loop[0]) if isinstance(n, ast.JoinedStr) and len([v for v in n.values if isinstance(v, ast.FormattedValue)]) >= 8]
    if not fstr:
        raise AnalysisError('%s: the item template (an f-string with the item values) was not found' % f.loc)
    t = fstr[0]
    order = []
    lits = []
    for v in t.values:
        if isinstance(v, ast.FormattedValue) and isinstance(v.value, ast.Name):
            order.append(v.value.id)
        elif isinstance(v, ast.Constant):
            lits.append(v.value)
    for i, m in enumerate(members):
        c = 'validation.arvalgenerator:ValidationItem.%s' % m
        R.instance('R1', c, arv.loc(t))
        if i >= len(order):
            R.violation('R1', c, arv.loc(t), 'no value is rendered for member %s' % m)
            continue
        var = order[i]
        key, how = src.get(var, (None, None))
        if key is None or ROLE.get(key) != m:
            R.violation('R1', c, arv.loc(t), 'position %d (member %s) is rendered from %s (TestItem key %r)' % (i, m, var, key))
        elif key in SECONDS_KEYS and how != 'div60':
            R.violation('R1', c, arv.loc(t), 'member %s is in minutes but %s is rendered as %s' % (m, key, how))
        elif key == 'abbrev' and how != 'quoted':
            R.violation('R1', c, arv.loc(t), 'the abbreviation is not rendered as a quoted string / nullptr')
    ob('R1', 'validation.arvalgenerator:ValidationItem:arity', arv.loc(t), len(order) == len(members),
       'the template renders %d values for %d members' % (len(order), len(members)))
    txt = ''.join(lits)
    ob('R1', 'validation.arvalgenerator:ValidationItem:type-literal', arv.loc(t), re.search(r"'\s*$", ''.join(_lit_before(t, order[-1]))) is not None if order else False,
       'the type is not rendered as a character literal')
    g = arv.fn('ArduinoValidationGenerator._generate_validation_data_cpp_items')
    gsrc = ast.unparse(g.node)
    loopg = [n for n in ast.walk(g.node) if isinstance(n, ast.For)][0]
    lv = [x.id for x in ast.walk(loopg.target) if isinstance(x, ast.Name)]
    ok = len(lv) == 2 and re.search(r'\{len\(%s\)\}\s*/\*numItems\*/' % lv[1], gsrc) is not None and \
        re.search(r'_generate_validation_data_cpp_test_items\(\s*%s,\s*%s\)' % (lv[0], lv[1]), gsrc) is not None
    ob('R1', 'validation.arvalgenerator:numItems', g.loc, ok, 'numItems is not len() of the list that is rendered')
    # ---- R2 schema
    for mod, name in ((gp, 'compare_pytz.tdgenerator'), (gd, 'compare_dateutil.tdgenerator')):
        cf = mod.fn('TestDataGenerator._create_test_item')
        dicts = [n for n in ast.walk(cf.node) if isinstance(n, ast.Return) and isinstance(n.value, ast.Dict)]
        keys = [k.value for k in dicts[0].value.keys] if dicts else []
        ob('R2', '%s._create_test_item' % name, cf.loc, sorted(keys) == sorted(declared), '_create_test_item builds keys %s, TestItem declares %s' % (sorted(keys), sorted(declared)))
        af = mod.fn('TestDataGenerator._add_test_item')
        reads = {x.slice.value for x in ast.walk(af.node) if isinstance(x, ast.Subscript) and isinstance(x.slice, ast.Constant) and isinstance(x.slice.value, str)}
        attrs = [x.attr for x in ast.walk(af.node) if isinstance(x, ast.Attribute) and isinstance(x.value, ast.Name) and x.value.id in ('item', 'current')]
        ob('R2', '%s._add_test_item' % name, af.loc, reads <= set(declared) and not attrs,
           '_add_test_item reads %s / attributes %s of a TestItem (a TypedDict must be subscripted with declared keys)' % (sorted(reads - set(declared)), attrs))
    rd = {x.slice.value for x in ast.walk(f.node) if isinstance(x, ast.Subscript) and isinstance(x.value, ast.Name) and x.value.id == item and isinstance(x.slice, ast.Constant)}
    ob('R2', 'validation.arvalgenerator:reads', f.loc, rd == set(declared), 'renderer reads keys %s, TestItem declares %s' % (sorted(rd), sorted(declared)))
    # zstdgenerator: its own NamedTuple
    zt = zst.consts.get('TestItem')
    zfields = []
    if isinstance(zt, ast.Call) and len(zt.args) == 2 and isinstance(zt.args[1], ast.List):
        zfields = [e.elts[0].value for e in zt.args[1].elts if isinstance(e, ast.Tuple)]
    if not zfields:
        raise AnalysisError('tools/validator/zstdgenerator.py: TestItem NamedTuple declaration not found')
    ctor = [n for n in ast.walk(zst.tree) if isinstance(n, ast.Call) and isinstance(n.func, ast.Name) and n.func.id == 'TestItem']
    for n in ctor:
        kws = [k.arg for k in n.keywords]
        ob('R2', 'validator.zstdgenerator:TestItem()', zst.loc(n), sorted(kws) == sorted(zfields) and not n.args,
           'TestItem(...) is built with %s, the NamedTuple declares %s' % (sorted(kws), sorted(zfields)))
    za = zst.fn('TestDataGenerator._add_test_item')
    attrs = {x.attr for x in ast.walk(za.node) if isinstance(x, ast.Attribute) and isinstance(x.value, ast.Name) and x.value.id in ('item', 'current')}
    ob('R2', 'validator.zstdgenerator._add_test_item', za.loc, attrs <= set(zfields), 'reads attributes %s that the NamedTuple does not declare' % sorted(attrs - set(zfields)))
    # ---- R3 copies agree
    fa = {q: f_ for q, f_ in gp.funcs.items() if f_.cls == 'TestDataGenerator'}
    fb = {q: f_ for q, f_ in gd.funcs.items() if f_.cls == 'TestDataGenerator'}
    ob('R3', 'tdgenerator:methods', 'tools/compare_dateutil/tdgenerator.py', set(fa) == set(fb), 'method sets differ: %s' % sorted(set(fa) ^ set(fb)))
    for q in sorted(set(fa) & set(fb)):
        a, b = _masked(fa[q].node), _masked(fb[q].node)
        c = 'tdgenerator:%s' % q
        R.instance('R3', c, fb[q].loc)
        if a != b:
            # report the first differing statement
            sa, sb = _stmts(fa[q].node), _stmts(fb[q].node)
            d = next(((x, y) for x, y in zip(sa, sb) if x != y), (sa[len(sb):][:1], sb[len(sa):][:1]))
            R.violation('R3', c, fb[q].loc, 'the pytz and dateutil versions differ outside their adapter statements: %r vs %r' % (str(d[0])[:120], str(d[1])[:120]))
    # ---- R4
    for mod, name in ((gp, 'compare_pytz.tdgenerator'), (gd, 'compare_dateutil.tdgenerator')):
        tf = mod.fn('TestDataGenerator._add_test_items_for_transitions')
        loops = [n for n in ast.walk(tf.node) if isinstance(n, ast.For)]
        ok, why = False, 'no loop over the detected transitions'
        if loops:
            lp = loops[0]
            tv = [x.id for x in ast.walk(lp.target) if isinstance(x, ast.Name)]
            creates = [n for n in ast.walk(lp) if isinstance(n, ast.Call) and ast.unparse(n.func).endswith('_create_test_item')]
            adds = [n for n in ast.walk(lp) if isinstance(n, ast.Call) and ast.unparse(n.func).endswith('_add_test_item')]
            tags = []
            for cnode in creates:
                first = ast.unparse(cnode.args[0]) if cnode.args else None
                tagsrc = ast.unparse(cnode.args[1]) if len(cnode.args) > 1 else ''
                tags.append((first, tagsrc))
            ok = len(tv) == 3 and len(creates) == 2 and len(adds) == 2 and tags[0][0] == tv[0] and tags[1][0] == tv[1] \
                and "'a'" in tags[0][1] and "'A'" in tags[0][1] and "'b'" in tags[1][1] and "'B'" in tags[1][1]
            why = 'each transition must add a left item (a/A) from the left instant and a right item (b/B) from the right instant; found %s' % tags
        ob('R4', '%s._add_test_items_for_transitions' % name, tf.loc, ok, why)
        sf = mod.fn('TestDataGenerator._add_test_items_for_samples')
        ssrc = ast.unparse(sf.node)
        fors = [n for n in ast.walk(sf.node) if isinstance(n, ast.For)]
        okm = any(_u(n.iter) == 'range(self.start_year, self.until_year)' for n in fors) and any(_u(n.iter) == 'range(1, 13)' for n in fors)
        yv = [n.target.id for n in fors if _u(n.iter) == 'range(self.start_year, self.until_year)' and isinstance(n.target, ast.Name)]
        yend = "'Y'" in ssrc and any(isinstance(n, ast.Call) and _u(n.func).split('.')[-1] == 'datetime' and len(n.args) >= 3
                                     and [_u(a) for a in n.args[:3]] == [yv[0] if yv else None, '12', '31'] for n in ast.walk(sf.node))
        nadd = len([n for n in ast.walk(sf.node) if isinstance(n, ast.Call) and ast.unparse(n.func).endswith('_add_test_item')])
        ob('R4', '%s._add_test_items_for_samples' % name, sf.loc, okm and yend and nadd == 2,
           'monthly samples for range(1, 13) of every year in range(start_year, until_year) plus one Dec-31 sample are expected')
        af = mod.fn('TestDataGenerator._add_test_item')
        cmp_keys = set()
        for n in ast.walk(af.node):
            if isinstance(n, ast.Compare) and isinstance(n.ops[0], ast.NotEq) and isinstance(n.left, ast.Subscript) and isinstance(n.comparators[0], ast.Subscript):
                l, r = n.left, n.comparators[0]
                if isinstance(l.slice, ast.Constant) and isinstance(r.slice, ast.Constant) and l.slice.value == r.slice.value \
                        and {ast.unparse(l.value), ast.unparse(r.value)} == {'current', 'item'}:
                    cmp_keys.add(l.slice.value)
        want = set(declared) - {'epoch', 'abbrev', 'type'}
        raises = any(isinstance(n, ast.Raise) for n in ast.walk(af.node))
        ob('R4', '%s._add_test_item:dedup' % name, af.loc, cmp_keys == want and raises,
           'duplicate epochs must be compared on %s (compared: %s) and raise on a mismatch' % (sorted(want), sorted(cmp_keys)))
    return R


def _lit_before(joined, varname):
    out = []
    prev = None
    for v in joined.values:
        if isinstance(v, ast.FormattedValue) and isinstance(v.value, ast.Name) and v.value.id == varname:
            return [prev] if prev is not None else []
        prev = v.value if isinstance(v, ast.Constant) else None
    return out


def _fold_binop(n):
    if isinstance(n.left, ast.Constant) and isinstance(n.right, ast.Constant) and type(n.left.value) is int and type(n.right.value) is int:
        a, b = n.left.value, n.right.value
        v = {ast.Add: lambda: a + b, ast.Sub: lambda: a - b, ast.Mult: lambda: a * b}.get(type(n.op))
        if v is not None:
            return ast.copy_location(ast.Constant(value=v()), n)
    return n


class _Fold(ast.NodeTransformer):
    def visit_BinOp(self, n):
        self.generic_visit(n)
        return _fold_binop(n)


def _u(node):
    """source text of an expression with integer constant arithmetic folded."""
    import copy
    return ast.unparse(_Fold().visit(copy.deepcopy(node)))


def _is_adapter(stmt):
    s = ast.unparse(stmt)
    return any(t in s for t in ADAPTER_TOKENS)


def _stmts(fn):
    out = []
    for n in ast.walk(fn):
        if isinstance(n, ast.stmt) and not isinstance(n, (ast.FunctionDef, ast.For, ast.While, ast.If, ast.Try, ast.With)):
            if isinstance(n, ast.Expr) and isinstance(n.value, ast.Constant) and isinstance(n.value.value, str):
                continue   # docstring
            out.append('<adapter>' if _is_adapter(n) else ast.dump(n))
    return out


def _masked(fn):
    """structure of the function with docstrings, adapter statements (library-specific calls), their feeders (locals used
    only by adapter statements) and the error exit of the zone look-up removed."""
    adapters, others = [], []
    for n in ast.walk(fn):
        if isinstance(n, ast.stmt) and not isinstance(n, (ast.FunctionDef, ast.For, ast.While, ast.If, ast.Try, ast.With)):
            (adapters if _is_adapter(n) else others).append(n)
    used_elsewhere = set()
    for n in others:
        for x in ast.walk(n):
            if isinstance(x, ast.Name) and isinstance(x.ctx, ast.Load):
                used_elsewhere.add(x.id)
    used_in_adapters = {x.id for n in adapters for x in ast.walk(n) if isinstance(x, ast.Name) and isinstance(x.ctx, ast.Load)}
    out = []
    local_names = {x.id for x in ast.walk(fn) if isinstance(x, ast.Name) and isinstance(x.ctx, ast.Store)} | \
        {a.arg for a in fn.args.args + fn.args.kwonlyargs}

    class Norm(ast.NodeTransformer):
        """names of locals are replaced by the order of their first appearance in the retained statements, dict displays are
        ordered by key and the operands of and/or by their text: spelling differences between the copies that cannot change
        what the generator produces."""
        names = {}

        def visit_Name(self, n):
            if n.id in local_names:
                return ast.copy_location(ast.Name(id=self.names.setdefault(n.id, 'v%d' % len(self.names)), ctx=n.ctx), n)
            return n

        def visit_Dict(self, n):
            self.generic_visit(n)
            if all(isinstance(k, ast.Constant) for k in n.keys):
                pairs = sorted(zip(n.keys, n.values), key=lambda kv: repr(kv[0].value))
                n.keys, n.values = [k for k, _ in pairs], [v for _, v in pairs]
            return n

        def visit_BoolOp(self, n):
            self.generic_visit(n)
            n.values = sorted(n.values, key=ast.dump)
            return n

        def visit_BinOp(self, n):
            self.generic_visit(n)
            return _fold_binop(n)
    norm = Norm()

    def dump(node):
        import copy
        return ast.dump(norm.visit(copy.deepcopy(node)))

    def is_lookup_error_exit(node):
        body = node.body if isinstance(node, ast.If) else [s for h in node.handlers for s in h.body]
        rets = [x for x in body if isinstance(x, ast.Return) and isinstance(x.value, ast.Constant) and x.value.value is None]
        rest = [x for x in body if not isinstance(x, ast.Return)]
        return bool(rets) and all(isinstance(x, ast.Expr) and 'logging.' in ast.unparse(x) for x in rest)

    def rec(node, depth):
        if not isinstance(node, ast.stmt):
            return
        if isinstance(node, ast.Expr) and isinstance(node.value, ast.Constant) and isinstance(node.value.value, str):
            return
        if isinstance(node, ast.Try) and is_lookup_error_exit(node):
            return
        if isinstance(node, ast.If) and is_lookup_error_exit(node) and not node.orelse:
            return
        compound = isinstance(node, (ast.For, ast.While, ast.If, ast.Try, ast.With, ast.FunctionDef))
        if not compound:
            if _is_adapter(node):
                return
            if isinstance(node, ast.Assign) and isinstance(node.targets[0], ast.Name) and node.targets[0].id in used_in_adapters \
                    and node.targets[0].id not in used_elsewhere:
                return
            out.append((depth, dump(node)))
            return
        head = type(node).__name__
        if isinstance(node, ast.For):
            head += ':' + dump(node.target) + ':' + dump(node.iter)
        elif isinstance(node, (ast.While, ast.If)):
            head += ':' + dump(node.test)
        out.append((depth, head))
        for fld in ('body', 'orelse', 'finalbody'):
            for st in getattr(node, fld, []) or []:
                rec(st, depth + 1)
    for st in fn.body:
        rec(st, 0)
    return out


SELFTEST = [
    dict(id='render-dst-before-total', file='tools/validation/arvalgenerator.py',
         find='{total_offset_minutes:4}, {delta_offset_minutes:4}', replace='{delta_offset_minutes:4}, {total_offset_minutes:4}', rule='R1'),
    dict(id='render-offset-in-seconds', file='tools/validation/arvalgenerator.py',
         find="total_offset_minutes = div_to_zero(test_item['total_offset'], 60)", replace="total_offset_minutes = test_item['total_offset']", rule='R1', construct='timeOffsetMinutes'),
    dict(id='render-hour-from-minute-key', file='tools/validation/arvalgenerator.py', find="hour = test_item['h']", replace="hour = test_item['m']", rule='R1'),
    dict(id='num-items-of-other-list', file='tools/validation/arvalgenerator.py', find='  {len(test_items)} /*numItems*/,', replace='  {len(test_data)} /*numItems*/,', rule='R1', construct='numItems'),
    dict(id='struct-members-reordered', file='src/ace_time/testing/ValidationDataType.h',
         find='  uint8_t const month;\n  uint8_t const day;', replace='  uint8_t const day;\n  uint8_t const month;', rule='R1'),
    dict(id='created-item-misses-key', file='tools/compare_dateutil/tdgenerator.py', find="            'abbrev': abbrev,\n", replace='', rule='R2'),
    dict(id='attribute-access-on-typeddict', file='tools/compare_pytz/tdgenerator.py', find="            if item['type'] in ['A', 'B']:", replace="            if item.type in ['A', 'B']:", rule='R2'),
    dict(id='copies-diverge', file='tools/compare_dateutil/tdgenerator.py', find='            delta_minutes //= 2', replace='            delta_minutes //= 3', rule='R3'),
    dict(id='right-item-from-left-instant', file='tools/compare_pytz/tdgenerator.py',
         find="            right_item = self._create_test_item(\n                right,", replace="            right_item = self._create_test_item(\n                left,", rule='R'),
    dict(id='eleven-months', file='tools/compare_pytz/tdgenerator.py', find='            for month in range(1, 13):', replace='            for month in range(1, 12):', rule='R'),
    dict(id='dedup-ignores-hour', edits=[
        dict(file='tools/compare_pytz/tdgenerator.py', find="or current['d'] != item['d'] or current['h'] != item['h']", replace="or current['d'] != item['d']"),
        dict(file='tools/compare_dateutil/tdgenerator.py', find="or current['d'] != item['d'] or current['h'] != item['h']", replace="or current['d'] != item['d']")], rule='R4'),
    # behaviour-preserving rewrites: the rules must stay quiet
    dict(id='render-locals-reordered-silent', file='tools/validation/arvalgenerator.py',
         find="            year = test_item['y']\n            month = test_item['M']\n", replace="            month = test_item['M']\n            year = test_item['y']\n", expect='silent'),
    dict(id='render-local-renamed-silent', edits=[
        dict(file='tools/validation/arvalgenerator.py', find="            hour = test_item['h']\n", replace="            hh = test_item['h']\n"),
        dict(file='tools/validation/arvalgenerator.py', find='{hour:2}', replace='{hh:2}')], expect='silent'),
    dict(id='months-range-spelled-differently-silent', edits=[
        dict(file='tools/compare_pytz/tdgenerator.py', find='            for month in range(1, 13):', replace='            for month in range(1, 12 + 1):'),
        dict(file='tools/compare_dateutil/tdgenerator.py', find='            for month in range(1, 13):', replace='            for month in range(1, 12 + 1):')], expect='silent'),
    dict(id='one-copy-renames-a-local-silent', file='tools/compare_dateutil/tdgenerator.py', regex=True,
         find=r'(def binary_search_transition.*?return dt_left, dt_right)', replace=lambda m: m.group(1).replace('dt_mid', 'middle'), expect='silent'),
    dict(id='one-copy-reorders-item-keys-silent', file='tools/compare_dateutil/tdgenerator.py',
         find="            'y': dt.year,\n            'M': dt.month,\n", replace="            'M': dt.month,\n            'y': dt.year,\n", expect='silent'),
    dict(id='dedup-comparisons-reordered-silent', file='tools/compare_pytz/tdgenerator.py',
         find="            if (current['total_offset'] != item['total_offset']\n                    or current['dst_offset'] != item['dst_offset']",
         replace="            if (current['dst_offset'] != item['dst_offset']\n                    or current['total_offset'] != item['total_offset']", expect='silent'),
]
