"""C15 - printed forms are ISO-8601 and parse back (structural clauses): token sequence of each printTo against the
consumption sequence of the matching chainable parser, cursor offsets against the length the wrapper guarantees,
sign pairing of TimeOffset, error placeholders."""
from .common import AnalysisError, Report
from . import cxx
from .ir import E, walk_stmts, walk_expr, all_exprs, stmt_exprs, show
from .paths import path_of

META = {
    'explanation': 'E-SEQ (typed): printTo and the for*String / for*StringChainable parsers of LocalDate, LocalTime, LocalDateTime, '
                   'TimeOffset, OffsetDateTime and ZonedDateTime are interpreted through their real bodies; Print is abstracted to a '
                   'recorder of what is printed (printPad2To, the DateStrings tables and the zone name included), a C string to an '
                   'object that records which positions are read, strlen to its length. On sampled field values (corner dates of '
                   'the supported range, every hour/minute class, every offset of +-99:59 for TimeOffset): the printed text is '
                   'compared with the ISO-8601 form computed by the checker, parsed back and compared field by field; the highest '
                   'position read is compared with the length the wrapper tests; strings one character short must give the error '
                   'value; error values must print their placeholder. Plus call-graph reachability (no detour through epoch '
                   'seconds) and an E-PATH rule (no parser rejects on a field value).',
    'decided': 'on the sampled values: printed text is the ISO-8601 form, parses back to equal fields, no position at or beyond the '
               'tested length is read, the length constants compose (19 = 10+1+8, 25 = 19+6), short strings give error values, '
               'error values print their placeholder; every TimeOffset of +-99:59 prints and parses back with its sign; '
               'no parser detours through the 32-bit epoch-seconds count and no chainable parser rejects on '
               'the value of a parsed numeric field, so every value a printer emits is read back',
    'not_decided': 'the round trip for every date of the range (quick tier: 32 dates; thorough tier: six dates of every year of '
                   '1873..2127, every day of 2000 and 2019, every value of each time field, every offset of +-99:59 - not the product); '
                   'formatting of values outside +-99:59',
    'assumptions': ['clang 14 parser', 'ace_common::printPad2To prints exactly two characters for values 0..99'],
}

NS = 'ace_time::'


def print_intrinsics():
    """the Print interface as the interpreted library sees it: print of a character / a number / a string appends to the
    `out` list of the abstract printer; printPad2To prints two characters; the zone name of a TimeZone is one token"""
    from .aeval import Ref, Text
    def p_print(ev, recv, args, exprs):
        a, e = args[0], exprs[0]
        b = e
        is_char = False
        while b.k == 'cast':
            is_char = is_char or (b.ty or '').replace('const ', '') == 'char'
            b = b.a[2]
        is_char = is_char or (b.ty or '').replace('const ', '') == 'char'
        if isinstance(a, str):
            recv.attrs['out'].append(a)
        elif isinstance(a, Ref):
            s, k = '', a
            while k.get() != 0:
                s += chr(k.get())
                k = k.moved(1)
            recv.attrs['out'].append(s)
        elif is_char:
            recv.attrs['out'].append(chr(a))
        else:
            recv.attrs['out'].append(str(a))
        return None
    p_print.with_exprs = True

    def p_pad2(ev, recv, args):
        pr, v, pad = args[0], args[1], (chr(args[2]) if len(args) > 2 else ' ')
        pr.attrs['out'].append(('%2d' % v).replace(' ', pad) if 0 <= v < 100 else str(v))
        return None

    def p_zone(ev, recv, args):
        args[0].attrs['out'].append('Some/Zone')
        return None
    intr = {'Print::print': p_print, 'ace_common::printPad2To': p_pad2, 'Print::println': p_print,
            'ace_time::TimeZone::printTo': p_zone,
            'strlen': lambda ev, recv, args: args[0].box.length() if isinstance(args[0], Ref) and isinstance(args[0].box, Text) else len(args[0]),
            'ace_time::DateStrings::dayOfWeekLongString': lambda ev, recv, args: 'Xxxday',
            'ace_time::DateStrings::dayOfWeekShortString': lambda ev, recv, args: 'Xxx'}

    return intr


def roundtrip_rules(R, lib, ob):
    """printTo and the for*String parsers are interpreted (E-SEQ, typed) on values built by the classes' own factories:
    the abstraction boundary is the Print interface (print of a character / a number / a flash string, printPad2To, the
    zone name of a TimeZone) on the output side and the C string on the input side (an array of character codes that
    records which positions are read).  For a sample of the value domain - every offset of +-99:59 in the thorough tier -
    the printed text must be the ISO-8601 form computed from the value's fields and parsing that text must give back equal
    fields; the parser may not read at or beyond the length its wrapper tests; shorter strings give error values; error
    values print their placeholder.  The code may spell the printing and the cursor handling any way it likes."""
    from .aeval import AEval, AObj, CxxModule, Raised, Text, Ref, cxx_object
    mod = CxxModule(lib, ['ace_time::'])
    thorough = R.cfg.tier == 'thorough'

    intr = print_intrinsics()

    def ev():
        return AEval(module=mod, intrinsics=intr, typed=True, max_steps=200000)

    def fn(q, nparams=None, ptype0=None):
        fs = [f for f in lib.fns(q) if (nparams is None or len(f.params) == nparams) and (ptype0 is None or (f.params and (f.params[0][1] or '') == ptype0))]
        if not fs:
            raise AnalysisError('anchor vanished: %s' % q)
        return fs[0]

    def call(f, args, recv=None):
        return ev().call_function(f.name, list(args), recv=recv, chosen=CxxModule._Fn(f))

    def printed(obj, cls):
        pr = AObj({'out': []}, oid='printer', cls='Print')
        call(fn('%s%s::printTo' % (NS, cls), 1), [pr], recv=obj)
        return ''.join(pr.attrs['out'])

    def parse(cls, wrapper, text):
        t = Text(text)
        f = fn('%s%s::%s' % (NS, cls, wrapper), 1, 'const char *')
        try:
            return call(f, [Ref(t, 0)]), t
        except IndexError:
            return 'reads outside the string', t

    def getf(obj, cls, name):
        return call(fn('%s%s::%s' % (NS, cls, name), 0), [], recv=obj)
    need = {}
    for cls, wr, const in (('LocalDate', 'forDateString', 'kDateStringLength'), ('LocalTime', 'forTimeString', 'kTimeStringLength'),
                           ('LocalDateTime', 'forDateString', 'kDateTimeStringLength'), ('TimeOffset', 'forOffsetString', 'kTimeOffsetStringLength'),
                           ('OffsetDateTime', 'forDateString', 'kDateStringLength')):
        need[cls] = lib.const('%s%s::%s' % (NS, cls, const))
    d, t, dt, of, odt = (need[k] for k in ('LocalDate', 'LocalTime', 'LocalDateTime', 'TimeOffset', 'OffsetDateTime'))
    ob('R2', 'length-constants', 'src/ace_time', dt == d + 1 + t and odt == dt + of and (d, t, of) == (10, 8, 6),
       'length constants do not compose: date %r, time %r, date-time %r, offset %r, offset-date-time %r' % (d, t, dt, of, odt))
    # ---- sample values
    dates = [(y, m, dd) for y in (1873, 1900, 1999, 2000, 2019, 2068, 2100, 2127) for m, dd in ((1, 1), (2, 28), (9, 5), (12, 31))]
    times = [(0, 0, 0), (23, 59, 59), (12, 34, 56), (9, 5, 7)]
    if thorough:
        # every year of the range at the month ends that matter, every day of a leap and a common year, every value of each
        # time field
        dim = (31, 28, 31, 30, 31, 30, 31, 31, 30, 31, 30, 31)
        dates = sorted(set(dates) | {(y, m, dd) for y in range(1873, 2128) for m, dd in ((1, 1), (2, 28), (3, 1), (9, 5), (10, 10), (12, 31))}
                       | {(y, m, dd) for y in (2000, 2019) for m in range(1, 13) for dd in range(1, dim[m - 1] + 1 + (y == 2000 and m == 2))})
        times = times + sorted({(h, 0, 0) for h in range(24)} | {(0, m, 0) for m in range(60)} | {(0, 0, x) for x in range(60)} - set(times))
        offs = list(range(-5999, 6000))
    else:
        offs = sorted(set(list(range(-5999, 6000, 37)) + list(range(-61, 62)) + [-5999, 5999, -960, 960, -480, 330, 345, 765]))

    def iso_off(m):
        return '%s%02d:%02d' % ('-' if m < 0 else '+', abs(m) // 60, abs(m) % 60)
    f_ldt = fn(NS + 'LocalDateTime::forComponents', 6)
    f_lt = fn(NS + 'LocalTime::forComponents', 3)
    f_ld = fn(NS + 'LocalDate::forComponents', 3)
    f_off = fn(NS + 'TimeOffset::forMinutes', 1)
    f_odt = fn(NS + 'OffsetDateTime::forComponents', 7)
    results = {}

    def bad(key, text):
        results.setdefault(key, text)
    n = {'LocalTime': 0, 'LocalDateTime': 0, 'TimeOffset': 0, 'OffsetDateTime': 0, 'LocalDate': 0, 'ZonedDateTime': 0}
    try:
        for (h, mi, s) in times:
            n['LocalTime'] += 1
            o = call(f_lt, [h, mi, s])
            txt = printed(o, 'LocalTime')
            want = '%02d:%02d:%02d' % (h, mi, s)
            if txt != want:
                bad(('R1', 'LocalTime'), 'LocalTime(%d, %d, %d) prints %r, ISO-8601 is %r' % (h, mi, s, txt, want))
                continue
            back, tx = parse('LocalTime', 'forTimeString', txt)
            got = tuple(getf(back, 'LocalTime', x) for x in ('hour', 'minute', 'second')) if isinstance(back, AObj) else back
            if got != (h, mi, s):
                bad(('R1', 'LocalTime'), '%r parses back as %r' % (txt, got))
            if tx.reads and max(tx.reads) > need['LocalTime']:
                bad(('R2', 'LocalTime'), 'parsing %r reads position %d, the wrapper guarantees %d characters' % (txt, max(tx.reads), need['LocalTime']))
        for (y, m, dd) in dates:
            n['LocalDate'] += 1
            o = call(f_ld, [y, m, dd])
            txt = printed(o, 'LocalDate')
            want = '%04d-%02d-%02d' % (y, m, dd)
            if not txt.startswith(want):
                bad(('R1', 'LocalDate'), 'LocalDate(%d, %d, %d) prints %r, expected it to start with %r' % (y, m, dd, txt, want))
            back, tx = parse('LocalDate', 'forDateString', want)
            got = tuple(getf(back, 'LocalDate', x) for x in ('year', 'month', 'day')) if isinstance(back, AObj) else back
            if got != (y, m, dd):
                bad(('R1', 'LocalDate'), '%r parses back as %r' % (want, got))
            if tx.reads and max(tx.reads) > need['LocalDate']:
                bad(('R2', 'LocalDate'), 'parsing %r reads position %d, the wrapper guarantees %d characters' % (want, max(tx.reads), need['LocalDate']))
            for (h, mi, s) in times[1:3]:
                n['LocalDateTime'] += 1
                o = call(f_ldt, [y, m, dd, h, mi, s])
                txt = printed(o, 'LocalDateTime')
                want = '%04d-%02d-%02dT%02d:%02d:%02d' % (y, m, dd, h, mi, s)
                if txt != want:
                    bad(('R1', 'LocalDateTime'), 'LocalDateTime(%s) prints %r, ISO-8601 is %r' % ((y, m, dd, h, mi, s), txt, want))
                    continue
                back, tx = parse('LocalDateTime', 'forDateString', txt)
                got = tuple(getf(back, 'LocalDateTime', x) for x in ('year', 'month', 'day', 'hour', 'minute', 'second')) if isinstance(back, AObj) else back
                if got != (y, m, dd, h, mi, s):
                    bad(('R1', 'LocalDateTime'), '%r parses back as %r' % (txt, got))
                if tx.reads and max(tx.reads) > need['LocalDateTime']:
                    bad(('R2', 'LocalDateTime'), 'parsing %r reads position %d, the wrapper guarantees %d characters' % (txt, max(tx.reads), need['LocalDateTime']))
        for m in offs:
            n['TimeOffset'] += 1
            o = call(f_off, [m])
            txt = printed(o, 'TimeOffset')
            if txt != iso_off(m):
                bad(('R3', 'TimeOffset::printTo:sign'), 'an offset of %d minutes prints %r, expected %r (the sign is the sign of the whole offset, both parts carry the magnitude)' % (m, txt, iso_off(m)))
                continue
            back, tx = parse('TimeOffset', 'forOffsetString', txt)
            got = getf(back, 'TimeOffset', 'toMinutes') if isinstance(back, AObj) else back
            if got != m:
                bad(('R3', 'TimeOffset::forOffsetStringChainable:sign'), '%r parses back as %r minutes, printed from %d' % (txt, got, m))
            if tx.reads and max(tx.reads) > need['TimeOffset']:
                bad(('R2', 'TimeOffset'), 'parsing %r reads position %d, the wrapper guarantees %d characters' % (txt, max(tx.reads), need['TimeOffset']))
        for (y, mo, dd) in dates[::3]:
            for m in (-480, -30, 0, 330, 765, -5999, 5999):
                n['OffsetDateTime'] += 1
                off = call(f_off, [m])
                o = call(f_odt, [y, mo, dd, 12, 34, 56, off])
                txt = printed(o, 'OffsetDateTime')
                want = '%04d-%02d-%02dT12:34:56%s' % (y, mo, dd, iso_off(m))
                if txt != want:
                    bad(('R1', 'OffsetDateTime'), 'OffsetDateTime(%s, offset %d min) prints %r, ISO-8601 is %r' % ((y, mo, dd), m, txt, want))
                    continue
                back, tx = parse('OffsetDateTime', 'forDateString', txt)
                got = (tuple(getf(back, 'OffsetDateTime', x) for x in ('year', 'month', 'day', 'hour', 'minute', 'second')) +
                       (getf(getf(back, 'OffsetDateTime', 'timeOffset'), 'TimeOffset', 'toMinutes'),)) if isinstance(back, AObj) else back
                if got != (y, mo, dd, 12, 34, 56, m):
                    bad(('R1', 'OffsetDateTime'), '%r parses back as %r' % (txt, got))
                if tx.reads and max(tx.reads) > need['OffsetDateTime']:
                    bad(('R2', 'OffsetDateTime'), 'parsing %r reads position %d, the wrapper guarantees %d characters' % (txt, max(tx.reads), need['OffsetDateTime']))
                # zoned: the same text, then the bracketed zone name, printed last
                n['ZonedDateTime'] += 1
                z = cxx_object(lib, NS + 'ZonedDateTime')
                z.attrs['mOffsetDateTime'] = o
                ztxt = printed(z, 'ZonedDateTime')
                if ztxt != want + '[Some/Zone]':
                    bad(('R1', 'ZonedDateTime::printTo:brackets'), 'a zoned date-time prints %r, expected %r' % (ztxt, want + '[Some/Zone]'))
    except Raised as r_:
        raise AnalysisError('C15: interpretation raised %s at %s' % (r_.what, r_.loc))
    for cls in ('LocalTime', 'LocalDateTime', 'OffsetDateTime'):
        pf = fn('%s%s::printTo' % (NS, cls), 1)
        R.instance('R1', '%s::printTo~for%sString' % (cls, 'Time' if cls == 'LocalTime' else 'Date'), pf.loc, '%d values' % n[cls], n=max(1, n[cls] // 8))
        if ('R1', cls) in results:
            R.violation('R1', '%s::printTo~for%sString' % (cls, 'Time' if cls == 'LocalTime' else 'Date'), pf.loc, results[('R1', cls)])
    pf = fn(NS + 'LocalDate::printTo', 1)
    R.instance('R1', 'LocalDate::printTo~forDateStringChainable', pf.loc, '%d values' % n['LocalDate'])
    if ('R1', 'LocalDate') in results:
        R.violation('R1', 'LocalDate::printTo~forDateStringChainable', pf.loc, results[('R1', 'LocalDate')])
    zf = fn(NS + 'ZonedDateTime::printTo', 1)
    ob('R1', 'ZonedDateTime::printTo:brackets', zf.loc, ('R1', 'ZonedDateTime::printTo:brackets') not in results, results.get(('R1', 'ZonedDateTime::printTo:brackets'), ''))
    tf = fn(NS + 'TimeOffset::printTo', 1)
    R.instance('R3', 'TimeOffset::printTo:sign', tf.loc, '%d offsets' % n['TimeOffset'], n=1)
    if ('R3', 'TimeOffset::printTo:sign') in results:
        R.violation('R3', 'TimeOffset::printTo:sign', tf.loc, results[('R3', 'TimeOffset::printTo:sign')])
    cf = fn(NS + 'TimeOffset::forOffsetStringChainable', 1)
    R.instance('R3', 'TimeOffset::forOffsetStringChainable:sign', cf.loc, '%d offsets' % n['TimeOffset'], n=1)
    if ('R3', 'TimeOffset::forOffsetStringChainable:sign') in results:
        R.violation('R3', 'TimeOffset::forOffsetStringChainable:sign', cf.loc, results[('R3', 'TimeOffset::forOffsetStringChainable:sign')])
    # ---- R2: positions read, and short strings
    for cls, wr in (('LocalDate', 'forDateString'), ('LocalTime', 'forTimeString'), ('LocalDateTime', 'forDateString'), ('TimeOffset', 'forOffsetString'),
                    ('OffsetDateTime', 'forDateString')):
        wf = fn('%s%s::%s' % (NS, cls, wr), 1, 'const char *')
        c = '%s::%s' % (cls, wr)
        R.instance('R2', c, wf.loc)
        if ('R2', cls) in results:
            R.violation('R2', c, wf.loc, results[('R2', cls)])
        # every shorter string is refused without being read past its end
        msg = None
        full = {'LocalDate': '2019-03-10', 'LocalTime': '12:34:56', 'LocalDateTime': '2019-03-10T12:34:56', 'TimeOffset': '+05:30',
                'OffsetDateTime': '2019-03-10T12:34:56+05:30'}[cls]
        for k in range(0, need[cls]):
            try:
                back, tx = parse(cls, wr, full[:k])
            except Raised as r_:
                msg = 'a string of %d characters: %s' % (k, r_.what)
                break
            if not isinstance(back, AObj):
                msg = 'a string of %d characters: %s' % (k, back)
                break
            if not getf(back, cls, 'isError'):
                msg = 'a string of %d characters (%r) does not parse to an error value' % (k, full[:k])
                break
        R.instance('R2', c + ':short', wf.loc)
        if msg:
            R.violation('R2', c + ':short', wf.loc, msg)
        # the overload that takes a string in flash memory (it copies the text into a local buffer and goes on from there): the same
        # prefixes must be refused, the full text accepted, a text one character longer refused
        flash = [f_ for f_ in lib.fns('%s%s::%s' % (NS, cls, wr)) if len(f_.params) == 1 and '__FlashStringHelper' in (f_.params[0][1] or '')]
        for ff in flash:
            from .rules_C04b import _cstring_ops
            cops = _cstring_ops()

            def strlen2(ev_, recv_, args_, cops=cops):
                a_ = args_[0]
                if isinstance(a_, Ref) and isinstance(a_.box, Text):
                    return a_.box.length() - a_.key
                return cops['strlen'](ev_, recv_, args_)
            intr2 = dict(intr)
            intr2.update({k_: v_ for k_, v_ in cops.items() if 'strlen' not in k_})
            intr2.update({'strlen': strlen2, '::strlen': strlen2, 'strncpy_P': cops['strncpy'], '::strncpy_P': cops['strncpy']})
            msg2 = None
            for k in list(range(0, need[cls] + 1)) + [need[cls] + 1]:
                text = full[:k] if k <= need[cls] else full + '0'
                t2 = Text(text)
                try:
                    back = AEval(module=mod, intrinsics=intr2, typed=True, max_steps=200000).call_function(ff.name, [Ref(t2, 0)], chosen=CxxModule._Fn(ff))
                except IndexError:
                    msg2 = 'a flash string of %d characters (%r): the copy or the parser reads or writes outside its buffer' % (len(text), text)
                    break
                except Raised as r_:
                    msg2 = 'a flash string of %d characters: %s' % (len(text), r_.what)
                    break
                if not isinstance(back, AObj):
                    msg2 = 'a flash string of %d characters: %r' % (len(text), back)
                    break
                err = bool(getf(back, cls, 'isError'))
                if err != (k != need[cls]):
                    msg2 = ('a flash string of %d characters (%r) %s' % (len(text), text, 'does not parse to an error value' if not err else 'is refused although it is complete'))
                    break
            R.instance('R2', c + ':flash', ff.loc)
            if msg2:
                R.violation('R2', c + ':flash', ff.loc, msg2)
    # ---- R4 placeholders
    for cls in ('LocalDate', 'LocalTime', 'LocalDateTime', 'OffsetDateTime', 'ZonedDateTime'):
        pf = fn('%s%s::printTo' % (NS, cls), 1)
        err = call(fn('%s%s::forError' % (NS, cls), 0), [])
        txt = printed(err, cls)
        ob('R4', '%s::printTo:error' % cls, pf.loc, txt == '<Invalid %s>' % cls, 'the error value prints %r, documented placeholder "<Invalid %s>"' % (txt, cls))


def run(cfg):
    R = Report('C15', cfg)
    lib = cxx.load_lib(cfg)
    R.analysed['translation_units'] = ['tu/lib.cpp']
    R.rule('R1', 'printed text is the ISO-8601 form of the fields and parses back to equal fields (interpreted on sampled values)', floor=5)
    R.rule('R2', 'no parser reads at or beyond the length its wrapper tests; shorter strings give error values; the length constants compose', floor=6)
    R.rule('R3', 'TimeOffset: sign and magnitude of every offset of +-99:59 print and parse back', floor=2)
    R.rule('R4', 'error values print their documented placeholder', floor=5)

    def ob(rid, c, loc, ok, msg):
        R.instance(rid, c, loc)
        if not ok:
            R.violation(rid, c, loc, msg)
    roundtrip_rules(R, lib, ob)
    # R5 parsers keep the parsed fields: no detour through the 32-bit epoch-seconds count (it only spans 1932..2067,
    # the printed fields span 1873..2127)
    R.rule('R5', 'no for*String parser routes the parsed fields through epoch seconds', floor=6)
    lossy = ('::toEpochSeconds', '::forEpochSeconds', '::toUnixSeconds', '::forUnixSeconds', '::toEpochDays', '::forEpochDays')
    memo = {}

    def reaches(q, depth=0):
        if q in memo:
            return memo[q]
        memo[q] = None
        if q.endswith(lossy):
            memo[q] = [q]
            return memo[q]
        if depth > 4:
            return None
        for f in lib.fns(q):
            for e in all_exprs_of(f):
                if e.k == 'call' and e.a[0].startswith('ace_time::'):
                    r = reaches(e.a[0], depth + 1)
                    if r:
                        memo[q] = [q] + r
                        return memo[q]
        return None
    for cls in ('LocalDate', 'LocalTime', 'LocalDateTime', 'TimeOffset', 'OffsetDateTime', 'ZonedDateTime'):
        for q, fs in lib.funcs.items():
            if not (q.startswith(NS + cls + '::for') and 'String' in q.split('::')[-1]):
                continue
            for f in fs:
                c = '%s::%s' % (cls, q.split('::')[-1])
                R.instance('R5', c, f.loc)
                for e in all_exprs_of(f):
                    if e.k == 'call' and e.a[0].startswith('ace_time::'):
                        chain = reaches(e.a[0])
                        if chain:
                            R.violation('R5', c, e.loc, 'the parsed value is passed through %s: years outside the 32-bit epoch-seconds range (1932..2067) '
                                        'that print correctly parse back as a different date' % ' -> '.join(x.split('ace_time::')[-1] for x in chain))
                            break
    # R6 the parsers are as lenient as the printers are generous: a chainable parser may refuse a character (the sign),
    # never a numeric field value - every value a printer can emit has to parse back
    R.rule('R6', 'no chainable parser rejects on the value of a parsed numeric field', floor=5)
    for cls in ('LocalDate', 'LocalTime', 'LocalDateTime', 'TimeOffset', 'OffsetDateTime'):
        for q, fs in lib.funcs.items():
            if not (q.startswith(NS + cls + '::for') and q.endswith('StringChainable')):
                continue
            for f in fs:
                c = '%s::%s:rejections' % (cls, q.split('::')[-1])
                R.instance('R6', c, f.loc)
                numeric = set()
                for s in walk_stmts(f.body):
                    tgt = val = None
                    if s.k == 'decl' and s.a[2] is not None:
                        tgt, val = s.a[0], s.a[2]
                    elif s.k == 'assign' and s.a[0].k == 'var':
                        tgt, val = s.a[0].a[0], s.a[1]
                    if tgt is not None and any(x.k == 'bin' and x.a[0] == '-' and _chr(x.a[2]) == '0' for x in walk_expr(val)):
                        numeric.add(tgt)
                    elif tgt is not None and any(x.k == 'var' and x.a[0] in numeric for x in walk_expr(val)):
                        numeric.add(tgt)
                for s in walk_stmts(f.body):
                    if s.k == 'if' and any(x.k == 'return' and x.a[0] is not None and any(y.k == 'call' and y.a[0].endswith('::forError') for y in walk_expr(x.a[0])) for x in s.a[1]):
                        used = sorted({x.a[0] for x in walk_expr(s.a[0]) if x.k == 'var' and x.a[0] in numeric})
                        if used:
                            R.violation('R6', c, s.loc, 'the parser returns forError() depending on the parsed field(s) %s (%s): a value the printer emits for that field is '
                                        'no longer read back' % (', '.join(used), show(s.a[0])[:80]))
    return R


def all_exprs_of(f):
    from .ir import all_exprs
    return all_exprs(f.body)


def _chr(e):
    while e.k == 'cast':
        e = e.a[2]
    return chr(e.a[0]) if e.k == 'const' and 0 < e.a[0] < 128 else None


SELFTEST = [
    dict(id='date-separator-slash', file='src/ace_time/LocalDateTime.cpp', unique=False, nth=0,
         find="  printer.print('-');\n  printPad2To(printer, mLocalDate.month(), '0');", replace="  printer.print('/');\n  printPad2To(printer, mLocalDate.month(), '0');", rule='R1', construct='LocalDateTime'),
    dict(id='print-day-before-month', file='src/ace_time/LocalDateTime.cpp',
         find="  printPad2To(printer, mLocalDate.month(), '0');\n  printer.print('-');\n  printPad2To(printer, mLocalDate.day(), '0');",
         replace="  printPad2To(printer, mLocalDate.day(), '0');\n  printer.print('-');\n  printPad2To(printer, mLocalDate.month(), '0');", rule='R1', construct='LocalDateTime::printTo~'),
    dict(id='space-padding', file='src/ace_time/LocalTime.cpp', find="printPad2To(printer, mMinute, '0');", replace="printPad2To(printer, mMinute, ' ');", rule='R1', construct='LocalTime'),
    dict(id='parser-skips-extra-char', file='src/ace_time/LocalDateTime.cpp', find="  // 'T'\n  s++;\n", replace="  // 'T'\n  s += 2;\n", rule='R'),
    dict(id='wrapper-length-too-short', file='src/ace_time/LocalTime.cpp', find='  if (strlen(timeString) < kTimeStringLength) {', replace='  if (strlen(timeString) < kTimeStringLength - 2) {', rule='R2'),
    dict(id='length-constant-changed', file='src/ace_time/OffsetDateTime.h', find='static const uint8_t kDateStringLength = 25;', replace='static const uint8_t kDateStringLength = 24;', rule='R2'),
    dict(id='minute-not-negated-when-printing', file='src/ace_time/TimeOffset.cpp', find='    hour = -hour;\n    minute = -minute;', replace='    hour = -hour;', rule='R3'),
    dict(id='parser-sign-on-hour-only', file='src/ace_time/TimeOffset.cpp', find='    return forHourMinute(-hour, -minute);', replace='    return forHourMinute(-hour, minute);', rule='R3'),
    dict(id='placeholder-dropped', file='src/ace_time/OffsetDateTime.cpp',
         find='  if (isError()) {\n    printer.print(F("<Invalid OffsetDateTime>"));\n    return;\n  }\n', replace='', rule='R4'),
    dict(id='offset-parser-rejects-large-hours', file='src/ace_time/TimeOffset.cpp', find="  offsetString = s;\n  if (utcSign == '+') {", replace="  offsetString = s;\n  if (hour > 23 || minute > 59) return forError();\n  if (utcSign == '+') {", rule='R6'),
    dict(id='zoned-parse-through-epoch', file='src/ace_time/ZonedDateTime.h', regex=True, unique=False, nth=0,
         find=r'(static ZonedDateTime forDateString\(const char\* dateString\) \{\n      OffsetDateTime dt = OffsetDateTime::forDateString\(dateString\);\n)      return ZonedDateTime\(dt, TimeZone::forTimeOffset\(dt.timeOffset\(\)\)\);',
         replace=r'\1      return forEpochSeconds(dt.toEpochSeconds(), TimeZone::forTimeOffset(dt.timeOffset()));', rule='R5'),
    dict(id='zone-brackets', file='src/ace_time/ZonedDateTime.cpp', find="  printer.print('[');", replace="  printer.print('(');", rule='R1', construct='brackets'),
    # behaviour-preserving rewrites: the rules must stay quiet
    dict(id='offset-print-branches-swapped-silent', file='src/ace_time/TimeOffset.cpp',
         find="  if (mMinutes < 0) {\n    printer.print('-');\n    hour = -hour;\n    minute = -minute;\n  } else {\n    printer.print('+');\n  }",
         replace="  if (mMinutes >= 0) {\n    printer.print('+');\n  } else {\n    printer.print('-');\n    hour = -hour;\n    minute = -minute;\n  }", expect='silent'),
    dict(id='offset-parse-branches-swapped-silent', file='src/ace_time/TimeOffset.cpp',
         find="  if (utcSign == '+') {\n    return forHourMinute(hour, minute);\n  } else {\n    return forHourMinute(-hour, -minute);\n  }",
         replace="  if (utcSign == '-') {\n    return forHourMinute(-hour, -minute);\n  }\n  return forHourMinute(hour, minute);", expect='silent'),
    dict(id='time-parser-skip-spelled-plus-one-silent', file='src/ace_time/LocalTime.cpp', unique=False, nth=0,
         find="  // ':'\n  s++;\n", replace="  // ':'\n  s += 1;\n", expect='silent'),
    dict(id='time-parser-indexed-digits-silent', file='src/ace_time/LocalTime.cpp',
         find="  uint8_t hour = (*s++ - '0');\n  hour = 10 * hour + (*s++ - '0');\n", replace="  uint8_t hour = 10 * (s[0] - '0') + (s[1] - '0');\n  s += 2;\n", expect='silent'),
]
