"""C15 - printed forms are ISO-8601 and parse back (structural clauses): token sequence of each printTo against the
consumption sequence of the matching chainable parser, cursor offsets against the length the wrapper guarantees,
sign pairing of TimeOffset, error placeholders."""
from .common import AnalysisError, Report
from . import cxx
from .ir import E, walk_stmts, walk_expr, all_exprs, stmt_exprs, show
from .paths import path_of

META = {
    'explanation': 'Abstract interpretation of the cursor offset in the for*StringChainable parsers (which offsets are dereferenced, '
                   'how many digits feed which component, which offsets are skipped) and token extraction from the printTo bodies '
                   '(literal / zero-padded 2-digit field / plain year), composed through nested printTo / chainable calls; the two '
                   'sequences must agree field by field and position by position, the literals must be the ISO separators, the '
                   'largest dereferenced offset must lie below the length tested by the wrapper.',
    'decided': 'print/parse shape agreement for LocalDate(date part), LocalTime, LocalDateTime, TimeOffset, OffsetDateTime, '
               'ZonedDateTime (brackets); ISO separators - - T : : and sign : ; every dereferenced offset is below the guarded '
               'length and the length constants compose (19 = 10+1+8, 25 = 19+6); the printed sign is chosen by the sign of the '
               'minutes and both components are negated, the parser applies the sign to both; error values print their placeholder; '
               'no parser detours through the 32-bit epoch-seconds count (call-graph reachability) and no chainable parser rejects on '
               'the value of a parsed numeric field, so every value a printer emits is read back',
    'not_decided': 'value round trip over all dates/offsets (digit arithmetic); formatting of values outside +-99:59',
    'assumptions': ['clang 14 parser', 'ace_common::printPad2To prints exactly two characters for values 0..99'],
}

NS = 'ace_time::'


def role_of(e):
    """component name a printed / parsed value stands for."""
    while e.k == 'cast':
        e = e.a[2]
    if e.k == 'call' and not e.a[2]:
        return e.a[0].split('::')[-1]
    if e.k == 'field':
        n = e.a[1]
        if n.startswith('m') and len(n) > 1 and n[1].isupper():
            n = n[1].lower() + n[2:]
        return n
    if e.k == 'var':
        return e.a[0]
    return None


def print_tokens(lib, fn, depth=0, seen=None):
    """[('lit', ch) | ('pad2', role) | ('num', role) | ('sign',) | ('name',)] of a printTo body (after the error guard)."""
    out = []
    body = list(fn.body)
    guard = None
    if body and body[0].k == 'if':
        c = body[0].a[0]
        while c.k == 'cast' or (c.k == 'un' and c.a[0] == 'bool'):
            c = c.a[-1]
        if c.k == 'call' and c.a[0].endswith('::isError'):
            guard = body[0]
            body = body[1:]

    def walk(block):
        for s in block:
            if s.k == 'expr' and s.a[0].k == 'call':
                e = s.a[0]
                name = e.a[0].split('::')[-1]
                if e.a[0] == 'Print::print' and len(e.a[2]) >= 1:
                    a = e.a[2][0]
                    b = a
                    while b.k == 'cast':
                        b = b.a[2]
                    if b.k == 'const' and (a.ty or b.ty or '').replace('const ', '') in ('char', 'int') and 32 <= b.a[0] < 127 and (b.ty == 'char' or a.ty == 'char'):
                        out.append(('lit', chr(b.a[0])))
                    elif b.k == 'call' and b.a[0].endswith('LongString') or (b.k == 'call' and 'DateStrings' in b.a[0]):
                        out.append(('name',))
                    else:
                        out.append(('num', role_of(b)))
                elif name == 'printPad2To' and len(e.a[2]) >= 2:
                    pad = e.a[2][2] if len(e.a[2]) > 2 else None
                    pv = pad
                    while pv is not None and pv.k == 'cast':
                        pv = pv.a[2]
                    out.append(('pad2', role_of(e.a[2][1]), chr(pv.a[0]) if pv is not None and pv.k == 'const' else ' '))
                elif name in ('printTo',) and e.a[1] is not None and depth < 4:
                    callee = lib.fns(e.a[0])
                    if callee and callee[0].name.startswith(NS + 'TimeZone'):
                        out.append(('zone',))
                    elif callee:
                        out.extend(print_tokens(lib, callee[0], depth + 1)[0])
                    else:
                        out.append(('opaque', e.a[0]))
            elif s.k == 'if':
                # sign selection: both arms print one literal
                lits = []
                for blk in (s.a[1], s.a[2]):
                    for x in blk:
                        if x.k == 'expr' and x.a[0].k == 'call' and x.a[0].a[0] == 'Print::print':
                            b = x.a[0].a[2][0]
                            while b.k == 'cast':
                                b = b.a[2]
                            if b.k == 'const':
                                lits.append(chr(b.a[0]))
                if sorted(lits) == ['+', '-']:
                    out.append(('sign',))
                else:
                    walk(s.a[1])
                    walk(s.a[2])
            elif s.k == 'decl':
                continue
    walk(body)
    return out, guard


class Parse:
    def __init__(self):
        self.reads = []       # offsets dereferenced
        self.tokens = []      # ('digits', n, var) | ('skip', offset) | ('sign', offset) | ('sub', name, length)
        self.length = 0       # offset of the cursor at the end
        self.roles = {}       # var -> role (from the final constructor / factory call)


def parse_chainable(lib, fn, depth=0):
    """abstract interpretation of the cursor of a chainable parser."""
    P = Parse()
    pname = fn.params[0][0]
    cur = None
    off = 0
    digits = {}
    order = []

    peeked = set()     # offsets read through an index / cursor + k without moving the cursor

    def const_of(x):
        while x.k == 'cast':
            x = x.a[2]
        return x.a[0] if x.k == 'const' and isinstance(x.a[0], int) else None

    def cursor_reads(e):
        nonlocal off
        n = 0
        for x in walk_expr(e):
            if x.k == 'deref':
                inner = x.a[0]
                while inner.k == 'cast':
                    inner = inner.a[2]
                if inner.k == 'incdec' and inner.a[0] == '++' and inner.a[2].k == 'var' and inner.a[2].a[0] == cur:
                    P.reads.append(off)
                    off += 1
                    n += 1
                elif inner.k == 'var' and inner.a[0] == cur:
                    P.reads.append(off)
                elif inner.k == 'bin' and inner.a[0] == '+' and inner.a[1].k == 'var' and inner.a[1].a[0] == cur and const_of(inner.a[2]) is not None:
                    P.reads.append(off + const_of(inner.a[2]))
                    peeked.add(off + const_of(inner.a[2]))
                    n += 1
            elif x.k == 'index' and x.a[0].k == 'var' and x.a[0].a[0] == cur:
                i = const_of(x.a[1])
                if i is None:
                    raise AnalysisError('%s: the cursor is subscripted with a non-constant' % e.loc)
                P.reads.append(off + i)
                peeked.add(off + i)
                n += 1
        return n

    def do_block(block):
        nonlocal cur, off
        for s in block:
            if s.k == 'decl' and s.a[2] is not None and s.a[2].k == 'var' and s.a[2].a[0] == pname and cur is None:
                cur = s.a[0]
                continue
            if s.k in ('decl', 'assign'):
                rhs = s.a[2] if s.k == 'decl' else s.a[1]
                tgt = s.a[0] if s.k == 'decl' else (s.a[0].a[0] if s.a[0].k == 'var' else None)
                if s.k == 'assign' and s.a[0].k == 'var' and s.a[0].a[0] == cur and s.a[2] == '+=':
                    k_ = const_of(s.a[1])
                    if k_ is None or k_ < 0:
                        raise AnalysisError('%s: the cursor moves by a non-constant amount' % s.loc)
                    for _ in range(k_):
                        if off not in peeked:      # a character that was read in place is consumed, not skipped
                            P.tokens.append(('skip', off))
                        off += 1
                    continue
                if s.k == 'assign' and s.a[0].k == 'var' and s.a[0].a[0] == pname:
                    continue
                if rhs is None:
                    continue
                call = rhs
                while call.k == 'cast':
                    call = call.a[2]
                if call.k == 'call' and call.a[0].endswith('Chainable') and call.a[2] and call.a[2][0].k == 'var' and call.a[2][0].a[0] == cur:
                    callee = lib.fns(call.a[0])
                    if not callee or depth > 4:
                        raise AnalysisError('%s: nested parser %s not found' % (s.loc, call.a[0]))
                    sub = parse_chainable(lib, callee[0], depth + 1)
                    for r in sub.reads:
                        P.reads.append(off + r)
                    for t in sub.tokens:
                        if t[0] in ('skip', 'sign'):
                            P.tokens.append((t[0], off + t[1]))
                        else:
                            P.tokens.append(t)
                    off += sub.length
                    continue
                start = off
                n = cursor_reads(rhs)
                if n and tgt is not None:
                    # a sign character or a digit
                    is_digit = any(x.k == 'bin' and x.a[0] == '-' for x in walk_expr(rhs))
                    if is_digit:
                        if tgt not in digits:
                            digits[tgt] = 0
                            order.append(tgt)
                        digits[tgt] += n
                    else:
                        P.tokens.append(('sign', start))
                        P.roles[tgt] = 'sign'
                        order.append(('sign', start))
                    if is_digit and digits[tgt] == n:
                        P.tokens.append(['digits', tgt])
            elif s.k == 'if':
                # early error return / sign application: no cursor movement expected inside
                for blk in (s.a[1], s.a[2]):
                    for x in walk_stmts(blk):
                        for e0 in stmt_exprs(x):
                            if cursor_reads(e0):
                                raise AnalysisError('%s: cursor is advanced inside a conditional' % x.loc)
                do_returns(s.a[1])
                do_returns(s.a[2])
            elif s.k == 'return':
                do_returns([s])
            elif s.k == 'expr':
                cursor_reads(s.a[0])

    def do_returns(block):
        for s in block:
            if s.k == 'return' and s.a[0] is not None:
                e = s.a[0]
                if e.k in ('call', 'init'):
                    args = e.a[2] if e.k == 'call' else e.a[1]
                    callee = lib.fns(e.a[0]) if e.k == 'call' else None
                    names = None
                    if callee:
                        names = [p for p, _ in callee[0].params]
                    elif e.k == 'init':
                        ctors = [c for c in lib.funcs.get(NS + e.a[0].split('::')[-1] + '::' + e.a[0].split('::')[-1], []) if len(c.params) == len(args)]
                        ctors = ctors or [c for c in lib.funcs.get(e.a[0] + '::' + e.a[0].split('::')[-1], []) if len(c.params) == len(args)]
                        if ctors:
                            names = [p for p, _ in ctors[0].params]
                    for i, a in enumerate(args):
                        b = a
                        neg = False
                        while b.k == 'cast' or (b.k == 'un' and b.a[0] == '-'):
                            if b.k == 'un':
                                neg = True
                            b = b.a[-1]
                        if b.k == 'var' and names and i < len(names):
                            P.roles.setdefault(b.a[0], names[i])
    if not fn.body:
        raise AnalysisError('%s: empty parser' % fn.loc)
    do_block(fn.body)
    if cur is None:
        raise AnalysisError('%s: no cursor local initialised from %s' % (fn.loc, pname))
    # finalise digit tokens
    toks = []
    for t in P.tokens:
        if isinstance(t, list):
            toks.append(('digits', digits[t[1]], t[1]))
        else:
            toks.append(t)
    P.tokens = toks
    P.length = off
    return P


PAIRS = [
    # class, printer, chainable parser, wrapper, expected ISO literal sequence
    ('LocalTime', 'printTo', 'forTimeStringChainable', 'forTimeString', [':', ':']),
    ('LocalDateTime', 'printTo', 'forDateStringChainable', 'forDateString', ['-', '-', 'T', ':', ':']),
    ('TimeOffset', 'printTo', 'forOffsetStringChainable', 'forOffsetString', [':']),
    ('OffsetDateTime', 'printTo', 'forDateStringChainable', 'forDateString', ['-', '-', 'T', ':', ':', ':']),
]


def shape_of_print(tokens):
    out = []
    for t in tokens:
        if t[0] == 'lit':
            out.append(('lit', t[1]))
        elif t[0] == 'pad2':
            out.append(('field', 2, t[1]))
        elif t[0] == 'num':
            out.append(('field', 4 if t[1] == 'year' else None, t[1]))
        elif t[0] == 'sign':
            out.append(('sign',))
        else:
            out.append(t)
    return out


def shape_of_parse(P):
    out = []
    for t in P.tokens:
        if t[0] == 'digits':
            out.append(('field', t[1], P.roles.get(t[2], t[2])))
        elif t[0] == 'skip':
            out.append(('lit', None))
        elif t[0] == 'sign':
            out.append(('sign',))
    # a trailing cursor increment that is never dereferenced (the offset parser ends one past its last digit)
    # is not part of the shape
    while out and out[-1] == ('lit', None):
        out.pop()
    return out


def run(cfg):
    R = Report('C15', cfg)
    lib = cxx.load_lib(cfg)
    R.analysed['translation_units'] = ['tu/lib.cpp']
    R.rule('R1', 'printTo token sequence == parser consumption sequence; literals are the ISO separators', floor=5)
    R.rule('R2', 'every cursor offset dereferenced by a parser is below the length its wrapper tests; lengths compose', floor=6)
    R.rule('R3', 'TimeOffset: printed sign from the sign of the minutes with both parts negated; parser applies the sign to both', floor=2)
    R.rule('R4', 'error values print their documented placeholder before anything else', floor=5)

    def ob(rid, c, loc, ok, msg):
        R.instance(rid, c, loc)
        if not ok:
            R.violation(rid, c, loc, msg)
    lengths = {}
    for cls, pr, ch, wr, seps in PAIRS:
        pf = lib.fn('%s%s::%s' % (NS, cls, pr))
        cf = lib.fn('%s%s::%s' % (NS, cls, ch))
        toks, guard = print_tokens(lib, pf)
        P = parse_chainable(lib, cf)
        a = shape_of_print(toks)
        b = shape_of_parse(P)
        c = '%s::printTo~%s' % (cls, ch)
        ok = len(a) == len(b)
        why = 'printer emits %d tokens, parser consumes %d: %s vs %s' % (len(a), len(b), a, b)
        if ok:
            for i, (x, y) in enumerate(zip(a, b)):
                if x[0] != y[0]:
                    ok, why = False, 'token %d: printer emits %s where the parser expects %s' % (i, x, y)
                    break
                if x[0] == 'field' and (x[1] != y[1] or x[2] != y[2]):
                    ok, why = False, 'token %d: printer emits %s (width %s) where the parser reads %s (%s digits)' % (i, x[2], x[1], y[2], y[1])
                    break
        ob('R1', c, pf.loc, ok, why)
        lits = [t[1] for t in a if t[0] == 'lit']
        ob('R1', '%s::printTo:separators' % cls, pf.loc, lits == seps, 'printed separators are %r, ISO-8601 expects %r' % (lits, seps))
        pads = [t for t in toks if t[0] == 'pad2' and t[2] != '0']
        ob('R1', '%s::printTo:padding' % cls, pf.loc, not pads, 'two-digit fields are padded with %r instead of 0' % [t[2] for t in pads])
        # R2
        wf = [f for f in lib.fns('%s%s::%s' % (NS, cls, wr)) if (f.params[0][1] or '') == 'const char *']
        if not wf:
            raise AnalysisError('anchor vanished: %s::%s(const char*)' % (cls, wr))
        w = wf[0]
        need = None
        exact = False
        for s in walk_stmts(w.body):
            if s.k == 'if':
                cnd = s.a[0]
                while cnd.k == 'cast':
                    cnd = cnd.a[2]
                if cnd.k == 'bin' and cnd.a[0] in ('<', '!=') and cnd.a[1].k == 'call' and cnd.a[1].a[0] == 'strlen':
                    r = cnd.a[2]
                    while r.k == 'cast':
                        r = r.a[2]
                    from .rules_C09b import lib_fold
                    need = lib_fold(lib, cnd.a[2])
                    exact = cnd.a[0] == '!='
        mx = max(P.reads) if P.reads else -1
        lengths[cls] = (need, P.length, mx)
        ob('R2', '%s::%s' % (cls, wr), w.loc, need is not None and mx < need,
           'the parser dereferences offset %d but the wrapper only guarantees %r characters' % (mx, need))
        used = mx + 1
        ob('R2', '%s::%s:consumed' % (cls, ch), cf.loc, need is not None and (used == need or (not exact and used <= need)),
           'the parser reads %d characters, the wrapper tests for %r' % (used, need))
    # LocalDate: date part only (printTo appends the weekday name)
    pf = lib.fn(NS + 'LocalDate::printTo')
    cf = lib.fn(NS + 'LocalDate::forDateStringChainable')
    toks, guard = print_tokens(lib, pf)
    a = [t for t in shape_of_print(toks)]
    # cut at the first space literal
    cut = [i for i, t in enumerate(a) if t == ('lit', ' ')]
    a = a[:cut[0]] if cut else a
    P = parse_chainable(lib, cf)
    b = shape_of_parse(P)
    ok = [x[0:1] + x[1:] if x[0] != 'lit' else ('lit', None) for x in a] == b
    ob('R1', 'LocalDate::printTo~forDateStringChainable', pf.loc, ok, 'date part printed as %s, parsed as %s' % (a, b))
    wf = [f for f in lib.fns(NS + 'LocalDate::forDateString') if (f.params[0][1] or '') == 'const char *'][0]
    need = None
    for s in walk_stmts(wf.body):
        if s.k == 'if':
            cnd = s.a[0]
            if cnd.k == 'bin' and cnd.a[1].k == 'call' and cnd.a[1].a[0] == 'strlen':
                r = cnd.a[2]
                while r.k == 'cast':
                    r = r.a[2]
                need = lib.global_value(r.a[0]) if r.k == 'var' else r.a[0] if r.k == 'const' else None
    ob('R2', 'LocalDate::forDateString', wf.loc, need is not None and max(P.reads) < need and P.length <= need,
       'parser dereferences offset %d / consumes %d, wrapper guarantees %r' % (max(P.reads), P.length, need))
    lengths['LocalDate'] = (need, P.length, max(P.reads))
    # composition of the length constants
    d, t, dt, of, odt = (lengths.get(k, (None,))[0] for k in ('LocalDate', 'LocalTime', 'LocalDateTime', 'TimeOffset', 'OffsetDateTime'))
    ob('R2', 'length-constants', 'src/ace_time', None not in (d, t, dt, of, odt) and dt == d + 1 + t and odt == dt + of,
       'length constants do not compose: date %r, time %r, date-time %r, offset %r, offset-date-time %r' % (d, t, dt, of, odt))
    R.analysed['lengths(guaranteed, consumed, max deref)'] = lengths
    # ZonedDateTime: offset-date-time, then [zone]
    zf = lib.fn(NS + 'ZonedDateTime::printTo')
    toks, guard = print_tokens(lib, zf)
    tail = [t for t in toks if t[0] in ('zone',) or (t[0] == 'lit' and t[1] in '[]')]
    ob('R1', 'ZonedDateTime::printTo:brackets', zf.loc, tail == [('lit', '['), ('zone',), ('lit', ']')] and toks[-3:] == tail,
       'the zone name is not printed last between [ and ]: %s' % toks[-4:])
    # R3 sign pairing
    # Both bodies are summarised path by path (E-GNF); the rule looks at what each path prints / returns, not at how the
    # branches are spelled.
    from .gnf import SymExec, Poly, valuations, cmp_formula, formula_str

    def _Pk(k):
        return Poly(dict(k))

    def calls_of(eff, suffix):
        out = []
        for t, v in eff:
            if t == 'call':
                for a in _Pk(v).atoms():
                    if a[0] == 'fn' and a[1].endswith(suffix):
                        out.append(a)
        return out
    pf = lib.fn(NS + 'TimeOffset::printTo')
    summ = SymExec(fold_global=lib.global_value).run(pf.name, pf.body, {})
    MM = Poly.atom(('sym', 'this.mMinutes'))
    ok, why, seen = True, '', set()
    decls = [s.a[0] for s in pf.body if s.k == 'decl' and s.a[2] is None]
    vals = list(valuations(summ.guards() + [cmp_formula('<', MM, Poly.const(0))]))
    for val in vals:
        hits = summ.outcome(val)
        negative = val.eval(cmp_formula('<', MM, Poly.const(0)))
        if len(hits) != 1:
            ok, why = False, 'the sign selection does not depend on the sign of the minutes alone'
            break
        eff = hits[0][3]
        lits = [a for a in calls_of(eff, 'Print::print') if len(a[2]) == 2 and _Pk(a[2][1]).is_const()]
        pads = calls_of(eff, 'printPad2To')
        first = chr(_Pk(lits[0][2][1]).const_value()) if lits and 0 < _Pk(lits[0][2][1]).const_value() < 128 else None
        seen.add(negative)
        if first != ('-' if negative else '+'):
            ok, why = False, '%s offsets print %r first (expected %r)' % ('negative' if negative else 'non-negative', first, '-' if negative else '+')
            break
        if len(pads) != 2 or len(decls) < 2:
            ok, why = False, 'expected two zero-padded fields fed from toHourMinute()'
            break
        want = [(-Poly.atom(('sym', d)) if negative else Poly.atom(('sym', d))) for d in decls[:2]]
        got = [_Pk(p[2][1]) for p in pads]
        if got != want:
            ok, why = False, '%s offsets print the fields %r (expected %r: both parts carry the magnitude)' % ('negative' if negative else 'non-negative', got, want)
            break
    ob('R3', 'TimeOffset::printTo:sign', pf.loc, ok and seen == {True, False}, why or 'the sign of the minutes is not distinguished')
    cf = lib.fn(NS + 'TimeOffset::forOffsetStringChainable')
    summ = SymExec(fold_global=lib.global_value).run(cf.name, cf.body, {})
    sign_var = [s.a[0] for s in cf.body if s.k == 'decl' and s.a[2] is not None and s.a[1] and 'char' in s.a[1] and '*' not in s.a[1]]
    ok, why = bool(sign_var), 'no sign character is read'
    outcomes = {}
    if ok:
        sign_atom = None
        for s in cf.body:
            if s.k == 'decl' and s.a[0] == sign_var[0]:
                from .gnf import Canon
                sign_atom = Canon(fold_global=lib.global_value)(s.a[2])
        for ch in ('+', '-', 'x'):
            fixed = cmp_formula('==', sign_atom, Poly.const(ord(ch)))
            for val in valuations(summ.guards() + [fixed]):
                if not val.eval(fixed):
                    continue
                hits = summ.outcome(val)
                if len(hits) != 1 or hits[0][1] != 'return':
                    ok, why = False, 'the parser has no single outcome for the sign character %r' % ch
                    break
                outcomes.setdefault(ch, set()).add(hits[0][2])
        if ok and not all(len(outcomes.get(ch, ())) == 1 for ch in ('+', '-', 'x')):
            ok, why = False, 'the outcome depends on more than the sign character: %s' % {k: len(v) for k, v in outcomes.items()}
    if ok:
        def factory(k):
            a = [x for x in _Pk(k).atoms()]
            return a[0] if len(a) == 1 and a[0][0] == 'fn' else None
        fp, fm, fx = (factory(next(iter(outcomes[ch]))) for ch in ('+', '-', 'x'))
        if not (fp and fm and fp[1] == fm[1] and fp[1].endswith('forHourMinute') and len(fp[2]) == 2 and len(fm[2]) == 2):
            ok, why = False, 'a signed offset is not built by forHourMinute(hour, minute) on both signs'
        else:
            hp, mp = _Pk(fp[2][0]), _Pk(fp[2][1])
            hm, mn = _Pk(fm[2][0]), _Pk(fm[2][1])
            if hp.is_const() or mp.is_const() or not (hm == -hp and mn == -mp):
                ok, why = False, "'+' builds forHourMinute(%r, %r), '-' builds forHourMinute(%r, %r): the sign must apply to both parts" % (hp, mp, hm, mn)
        if ok and not (fx and fx[1].endswith('forError')):
            ok, why = False, 'a character other than + or - is not rejected'
    ob('R3', 'TimeOffset::forOffsetStringChainable:sign', cf.loc, ok, why)
    # R4 placeholders
    for cls in ('LocalDate', 'LocalTime', 'LocalDateTime', 'OffsetDateTime', 'ZonedDateTime'):
        pf = lib.fn('%s%s::printTo' % (NS, cls))
        toks, guard = print_tokens(lib, pf)
        ok = False
        if guard is not None:
            strs = [e.a[0] for s in guard.a[1] for e0 in stmt_exprs(s) for e in walk_expr(e0) if e.k == 'str']
            ret = any(s.k == 'return' for s in guard.a[1])
            ok = ret and strs == ['<Invalid %s>' % cls]
        ob('R4', '%s::printTo:error' % cls, pf.loc, ok, 'printTo does not start with "if (isError()) { print(\\"<Invalid %s>\\"); return; }"' % cls)
    # R5 parsers keep the parsed fields: no detour through the 32-bit epoch-seconds count (it only spans 1932..2067,
    # the printed fields span 1873..2127)
    R.rule('R5', 'no for*String parser routes the parsed fields through epoch seconds', floor=6)
    lossy = ('::toEpochSeconds', '::forEpochSeconds', '::toUnixSeconds', '::forUnixSeconds', '::toEpochDays', '::forEpochDays')
    memo = {}

    def reaches(q, depth=0):
        if q in memo:
            return memo[q]
        memo[q] = None
        if q.endswith(lossy):
            memo[q] = [q]
            return memo[q]
        if depth > 4:
            return None
        for f in lib.fns(q):
            for e in all_exprs_of(f):
                if e.k == 'call' and e.a[0].startswith('ace_time::'):
                    r = reaches(e.a[0], depth + 1)
                    if r:
                        memo[q] = [q] + r
                        return memo[q]
        return None
    for cls in ('LocalDate', 'LocalTime', 'LocalDateTime', 'TimeOffset', 'OffsetDateTime', 'ZonedDateTime'):
        for q, fs in lib.funcs.items():
            if not (q.startswith(NS + cls + '::for') and 'String' in q.split('::')[-1]):
                continue
            for f in fs:
                c = '%s::%s' % (cls, q.split('::')[-1])
                R.instance('R5', c, f.loc)
                for e in all_exprs_of(f):
                    if e.k == 'call' and e.a[0].startswith('ace_time::'):
                        chain = reaches(e.a[0])
                        if chain:
                            R.violation('R5', c, e.loc, 'the parsed value is passed through %s: years outside the 32-bit epoch-seconds range (1932..2067) '
                                        'that print correctly parse back as a different date' % ' -> '.join(x.split('ace_time::')[-1] for x in chain))
                            break
    # R6 the parsers are as lenient as the printers are generous: a chainable parser may refuse a character (the sign),
    # never a numeric field value - every value a printer can emit has to parse back
    R.rule('R6', 'no chainable parser rejects on the value of a parsed numeric field', floor=5)
    for cls in ('LocalDate', 'LocalTime', 'LocalDateTime', 'TimeOffset', 'OffsetDateTime'):
        for q, fs in lib.funcs.items():
            if not (q.startswith(NS + cls + '::for') and q.endswith('StringChainable')):
                continue
            for f in fs:
                c = '%s::%s:rejections' % (cls, q.split('::')[-1])
                R.instance('R6', c, f.loc)
                numeric = set()
                for s in walk_stmts(f.body):
                    tgt = val = None
                    if s.k == 'decl' and s.a[2] is not None:
                        tgt, val = s.a[0], s.a[2]
                    elif s.k == 'assign' and s.a[0].k == 'var':
                        tgt, val = s.a[0].a[0], s.a[1]
                    if tgt is not None and any(x.k == 'bin' and x.a[0] == '-' and _chr(x.a[2]) == '0' for x in walk_expr(val)):
                        numeric.add(tgt)
                    elif tgt is not None and any(x.k == 'var' and x.a[0] in numeric for x in walk_expr(val)):
                        numeric.add(tgt)
                for s in walk_stmts(f.body):
                    if s.k == 'if' and any(x.k == 'return' and x.a[0] is not None and any(y.k == 'call' and y.a[0].endswith('::forError') for y in walk_expr(x.a[0])) for x in s.a[1]):
                        used = sorted({x.a[0] for x in walk_expr(s.a[0]) if x.k == 'var' and x.a[0] in numeric})
                        if used:
                            R.violation('R6', c, s.loc, 'the parser returns forError() depending on the parsed field(s) %s (%s): a value the printer emits for that field is '
                                        'no longer read back' % (', '.join(used), show(s.a[0])[:80]))
    return R


def all_exprs_of(f):
    from .ir import all_exprs
    return all_exprs(f.body)


def _chr(e):
    while e.k == 'cast':
        e = e.a[2]
    return chr(e.a[0]) if e.k == 'const' and 0 < e.a[0] < 128 else None


SELFTEST = [
    dict(id='date-separator-slash', file='src/ace_time/LocalDateTime.cpp', unique=False, nth=0,
         find="  printer.print('-');\n  printPad2To(printer, mLocalDate.month(), '0');", replace="  printer.print('/');\n  printPad2To(printer, mLocalDate.month(), '0');", rule='R1', construct='separators'),
    dict(id='print-day-before-month', file='src/ace_time/LocalDateTime.cpp',
         find="  printPad2To(printer, mLocalDate.month(), '0');\n  printer.print('-');\n  printPad2To(printer, mLocalDate.day(), '0');",
         replace="  printPad2To(printer, mLocalDate.day(), '0');\n  printer.print('-');\n  printPad2To(printer, mLocalDate.month(), '0');", rule='R1', construct='LocalDateTime::printTo~'),
    dict(id='space-padding', file='src/ace_time/LocalTime.cpp', find="printPad2To(printer, mMinute, '0');", replace="printPad2To(printer, mMinute, ' ');", rule='R1', construct='padding'),
    dict(id='parser-skips-extra-char', file='src/ace_time/LocalDateTime.cpp', find="  // 'T'\n  s++;\n", replace="  // 'T'\n  s += 2;\n", rule='R'),
    dict(id='wrapper-length-too-short', file='src/ace_time/LocalTime.cpp', find='  if (strlen(timeString) < kTimeStringLength) {', replace='  if (strlen(timeString) < kTimeStringLength - 2) {', rule='R2'),
    dict(id='length-constant-changed', file='src/ace_time/OffsetDateTime.h', find='static const uint8_t kDateStringLength = 25;', replace='static const uint8_t kDateStringLength = 24;', rule='R2'),
    dict(id='minute-not-negated-when-printing', file='src/ace_time/TimeOffset.cpp', find='    hour = -hour;\n    minute = -minute;', replace='    hour = -hour;', rule='R3'),
    dict(id='parser-sign-on-hour-only', file='src/ace_time/TimeOffset.cpp', find='    return forHourMinute(-hour, -minute);', replace='    return forHourMinute(-hour, minute);', rule='R3'),
    dict(id='placeholder-dropped', file='src/ace_time/OffsetDateTime.cpp',
         find='  if (isError()) {\n    printer.print(F("<Invalid OffsetDateTime>"));\n    return;\n  }\n', replace='', rule='R4'),
    dict(id='offset-parser-rejects-large-hours', file='src/ace_time/TimeOffset.cpp', find="  offsetString = s;\n  if (utcSign == '+') {", replace="  offsetString = s;\n  if (hour > 23 || minute > 59) return forError();\n  if (utcSign == '+') {", rule='R6'),
    dict(id='zoned-parse-through-epoch', file='src/ace_time/ZonedDateTime.h', regex=True, unique=False, nth=0,
         find=r'(static ZonedDateTime forDateString\(const char\* dateString\) \{\n      OffsetDateTime dt = OffsetDateTime::forDateString\(dateString\);\n)      return ZonedDateTime\(dt, TimeZone::forTimeOffset\(dt.timeOffset\(\)\)\);',
         replace=r'\1      return forEpochSeconds(dt.toEpochSeconds(), TimeZone::forTimeOffset(dt.timeOffset()));', rule='R5'),
    dict(id='zone-brackets', file='src/ace_time/ZonedDateTime.cpp', find="  printer.print('[');", replace="  printer.print('(');", rule='R1', construct='brackets'),
    # behaviour-preserving rewrites: the rules must stay quiet
    dict(id='offset-print-branches-swapped-silent', file='src/ace_time/TimeOffset.cpp',
         find="  if (mMinutes < 0) {\n    printer.print('-');\n    hour = -hour;\n    minute = -minute;\n  } else {\n    printer.print('+');\n  }",
         replace="  if (mMinutes >= 0) {\n    printer.print('+');\n  } else {\n    printer.print('-');\n    hour = -hour;\n    minute = -minute;\n  }", expect='silent'),
    dict(id='offset-parse-branches-swapped-silent', file='src/ace_time/TimeOffset.cpp',
         find="  if (utcSign == '+') {\n    return forHourMinute(hour, minute);\n  } else {\n    return forHourMinute(-hour, -minute);\n  }",
         replace="  if (utcSign == '-') {\n    return forHourMinute(-hour, -minute);\n  }\n  return forHourMinute(hour, minute);", expect='silent'),
    dict(id='time-parser-skip-spelled-plus-one-silent', file='src/ace_time/LocalTime.cpp', unique=False, nth=0,
         find="  // ':'\n  s++;\n", replace="  // ':'\n  s += 1;\n", expect='silent'),
    dict(id='time-parser-indexed-digits-silent', file='src/ace_time/LocalTime.cpp',
         find="  uint8_t hour = (*s++ - '0');\n  hour = 10 * hour + (*s++ - '0');\n", replace="  uint8_t hour = 10 * (s[0] - '0') + (s[1] - '0');\n  s += 2;\n", expect='silent'),
]
