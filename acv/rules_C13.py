"""C13 - SystemClock keeps time from millis() across wrap-around (structural clauses)."""
from .common import AnalysisError, Report
from . import cxx
from .cxx import int_type
from .ir import E, walk_stmts, walk_expr, all_exprs, stmt_exprs, show
from .paths import Engine, Rule, path_of

META = {
    'explanation': 'Typed-AST and E-PATH rules on clock::SystemClock::{getNow, setNow, syncNow}: the catch-up loop compares a 16-bit '
                   'modular difference (both the truncation of clockMillis() and the difference are converted to the width of '
                   'mPrevMillis), the loop threshold equals the mPrevMillis step and is paired with +1 second, the invalid/sentinel '
                   'guards come first, every accepted sync re-bases the millisecond reference, and the seconds counter is only '
                   'incremented outside syncNow.',
    'decided': 'modular width discipline of the catch-up loop; 1000 ms <-> 1 s step pairing; sentinel guards; every path of syncNow '
               'that accepts a value leaves (mEpochSeconds == value, mPrevMillis == clockMillis() of that call, mIsInit), where '
               '"already holds the value" implies initialised because a fresh clock holds the sentinel (in-class initialisers '
               'folded from the AST); monotone writes outside syncNow',
    'not_decided': 'the equation T + floor((m - m0)/1000) over polling schedules (gaps up to 64,536 ms) as a timing property',
    'assumptions': ['clang 14 parser (host: unsigned long is 64-bit; the rule looks only at the 16-bit conversions)'],
}

SC = 'ace_time::clock::SystemClock'


def strip_widening(e):
    while e.k == 'cast' and e.a[0] >= 32:
        e = e.a[2]
    return e


def _is_const(e):
    while e.k == 'cast':
        e = e.a[2]
    return e.k == 'const'


def _is_not_flag(cnd, field):
    """`!flag`, `flag == false`, `false == flag`, `flag != true`"""
    while cnd.k == 'cast' or (cnd.k == 'un' and cnd.a[0] == 'bool'):
        cnd = cnd.a[-1]
    if cnd.k == 'un' and cnd.a[0] == '!':
        x = cnd.a[1]
        while x.k == 'cast' or (x.k == 'un' and x.a[0] == 'bool'):
            x = x.a[-1]
        return path_of(x) == field
    if cnd.k == 'bin' and cnd.a[0] in ('==', '!='):
        for x, y in ((cnd.a[1], cnd.a[2]), (cnd.a[2], cnd.a[1])):
            while x.k == 'cast' or (x.k == 'un' and x.a[0] == 'bool'):
                x = x.a[-1]
            while y.k == 'cast':
                y = y.a[2]
            if path_of(x) == field and y.k == 'const':
                return (cnd.a[0] == '==') == (not y.a[0])
    return False


def _increment(s):
    """the positive constant c of `x += c` / `x = x + c` / `x = c + x`, else None"""
    v = s.a[1]
    while v.k == 'cast':
        v = v.a[2]
    if s.a[2] == '+=' and v.k == 'const':
        return v.a[0]
    if s.a[2] == '=' and v.k == 'bin' and v.a[0] == '+':
        for x, y in ((v.a[1], v.a[2]), (v.a[2], v.a[1])):
            while x.k == 'cast':
                x = x.a[2]
            while y.k == 'cast':
                y = y.a[2]
            if path_of(x) == path_of(s.a[0]) and y.k == 'const':
                return y.a[0]
    return None


def run(cfg):
    R = Report('C13', cfg)
    lib = cxx.load_lib(cfg)
    R.analysed['translation_units'] = ['tu/lib.cpp']
    R.rule('R1', 'getNow(): the elapsed-time test is a modular difference at the width of mPrevMillis', floor=2)
    R.rule('R2', 'getNow(): loop threshold == mPrevMillis step, paired with +1 second in the same block', floor=1)
    R.rule('R3', 'invalid/sentinel guards precede every other effect (getNow, syncNow, setNow)', floor=3)
    R.rule('R4', 'syncNow(): every path that accepts the value re-bases mPrevMillis from clockMillis(), sets mIsInit and holds the value', floor=2)
    R.rule('R5', 'outside syncNow() the seconds counter is only incremented by a positive constant', floor=1)

    def ob(rid, c, loc, ok, msg, detail=None):
        R.instance(rid, c, loc)
        if not ok:
            R.violation(rid, c, loc, msg, detail)
    fields = {n: t for n, t, _ in lib.fields(SC)}
    wprev = int_type(fields.get('mPrevMillis'))
    ob('R1', SC + '::mPrevMillis', 'src/ace_time/clock/SystemClock.h', wprev is not None and not wprev[1] and wprev[0] == 16,
       'mPrevMillis is %s: the 64,536 ms polling bound of the statement assumes an unsigned 16-bit reference' % fields.get('mPrevMillis'))
    g = lib.fn(SC + '::getNow')
    loops = [s for s in walk_stmts(g.body) if s.k == 'loop']
    if len(loops) != 1 or loops[0].a[2] is None:
        raise AnalysisError('%s: getNow() is expected to contain one catch-up loop' % g.loc)
    lp = loops[0]
    cond = lp.a[2]
    c = cond
    while c.k == 'cast' and c.a[0] >= 32:
        c = c.a[2]
    ok, why = False, 'loop condition is %s' % show(cond)
    thr = None
    if c.k == 'bin' and c.a[0] in ('<=', '<') and _is_const(c.a[1]):
        # `1000 <= diff` is `diff >= 1000`
        c = E('bin', {'<=': '>=', '<': '>'}[c.a[0]], c.a[2], c.a[1], loc=c.loc, ty=c.ty)
    if c.k == 'bin' and c.a[0] in ('>=', '>'):
        lhs = strip_widening(c.a[1])
        rhs = c.a[2]
        while rhs.k == 'cast':
            rhs = rhs.a[2]
        thr = rhs.a[0] if rhs.k == 'const' else None
        if c.a[0] == '>' and thr is not None:
            thr += 1
        if lhs.k == 'cast' and wprev and (lhs.a[0], lhs.a[1]) == wprev:
            d = strip_widening(lhs.a[2])
            if d.k == 'bin' and d.a[0] == '-':
                a, b = strip_widening(d.a[1]), strip_widening(d.a[2])
                # truncation commutes with subtraction modulo 2^16: only the outer conversion is required
                a_ok = any(x.k == 'call' and x.a[0].endswith('::clockMillis') for x in walk_expr(a))
                b_ok = path_of(b) == 'this.mPrevMillis'
                ok = a_ok and b_ok
                if not a_ok:
                    why = 'the minuend is not clockMillis(): %s' % show(d.a[1])
                elif not b_ok:
                    why = 'the reference subtracted is %s, not mPrevMillis' % show(d.a[2])
            else:
                why = 'the tested quantity is not a difference: %s' % show(lhs.a[2])
        else:
            why = 'the difference is compared at the promoted width (int), not converted back to %d-bit unsigned: wrap-around of the counter breaks the comparison' % (wprev[0] if wprev else 16)
    ob('R1', g.name + ':loop-condition', lp.loc, ok, why)
    # R2 step pairing
    step_ms = step_s = None
    for s in lp.a[4]:
        if s.k == 'assign':
            p = path_of(s.a[0])
            inc = _increment(s)
            if inc is not None:
                if p == 'this.mPrevMillis':
                    step_ms = inc
                elif p == 'this.mEpochSeconds':
                    step_s = inc
    ob('R2', g.name + ':step', lp.loc, thr is not None and step_ms == thr and step_s is not None and step_ms == 1000 * step_s,
       'threshold %r ms, mPrevMillis += %r, mEpochSeconds += %r: expected threshold == step == 1000 * seconds' % (thr, step_ms, step_s))
    # R3 guards
    first = g.body[0] if g.body else None
    okg = False
    if first is not None and first.k == 'if':
        neg = _is_not_flag(first.a[0], 'this.mIsInit')
        ret = first.a[1] and first.a[1][0].k == 'return'
        if neg and ret:
            v = first.a[1][0].a[0]
            while v.k == 'cast':
                v = v.a[2]
            okg = v.k == 'var' and lib.global_value(v.a[0]) == lib.const('ace_time::clock::Clock::kInvalidSeconds')
    ob('R3', g.name + ':not-initialised', g.loc, okg, 'getNow() does not start with "if (!mIsInit) return kInvalidSeconds"')
    sy = lib.fn(SC + '::syncNow')
    p0 = sy.params[0][0]
    inv = lib.const('ace_time::clock::Clock::kInvalidSeconds')

    class SR(Rule):
        """state: (tested, holds, rebased, init)"""

        def initial(self_):
            return [('untested', False, False, False)]

        def refine(self_, cond_, st, truth):
            c_ = cond_
            while c_.k == 'cast':
                c_ = c_.a[2]
            if c_.k == 'bin' and c_.a[0] in ('==', '!='):
                l, r = c_.a[1], c_.a[2]
                while l.k == 'cast':
                    l = l.a[2]
                while r.k == 'cast':
                    r = r.a[2]
                for x, y in ((l, r), (r, l)):
                    if path_of(x) == p0 and y.k == 'var' and lib.global_value(y.a[0]) == inv:
                        is_inv = (c_.a[0] == '==') == truth
                        return ('sentinel' if is_inv else 'valid',) + st[1:]
                    if path_of(x) == 'this.mEpochSeconds' and path_of(y) == p0:
                        eq = (c_.a[0] == '==') == truth
                        if eq:
                            # the clock already holds this (valid) value: it was installed by an earlier
                            # syncNow(), which also set mIsInit
                            return (st[0], True, st[2], True)
            return st

        def assign(self_, s, st, tr):
            if s.k != 'assign':
                return st
            p = path_of(s.a[0])
            if p and p.startswith('this.'):
                if st[0] != 'valid':
                    R.instance('R3', sy.name + ':write-before-guard', s.loc)
                    R.violation('R3', sy.name + ':write-before-guard', s.loc, '%s is written on a path where the argument may be the invalid sentinel' % p, detail=list(tr))
                if p == 'this.mEpochSeconds':
                    return (st[0], path_of(s.a[1]) == p0, st[2], st[3])
                if p == 'this.mPrevMillis':
                    v = s.a[1]
                    reb = any(x.k == 'call' and x.a[0].endswith('::clockMillis') for x in walk_expr(v))
                    return (st[0], st[1], reb, st[3])
                if p == 'this.mIsInit':
                    v = s.a[1]
                    return (st[0], st[1], st[2], v.k == 'const' and v.a[0] == 1)
            return st

        def at_exit(self_, kind, stmt, st, tr):
            loc = stmt.loc if stmt is not None else sy.loc
            if st[0] == 'sentinel':
                R.instance('R3', sy.name + ':sentinel', loc)
                return
            c_ = sy.name + ':accepted'
            R.instance('R4', c_, loc, 'exit: holds=%s rebased=%s init=%s' % st[1:])
            missing = [n for n, v in zip(('mEpochSeconds == value', 'mPrevMillis = clockMillis()', 'mIsInit = true'), st[1:]) if not v]
            if st[0] != 'valid':
                R.violation('R4', c_, loc, 'a path leaves syncNow() without having tested the argument against the sentinel', detail=list(tr))
            elif missing and st[1] and not st[2]:
                R.violation('R4', c_, loc,
                            'syncNow() accepts the value on this path (the clock already shows that second) but does not re-base mPrevMillis: '
                            'milliseconds accumulated since the last getNow() are counted again after the sync', detail=list(tr))
            elif missing:
                R.violation('R4', c_, loc, 'path accepts the value without: %s' % ', '.join(missing), detail=list(tr))
    Engine(SR()).run(sy.body)
    # the "already holds this value => initialised" step above needs: an unset clock holds the sentinel (which syncNow()
    # never accepts as a value), so mEpochSeconds == value can only be true after an accepting syncNow()
    init_vals = {}
    for n_, t_, node in lib.fields(SC):
        if n_ in ('mEpochSeconds', 'mIsInit'):
            inner = [x for x in node.get('inner', []) if 'Comment' not in x.get('kind', '')]
            init_vals[n_] = lib.fold_node(inner[-1]) if inner else None
    c_ = SC + '::mEpochSeconds:initial'
    R.instance('R4', c_, sy.loc, 'initial values %r' % init_vals)
    if init_vals.get('mEpochSeconds') != inv or init_vals.get('mIsInit') not in (0, False):
        R.violation('R4', c_, sy.loc, 'a fresh clock starts with mEpochSeconds = %r, mIsInit = %r (expected the invalid sentinel %d and false): the first '
                    'syncNow(%r) takes the "second did not change" path, which leaves mIsInit false - the clock was set but keeps reporting the sentinel'
                    % (init_vals.get('mEpochSeconds'), init_vals.get('mIsInit'), inv, init_vals.get('mEpochSeconds')))
    sn = lib.fn(SC + '::setNow')
    calls = [e for e in all_exprs(sn.body) if e.k == 'call' and e.a[0].endswith('::syncNow')]
    ob('R3', sn.name, sn.loc, len(calls) == 1 and path_of(calls[0].a[2][0]) == sn.params[0][0] and sn.body and sn.body[0].k == 'expr'
       and sn.body[0].a[0] is calls[0], 'setNow() does not start by handing its argument to syncNow()')
    # R5 monotone writes
    okm, whym = True, ''
    n = 0
    for q, fs in lib.funcs.items():
        if not (q.startswith(SC + '::') or q.startswith('ace_time::clock::SystemClockLoop::')):
            continue
        if q.endswith('::syncNow'):
            continue
        for f in fs:
            if f.node.get('kind') == 'CXXConstructorDecl':
                continue    # member initialisers establish the initial (invalid) value
            for s in walk_stmts(f.body):
                if s.k == 'assign' and path_of(s.a[0]) == 'this.mEpochSeconds':
                    n += 1
                    inc = _increment(s)
                    if not (inc is not None and inc > 0):
                        okm, whym = False, '%s writes mEpochSeconds with %s %s at %s' % (f.name, s.a[2], show(s.a[1]), s.loc)
    ob('R5', SC + '::mEpochSeconds', 'src/ace_time/clock/SystemClock.h', okm and n >= 1, whym or 'no increment of mEpochSeconds found')
    return R


SELFTEST = [
    dict(id='difference-not-truncated', file='src/ace_time/clock/SystemClock.h',
         find='while ((uint16_t) ((uint16_t) clockMillis() - mPrevMillis) >= 1000) {', replace='while (((uint16_t) clockMillis() - mPrevMillis) >= 1000) {', rule='R1'),
    dict(id='millis-not-truncated', file='src/ace_time/clock/SystemClock.h',
         find='while ((uint16_t) ((uint16_t) clockMillis() - mPrevMillis) >= 1000) {', replace='while ((uint16_t) (clockMillis() - mPrevMillis) >= 1000) {', expect='silent'),
    dict(id='step-mismatch', file='src/ace_time/clock/SystemClock.h', find='        mPrevMillis += 1000;', replace='        mPrevMillis += 1024;', rule='R2'),
    dict(id='epoch-seconds-initial-zero', file='src/ace_time/clock/SystemClock.h', find='    mutable acetime_t mEpochSeconds = kInvalidSeconds;', replace='    mutable acetime_t mEpochSeconds = 0;', rule='R4', construct='initial'),
    dict(id='not-initialised-guard-deleted', file='src/ace_time/clock/SystemClock.h', find='      if (!mIsInit) return kInvalidSeconds;\n', replace='', rule='R3'),
    dict(id='sentinel-guard-deleted', file='src/ace_time/clock/SystemClock.h', find='      if (epochSeconds == kInvalidSeconds) return;\n      mLastSyncTime = epochSeconds;', replace='      mLastSyncTime = epochSeconds;', rule='R3'),
    dict(id='rebase-deleted', file='src/ace_time/clock/SystemClock.h', regex=True, find=r'\n      mPrevMillis = clockMillis\(\);\n      mIsInit = true;\n\n      if \(mBackupClock', replace=r'\n      mIsInit = true;\n\n      if (mBackupClock', rule='R4'),
    dict(id='early-return-without-rebase', file='src/ace_time/clock/SystemClock.h', regex=True,
         find=r'      if \(mEpochSeconds == epochSeconds\) \{\n(?:        //.*\n)*        mPrevMillis = clockMillis\(\);\n        return;\n      \}\n',
         replace='      if (mEpochSeconds == epochSeconds) return;\\n', rule='R4'),
    dict(id='seconds-decremented', file='src/ace_time/clock/SystemClock.h', find='        mEpochSeconds += 1;', replace='        mEpochSeconds -= 1;', rule='R'),
    dict(id='seconds-step-spelled-out-negative', file='src/ace_time/clock/SystemClock.h', find='        mEpochSeconds += 1;', replace='        mEpochSeconds = mEpochSeconds - 1;', rule='R'),
    # behaviour-preserving rewrites: the rules must stay quiet
    dict(id='init-guard-compared-to-false-silent', file='src/ace_time/clock/SystemClock.h', find='      if (!mIsInit) return kInvalidSeconds;\n', replace='      if (mIsInit == false) return kInvalidSeconds;\n', expect='silent'),
    dict(id='loop-test-operands-swapped-silent', file='src/ace_time/clock/SystemClock.h',
         find='while ((uint16_t) ((uint16_t) clockMillis() - mPrevMillis) >= 1000) {', replace='while (1000 <= (uint16_t) ((uint16_t) clockMillis() - mPrevMillis)) {', expect='silent'),
    dict(id='loop-test-strict-silent', file='src/ace_time/clock/SystemClock.h',
         find='while ((uint16_t) ((uint16_t) clockMillis() - mPrevMillis) >= 1000) {', replace='while ((uint16_t) ((uint16_t) clockMillis() - mPrevMillis) > 999) {', expect='silent'),
    dict(id='seconds-step-spelled-out-silent', file='src/ace_time/clock/SystemClock.h', find='        mEpochSeconds += 1;', replace='        mEpochSeconds = mEpochSeconds + 1;', expect='silent'),
    dict(id='sentinel-test-operands-swapped-silent', file='src/ace_time/clock/SystemClock.h',
         find='      if (epochSeconds == kInvalidSeconds) return;\n      mLastSyncTime = epochSeconds;', replace='      if (kInvalidSeconds == epochSeconds) return;\n      mLastSyncTime = epochSeconds;', expect='silent'),
    dict(id='accept-statements-reordered-silent', file='src/ace_time/clock/SystemClock.h',
         find='      mEpochSeconds = epochSeconds;\n      mPrevMillis = clockMillis();\n      mIsInit = true;', replace='      mIsInit = true;\n      mPrevMillis = clockMillis();\n      mEpochSeconds = epochSeconds;', expect='silent'),
]
