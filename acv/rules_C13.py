"""C13 - SystemClock keeps time from millis() across wrap-around (structural clauses)."""
from .common import AnalysisError, Report
from . import cxx
from .cxx import int_type
from .ir import E, walk_stmts, walk_expr, all_exprs, stmt_exprs, show
from .paths import Engine, Rule, path_of

META = {
    'explanation': 'E-SEQ (typed): clock::SystemClock::{getNow, setNow, syncNow} are interpreted through their real bodies, with '
                   'fixed-width wrap at every declaration, cast and store, on a SystemClock object built from the in-class '
                   'initialisers folded from the AST; clockMillis() is the only abstraction (the value of the schedule). Schedules: '
                   'set at counter m0, then polls at stated gaps (1 ms .. 64,535 ms, mixed), m0 placed so that the counter crosses '
                   '2^16 and 2^32 during the schedule; re-set scenarios (same value, other value, after idling, sentinel); the '
                   'backup-clock path of setNow. A loop that does not terminate on a schedule is a violation. Plus typed-AST rules '
                   'for the width of the millisecond reference and for monotone writes outside syncNow.',
    'decided': 'on every stated schedule each reading equals T + floor((m - m0) / 1000); an unset clock reads the sentinel; setting '
               'the sentinel changes nothing; a repeated set re-bases the millisecond reference; setNow behaves like syncNow and '
               'writes the backup clock; the first set of a fresh clock (built by its own constructor) takes effect whatever value it sets; the '
               'millisecond reference is an unsigned 16-bit value (a member, or the one narrow integer of a small value type around it); '
               'outside syncNow() the seconds are never assigned, decreased or incremented by a non-positive constant',
    'not_decided': 'schedules outside the stated family (gaps of 64,536 ms or more are outside the documented contract); real time',
    'assumptions': ['clang 14 parser (host: unsigned long is 64-bit; the rule looks only at the 16-bit conversions)'],
}

SC = 'ace_time::clock::SystemClock'


def strip_widening(e):
    while e.k == 'cast' and e.a[0] >= 32:
        e = e.a[2]
    return e


def _is_const(e):
    while e.k == 'cast':
        e = e.a[2]
    return e.k == 'const'


def _is_not_flag(cnd, field):
    """`!flag`, `flag == false`, `false == flag`, `flag != true`"""
    while cnd.k == 'cast' or (cnd.k == 'un' and cnd.a[0] == 'bool'):
        cnd = cnd.a[-1]
    if cnd.k == 'un' and cnd.a[0] == '!':
        x = cnd.a[1]
        while x.k == 'cast' or (x.k == 'un' and x.a[0] == 'bool'):
            x = x.a[-1]
        return path_of(x) == field
    if cnd.k == 'bin' and cnd.a[0] in ('==', '!='):
        for x, y in ((cnd.a[1], cnd.a[2]), (cnd.a[2], cnd.a[1])):
            while x.k == 'cast' or (x.k == 'un' and x.a[0] == 'bool'):
                x = x.a[-1]
            while y.k == 'cast':
                y = y.a[2]
            if path_of(x) == field and y.k == 'const':
                return (cnd.a[0] == '==') == (not y.a[0])
    return False


def _increment(s):
    """the positive constant c of `x += c` / `x = x + c` / `x = c + x`, else None"""
    v = s.a[1]
    while v.k == 'cast':
        v = v.a[2]
    if s.a[2] == '+=' and v.k == 'const':
        return v.a[0]
    if s.a[2] == '+=':
        return 'sum'          # x += <something computed>: an addition, its sign is not visible here
    if s.a[2] == '=' and v.k == 'bin' and v.a[0] == '+':
        for x, y in ((v.a[1], v.a[2]), (v.a[2], v.a[1])):
            while x.k == 'cast':
                x = x.a[2]
            while y.k == 'cast':
                y = y.a[2]
            if path_of(x) == path_of(s.a[0]) and y.k == 'const':
                return y.a[0]
            if path_of(x) == path_of(s.a[0]):
                return 'sum'
    return None


def run(cfg):
    R = Report('C13', cfg)
    lib = cxx.load_lib(cfg)
    R.analysed['translation_units'] = ['tu/lib.cpp']
    R.rule('R1', 'after a set at counter m0 every reading at counter m is T + floor((m - m0) / 1000): getNow/syncNow interpreted on polling schedules incl. 16- and 32-bit wrap-around', floor=2)
    R.rule('R2', 'the millisecond reference is an unsigned 16-bit field (the 64,536 ms polling bound depends on it)', floor=1)
    R.rule('R3', 'an unset clock reads the sentinel; setting the sentinel changes nothing; setNow() sets like syncNow()', floor=3)
    R.rule('R4', 'a repeated set re-bases the millisecond reference; the first set of a fresh clock takes effect whatever value it sets', floor=2)
    R.rule('R5', 'outside syncNow() the seconds counter is only added to (by a positive constant, or by a computed amount whose sign R1 decides)', floor=1)

    def ob(rid, c, loc, ok, msg, detail=None):
        R.instance(rid, c, loc)
        if not ok:
            R.violation(rid, c, loc, msg, detail)
    fields = {n: t for n, t, _ in lib.fields(SC)}
    # the millisecond reference: the member of SystemClock that is not the seconds counter, the last-sync time or the flag - an
    # unsigned 16-bit integer, directly or as the single integer member of a small value type wrapped around it
    def width_of(t, depth=0):
        it = int_type(t)
        if it is not None or depth > 2:
            return it
        q = (t or '').replace('const ', '').replace('mutable ', '').strip()
        for cand in (q, SC + '::' + q.split('::')[-1]):
            try:
                inner = [int_type(t2) or width_of(t2, depth + 1) for _n2, t2, _x2 in lib.fields(cand)]
            except Exception:
                continue
            ints = [w for w in inner if w is not None]
            return ints[0] if len(inner) == 1 and ints else ((16, False) if any(w == (16, False) for w in ints) and len([w for w in ints if w[0] < 32]) == 1 else None)
        return None
    refs = [n for n, t in fields.items() if '*' not in (t or '') and n not in ('mEpochSeconds', 'mLastSyncTime', 'mIsInit') and width_of(t) is not None
            and width_of(t)[0] < 32]
    wprev = width_of(fields[refs[0]]) if len(refs) == 1 else None
    ob('R2', SC + '::mPrevMillis', 'src/ace_time/clock/SystemClock.h', wprev is not None and not wprev[1] and wprev[0] == 16,
       'the millisecond reference (%s) is %s: the 64,536 ms polling bound of the statement assumes an unsigned 16-bit reference' % (
           ', '.join(refs) or 'no member narrower than 32 bits', ', '.join(fields[n_] or '?' for n_ in refs) or '-'))
    inv = lib.const('ace_time::clock::Clock::kInvalidSeconds')
    g = lib.fn(SC + '::getNow')
    sy = lib.fn(SC + '::syncNow')
    sn = lib.fn(SC + '::setNow')
    # initial values (in-class initialisers folded from the AST)
    init_vals = {}
    for n_, t_, node in lib.fields(SC):
        inner = [x for x in node.get('inner', []) if 'Comment' not in x.get('kind', '')]
        if inner and t_ and '*' not in t_:
            try:
                init_vals[n_] = lib.fold_node(inner[-1])
            except Exception:
                pass
    clock_scenarios(R, lib, ob, init_vals, inv, g, sy, sn)
    # R5 monotone writes
    okm, whym = True, ''
    n = 0
    for q, fs in lib.funcs.items():
        if not (q.startswith(SC + '::') or q.startswith('ace_time::clock::SystemClockLoop::')):
            continue
        if q.split('::')[-1] not in ('getNow', 'keepAlive'):
            continue                # a reading may only move the seconds forward; setting the clock (syncNow and whoever applies a response) may do anything
        for f in fs:
            if f.node.get('kind') == 'CXXConstructorDecl':
                continue    # member initialisers establish the initial (invalid) value
            targets = {'this.mEpochSeconds'}
            for s in walk_stmts(f.body):       # `acetime_t& seconds = mEpochSeconds;`: a second name for the member
                if s.k == 'decl' and s.a[2] is not None and (s.a[1] or '').rstrip().endswith('&') and path_of(s.a[2]) == 'this.mEpochSeconds':
                    targets.add(s.a[0])
            for s in walk_stmts(f.body):
                if s.k == 'assign' and path_of(s.a[0]) in targets:
                    n += 1
                    inc = _increment(s)
                    if inc == 'sum':
                        # the seconds grow by a computed amount (the catch-up counted in a local first): that the amount is never
                        # negative is decided by R1, where every reading along a schedule must be the expected one and never go back
                        continue
                    if not (inc is not None and inc > 0):
                        okm, whym = False, '%s writes mEpochSeconds with %s %s at %s' % (f.name, s.a[2], show(s.a[1]), s.loc)
    if 'mEpochSeconds' not in fields and n == 0:
        # the seconds counter is not a direct member any more (it lives in a member of class type): that readings never go back is
        # decided along the schedules of R1
        R.instance('R5', SC + '::mEpochSeconds', 'src/ace_time/clock/SystemClock.h', 'no member mEpochSeconds: monotone readings are decided by R1')
    else:
        ob('R5', SC + '::mEpochSeconds', 'src/ace_time/clock/SystemClock.h', okm and n >= 1, whym or 'no increment of mEpochSeconds found')
    return R


def initial_values(lib):
    """in-class initialisers of the non-pointer fields of SystemClock, folded from the AST"""
    init_vals = {}
    for n_, t_, node in lib.fields(SC):
        inner = [x for x in node.get('inner', []) if 'Comment' not in x.get('kind', '')]
        if inner and t_ and '*' not in t_:
            try:
                init_vals[n_] = lib.fold_node(inner[-1])
            except Exception:
                pass
    return init_vals


def clock_scenarios(R, lib, ob, init_vals, inv, g, sy, sn):
    """getNow(), syncNow() and setNow() are interpreted (E-SEQ, typed: every integer local, field, parameter and
    conversion wraps to its declared width) on an abstract clock object whose millisecond counter the rule controls
    (clockMillis() is the abstraction boundary; the counter is reported as a 32-bit value, as on the target).  Schedules:
    a start phase m0 (incl. just below 2^16 and 2^32), a set to T, then polls after gaps of 0..64,536 ms.  Nothing of the
    library is executed; the interpreter walks the IR of the three bodies and of the members they call."""
    from .aeval import AEval, AObj, CxxModule, Raised
    mod = CxxModule(lib, [SC + '::'])
    ftypes = {n: int_type(t) for n, t, _ in lib.fields(SC) if int_type(t)}
    ftypes.setdefault('mIsInit', (8, False))
    state = {'m': 0}
    log = []
    intr = {SC + '::clockMillis': lambda ev, recv, args: state['m'] & 0xffffffff,
            'ace_time::clock::Clock::setNow': lambda ev, recv, args: log.append((recv.oid if isinstance(recv, AObj) else recv, args[0])),
            'ace_time::clock::Clock::getNow': lambda ev, recv, args: 12345}

    from .aeval import freeze
    from .cxx import Lowerer
    from .ir import E

    def fresh(backup=None, reference=None):
        # built by the class's own constructor where it has one taking the two clocks (member initialisers may stand in the class
        # or in the constructor's initialiser list); else from the initialisers written at the members
        ctors_ = [c_ for c_ in lib.fns(SC + '::SystemClock') if len(c_.params) == 2]
        if ctors_:
            o_ = AObj({n_: None for n_, _t, _x in lib.fields(SC)}, oid='clock', cls=SC, ftypes=ftypes)
            o_.ptrs = frozenset(n_ for n_, t_, _x in lib.fields(SC) if t_ and '*' in t_)
            args_ = [reference if 'ref' in (pn_ or '').lower() else backup if 'back' in (pn_ or '').lower() else None for pn_, _pt in ctors_[0].params]
            if sorted(map(id, args_)) == sorted(map(id, [reference, backup])) or reference is backup:
                try:
                    if AEval(module=mod, intrinsics=intr, typed=True, max_steps=20000)._construct(o_, SC, args_, 0, sy.loc) and \
                            all(v_ is not None for n_, v_ in o_.attrs.items() if n_ in ftypes):
                        return o_
                except AnalysisError:
                    pass
        attrs = {'mReferenceClock': reference, 'mBackupClock': backup}
        for n, t, node in lib.fields(SC):
            if n not in attrs:
                if int_type(t):
                    attrs[n] = init_vals.get(n, 0)
                elif '*' in (t or ''):
                    attrs[n] = None
                else:
                    # a member of class type: the value its initialiser in the class gives it, else a default-made one
                    ini = [x for x in node.get('inner', []) if 'Comment' not in x.get('kind', '') and 'Attr' not in x.get('kind', '')]
                    e_ = Lowerer(lib).expr(ini[-1]) if ini else E('init', (t or '').replace('const ', '').strip(), [])
                    attrs[n] = AEval(module=mod, intrinsics=intr, typed=True, max_steps=20000).ev(e_, {}, 0)
        o = AObj(attrs, oid='clock', cls=SC, ftypes=ftypes)
        o.ptrs = frozenset(n for n, t, _ in lib.fields(SC) if t and '*' in t)
        return o

    def call(f, obj, *args):
        try:
            return AEval(module=mod, intrinsics=intr, typed=True, max_steps=2000000).call_function(f.name, list(args), recv=obj, chosen=mod.select(f.name, len(args), [None] * len(args)))
        except AnalysisError as ex:
            if 'does not terminate' not in str(ex) and 'step budget' not in str(ex):
                raise
            return 'no result: a loop of %s does not terminate' % f.name.split('::')[-1]

    # ---- R4: the first set of a fresh clock takes effect whatever value it sets (a clock whose seconds start at a value other
    # than the sentinel takes a first syncNow() of that value for "the second did not change" and stays unset)
    c_ = SC + '::mEpochSeconds:initial'
    R.instance('R4', c_, sy.loc, 'initial values %r' % init_vals)
    try:
        for T0 in (0, 1, -1, 946684800, 2000000000):
            clk = fresh()
            state['m'] = 777
            call(sy, clk, T0)
            v = call(g, clk)
            if v != T0:
                R.violation('R4', c_, sy.loc, 'a fresh clock (members as their initialisers leave them: %r) is set with syncNow(%d) and then reads %r: the first set '
                            'looks like "the second did not change" and the clock, although set, keeps reporting the sentinel' % (init_vals, T0, v))
                break
    except Raised as r_:
        raise AnalysisError('%s: interpretation raised %s' % (sy.loc, r_.what))
    # ---- R3: unset clock, sentinel
    clk = fresh()
    before = freeze(clk)
    state['m'] = 70000
    try:
        v = call(g, clk)
        ob('R3', g.name + ':not-initialised', g.loc, v == inv and freeze(clk) == before,
           'a clock that was never set reads %r%s, expected the invalid sentinel %d and no change of state' % (v, '' if freeze(clk) == before else ' and changes its state', inv))
        bad = None
        for setter in (sy, sn):
            for start in ('unset', 'set'):
                clk = fresh()
                if start == 'set':
                    state['m'] = 1000
                    call(sy, clk, 500)
                state['m'] = 9000
                before = {k_: freeze(v_) for k_, v_ in clk.attrs.items()}
                call(setter, clk, inv)
                if {k_: freeze(v_) for k_, v_ in clk.attrs.items()} != before:
                    bad = '%s(kInvalidSeconds) on a%s clock changes %s' % (setter.name.split('::')[-1], 'n unset' if start == 'unset' else ' set',
                                                                          sorted(k for k in before if before[k] != freeze(clk.attrs[k])))
        ob('R3', sy.name + ':sentinel', sy.loc, bad is None, bad or '')
        # setNow(T) sets the clock as syncNow(T) does
        a, b = fresh(), fresh()
        state['m'] = 4321
        call(sy, a, 777)
        call(sn, b, 777)
        ob('R3', sn.name, sn.loc, freeze(a) == freeze(b), 'setNow(T) leaves the clock in another state than syncNow(T): %s' %
           sorted((k, repr(a.attrs[k]), repr(b.attrs[k])) for k in a.attrs if freeze(a.attrs[k]) != freeze(b.attrs[k])))
    except Raised as r_:
        raise AnalysisError('%s: interpretation raised %s' % (g.loc, r_.what))
    # ---- R1: readings along polling schedules
    thorough = R.cfg.tier == 'thorough'
    gaps = [0, 1, 999, 1000, 1001, 1999, 2000, 30000, 64535, 64536]
    starts = [0, 1, 999, 64536, 65000, 65535, 65536 * 3 + 500, (1 << 32) - 30000, (1 << 32) - 1]
    T = 1000000
    n = 0
    bad = None
    import itertools
    depth = 3 if thorough else 2
    for m0 in starts:
        for seq in itertools.product(gaps, repeat=depth):
            clk = fresh()
            state['m'] = m0
            call(sy, clk, T)
            m = m0
            last = T
            for gap in seq:
                m += gap
                state['m'] = m
                try:
                    v = call(g, clk)
                except AnalysisError as ex:
                    if 'does not terminate' not in str(ex) and 'step budget' not in str(ex):
                        raise
                    v = 'no reading: the catch-up loop does not terminate'
                n += 1
                want = T + (m - m0) // 1000
                if v != want or (isinstance(v, int) and v < last):
                    bad = ('set to %d at counter %d, polled after gaps %s: the reading at counter %d is %r, expected %d = T + floor((m - m0) / 1000)'
                           % (T, m0, list(seq), m, v, want))
                    break
                last = v
            if bad:
                break
        if bad:
            break
    R.instance('R1', g.name + ':schedules', g.loc, '%d readings interpreted' % n, n=max(1, n))
    if bad:
        R.violation('R1', g.name + ':schedules', g.loc, bad)
    # ---- R4: a repeated set (same second) re-bases the reference
    bad = None
    for idle in (0, 999, 1000, 5000, 64000):
        for second in (T, T + 1, T - 5):
            clk = fresh()
            state['m'] = 123
            call(sy, clk, T)
            state['m'] = 123 + idle
            call(sy, clk, second)
            for later in (0, 999, 1000, 2500):
                state['m'] = 123 + idle + later
                v = call(g, clk)
                if v != second + later // 1000:
                    bad = ('set to %d, idle for %d ms, set to %d, read %d ms later: %r, expected %d (milliseconds that passed before the second set must not '
                           'be counted again)' % (T, idle, second, later, v, second + later // 1000))
                    break
            if bad:
                break
        if bad:
            break
    # ... also when the clock was read in between (it has advanced past the value it was last set to) and is then set
    # again - to the same value as before, to an earlier one, to a later one
    if bad is None:
        for run_ms in (1000, 5000, 61000):
            for second in (T, T - 3, T + run_ms // 1000, T + 100):
                clk = fresh()
                state['m'] = 500
                call(sy, clk, T)
                state['m'] = 500 + run_ms
                call(g, clk)
                call(sy, clk, second)
                for later in (0, 1500):
                    state['m'] = 500 + run_ms + later
                    v = call(g, clk)
                    if v != second + later // 1000:
                        bad = ('set to %d, read %d ms later, set to %d, read %d ms after that: %r, expected %d (a set always takes effect, whatever was '
                               'set last)' % (T, run_ms, second, later, v, second + later // 1000))
                        break
                if bad:
                    break
            if bad:
                break
    ob('R4', sy.name + ':accepted', sy.loc, bad is None, bad or '')
    # last-sync time and backup clock
    bk = AObj({}, oid='backup', cls='ace_time::clock::Clock')
    clk = fresh(backup=bk)
    del log[:]
    state['m'] = 50
    call(sy, clk, 4242)
    ok = clk.attrs.get('mLastSyncTime') == 4242 and log == [('backup', 4242)]
    clk2 = fresh(backup=bk, reference=bk)
    del log[:]
    call(sy, clk2, 4242)
    ok2 = log == []
    ob('R4', sy.name + ':backup', sy.loc, ok and ok2, 'after syncNow(4242) the last-sync time is %r and the backup clock received %r%s; expected 4242, one write to a distinct '
       'backup clock and none when the backup is the reference' % (clk.attrs.get('mLastSyncTime'), log if not ok else [('backup', 4242)], '' if ok2 else ' (reference == backup: %r)' % log))


SELFTEST = [
    dict(id='difference-not-truncated', file='src/ace_time/clock/SystemClock.h',
         find='while ((uint16_t) ((uint16_t) clockMillis() - mPrevMillis) >= 1000) {', replace='while (((uint16_t) clockMillis() - mPrevMillis) >= 1000) {', rule='R1'),
    dict(id='millis-not-truncated', file='src/ace_time/clock/SystemClock.h',
         find='while ((uint16_t) ((uint16_t) clockMillis() - mPrevMillis) >= 1000) {', replace='while ((uint16_t) (clockMillis() - mPrevMillis) >= 1000) {', expect='silent'),
    dict(id='step-mismatch', file='src/ace_time/clock/SystemClock.h', find='        mPrevMillis += 1000;', replace='        mPrevMillis += 1024;', rule='R1'),
    dict(id='prev-millis-widened', file='src/ace_time/clock/SystemClock.h', find='    mutable uint16_t mPrevMillis = 0;', replace='    mutable uint32_t mPrevMillis = 0;', rule='R'),
    dict(id='threshold-off-by-one', file='src/ace_time/clock/SystemClock.h',
         find='while ((uint16_t) ((uint16_t) clockMillis() - mPrevMillis) >= 1000) {', replace='while ((uint16_t) ((uint16_t) clockMillis() - mPrevMillis) > 1000) {', rule='R1'),
    dict(id='backup-gets-previous-value', file='src/ace_time/clock/SystemClock.h',
         find='      if (mBackupClock != mReferenceClock) {\n        backupNow(epochSeconds);\n      }', replace='      if (mBackupClock != mReferenceClock) {\n        backupNow(mLastSyncTime - 1);\n      }', rule='R4'),
    dict(id='epoch-seconds-initial-zero', file='src/ace_time/clock/SystemClock.h', find='    mutable acetime_t mEpochSeconds = kInvalidSeconds;', replace='    mutable acetime_t mEpochSeconds = 0;', rule='R4', construct='initial'),
    dict(id='not-initialised-guard-deleted', file='src/ace_time/clock/SystemClock.h', find='      if (!mIsInit) return kInvalidSeconds;\n', replace='', rule='R3'),
    dict(id='sentinel-guard-deleted', file='src/ace_time/clock/SystemClock.h', find='      if (epochSeconds == kInvalidSeconds) return;\n      mLastSyncTime = epochSeconds;', replace='      mLastSyncTime = epochSeconds;', rule='R3'),
    dict(id='rebase-deleted', file='src/ace_time/clock/SystemClock.h', regex=True, find=r'\n      mPrevMillis = clockMillis\(\);\n      mIsInit = true;\n\n      if \(mBackupClock', replace=r'\n      mIsInit = true;\n\n      if (mBackupClock', rule='R4'),
    dict(id='early-return-without-rebase', file='src/ace_time/clock/SystemClock.h', regex=True,
         find=r'      if \(mEpochSeconds == epochSeconds\) \{\n(?:        //.*\n)*        mPrevMillis = clockMillis\(\);\n        return;\n      \}\n',
         replace='      if (mEpochSeconds == epochSeconds) return;\\n', rule='R4'),
    dict(id='seconds-decremented', file='src/ace_time/clock/SystemClock.h', find='        mEpochSeconds += 1;', replace='        mEpochSeconds -= 1;', rule='R'),
    dict(id='seconds-step-spelled-out-negative', file='src/ace_time/clock/SystemClock.h', find='        mEpochSeconds += 1;', replace='        mEpochSeconds = mEpochSeconds - 1;', rule='R'),
    # behaviour-preserving rewrites: the rules must stay quiet
    dict(id='init-guard-compared-to-false-silent', file='src/ace_time/clock/SystemClock.h', find='      if (!mIsInit) return kInvalidSeconds;\n', replace='      if (mIsInit == false) return kInvalidSeconds;\n', expect='silent'),
    dict(id='loop-test-operands-swapped-silent', file='src/ace_time/clock/SystemClock.h',
         find='while ((uint16_t) ((uint16_t) clockMillis() - mPrevMillis) >= 1000) {', replace='while (1000 <= (uint16_t) ((uint16_t) clockMillis() - mPrevMillis)) {', expect='silent'),
    dict(id='loop-test-strict-silent', file='src/ace_time/clock/SystemClock.h',
         find='while ((uint16_t) ((uint16_t) clockMillis() - mPrevMillis) >= 1000) {', replace='while ((uint16_t) ((uint16_t) clockMillis() - mPrevMillis) > 999) {', expect='silent'),
    dict(id='seconds-step-spelled-out-silent', file='src/ace_time/clock/SystemClock.h', find='        mEpochSeconds += 1;', replace='        mEpochSeconds = mEpochSeconds + 1;', expect='silent'),
    dict(id='sentinel-test-operands-swapped-silent', file='src/ace_time/clock/SystemClock.h',
         find='      if (epochSeconds == kInvalidSeconds) return;\n      mLastSyncTime = epochSeconds;', replace='      if (kInvalidSeconds == epochSeconds) return;\n      mLastSyncTime = epochSeconds;', expect='silent'),
    dict(id='accept-statements-reordered-silent', file='src/ace_time/clock/SystemClock.h',
         find='      mEpochSeconds = epochSeconds;\n      mPrevMillis = clockMillis();\n      mIsInit = true;', replace='      mIsInit = true;\n      mPrevMillis = clockMillis();\n      mEpochSeconds = epochSeconds;', expect='silent'),
]
